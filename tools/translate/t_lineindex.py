"""T-lines: crates/ide/src/line_index.rs (struct LineIndex and EVERY fn of `impl LineIndex`) and the functions
position / range / folding_range of crates/lsp/src/to_proto.rs and position / range of crates/lsp/src/from_proto.rs
-> coq/gen/GenLineIndex.v

The Rust text is read with a hand-written tokenizer + recursive-descent parser for the subset these functions are
written in, type-checked against a small table of the std / text-size / lsp-types operations they use, and rendered
one-to-one in Gallina over the contracts of coq/model/LineIndex.v (parts 3 and 4): every operation that can panic
(unsigned subtraction, u32 conversions, str slicing, u32 sums, TextRange::new) becomes a `res` bind in Rust's
evaluation order, `for` / `while` become `for_loop` / `while_loop` over the tuple of the variables the body assigns.
Comments, formatting, local names (all locals are renamed v_<name>) and the texts of expect("..") messages are
normalised away.  Anything outside the subset raises TranslateError naming file and line: a broken tie, never
silently skipped.  TG.Proofs.GenLineIndexEq proves the rendering equal to the hand model for all inputs."""
import re
from rsutil import TranslateError, read, strip_comments, cut_tests, matching_brace

LINE_INDEX = "crates/ide/src/line_index.rs"
TO_PROTO = "crates/lsp/src/to_proto.rs"
FROM_PROTO = "crates/lsp/src/from_proto.rs"

# ----------------------------------------------------------------------------- tokenizer

PUNCT = ["..=", "<<=", ">>=", "::", "->", "=>", "&&", "||", "==", "!=", "<=", ">=", "+=", "-=", "*=", "/=", "|=", "&=", "^=",
         "..", "<<", ">>", "(", ")", "{", "}", "[", "]", "<", ">", ",", ";", ":", ".", "=", "!", "&", "*", "|", "#", "+", "-",
         "/", "%", "^", "?", "@"]
ESC = {"n": 10, "r": 13, "t": 9, "0": 0, "\\": 92, "'": 39, '"': 34}


class Tok:
    def __init__(self, kind, val, line):
        self.kind, self.val, self.line = kind, val, line

    def __repr__(self):
        return "%s:%r@%d" % (self.kind, self.val, self.line)


def char_code(body, fname, line):
    if body.startswith("\\"):
        if body[1] == "x":
            return int(body[2:], 16)
        if body[1] == "u":
            return int(body[3:-1], 16)
        if body[1] not in ESC or len(body) != 2:
            raise TranslateError("%s:%d: unsupported escape %r" % (fname, line, body))
        return ESC[body[1]]
    if len(body) != 1:
        raise TranslateError("%s:%d: bad character literal %r" % (fname, line, body))
    return ord(body)


CHAR_RE = re.compile(r"'(\\x[0-9a-fA-F]{2}|\\u\{[0-9a-fA-F]+\}|\\.|[^\\'])'")


def tokenize(src, fname, line0=1):
    toks, i, n, line = [], 0, len(src), line0
    while i < n:
        c = src[i]
        if c == "\n":
            line += 1
            i += 1
        elif c.isspace():
            i += 1
        elif c == '"':
            j = i + 1
            while src[j] != '"':
                j += 2 if src[j] == "\\" else 1
            toks.append(Tok("STR", src[i + 1:j], line))
            line += src.count("\n", i, j)
            i = j + 1
        elif c == "b" and src.startswith("b'", i) and CHAR_RE.match(src, i + 1):
            m = CHAR_RE.match(src, i + 1)
            toks.append(Tok("BYTE", char_code(m.group(1), fname, line), line))
            i = m.end()
        elif c == "'" and CHAR_RE.match(src, i):
            m = CHAR_RE.match(src, i)
            toks.append(Tok("CHAR", char_code(m.group(1), fname, line), line))
            i = m.end()
        elif c == "'" and re.match(r"'[A-Za-z_]+", src[i:]):
            m = re.match(r"'[A-Za-z_]+", src[i:])
            toks.append(Tok("LIFETIME", m.group(0), line))
            i += len(m.group(0))
        elif c == "r" and re.match(r"r#[A-Za-z_][A-Za-z0-9_]*", src[i:]):      # raw identifier r#type
            m = re.match(r"r#([A-Za-z_][A-Za-z0-9_]*)", src[i:])
            nm = m.group(1)
            if nm in ("if", "let", "match", "for", "while", "loop", "fn", "mod", "use", "struct", "enum", "impl", "trait", "return",
                      "break", "continue", "move", "as", "in", "else", "mut", "ref", "self"):
                nm += "_raw"                      # a keyword used as a variable name
            toks.append(Tok("ID", nm, line))
            i += len(m.group(0))
        elif c.isalpha() or c == "_":
            m = re.match(r"[A-Za-z_][A-Za-z0-9_]*", src[i:])
            toks.append(Tok("ID", m.group(0), line))
            i += len(m.group(0))
        elif c.isdigit():
            m = re.match(r"(0x[0-9a-fA-F_]+|0b[01_]+|[0-9][0-9_]*)(usize|u32|u8|u64|i32|i64)?", src[i:])
            txt = m.group(1).replace("_", "")
            val = int(txt, 16) if txt.startswith("0x") else int(txt[2:], 2) if txt.startswith("0b") else int(txt)
            toks.append(Tok("NUM", (val, m.group(2)), line))
            i += len(m.group(0))
        else:
            for p in PUNCT:
                if src.startswith(p, i):
                    toks.append(Tok("P", p, line))
                    i += len(p)
                    break
            else:
                raise TranslateError("%s:%d: unexpected character %r" % (fname, line, c))
    toks.append(Tok("EOF", None, line))
    return toks


# ----------------------------------------------------------------------------- parser (Rust subset -> AST tuples)

BINOPS = [["||"], ["&&"], ["==", "!=", "<", ">", "<=", ">="], ["|"], ["^"], ["&"], ["<<", ">>"], ["+", "-"], ["*", "/", "%"]]
ASSIGN_OPS = ["=", "+=", "-=", "*=", "/=", "|=", "&=", "^=", "<<=", ">>="]


class P:
    def __init__(self, toks, fname):
        self.t, self.i, self.f = toks, 0, fname

    def peek(self, k=0):
        return self.t[min(self.i + k, len(self.t) - 1)]

    def err(self, msg):
        tk = self.peek()
        raise TranslateError("%s:%d: %s (at %r)" % (self.f, tk.line, msg, tk.val))

    def isp(self, v, k=0):
        tk = self.peek(k)
        return tk.kind == "P" and tk.val == v

    def isid(self, v=None, k=0):
        tk = self.peek(k)
        return tk.kind == "ID" and (v is None or tk.val == v)

    def eat(self):
        tk = self.t[self.i]
        self.i += 1
        return tk

    def expect_p(self, v):
        if not self.isp(v):
            self.err("expected %r" % v)
        return self.eat()

    def expect_id(self, v=None):
        if not self.isid(v):
            self.err("expected identifier %s" % (v or ""))
        return self.eat().val

    # ---- items
    def attrs(self):
        while self.isp("#"):
            self.eat()
            if self.isp("!"):
                self.eat()
            self.expect_p("[")
            depth = 1
            while depth:
                tk = self.eat()
                if tk.kind == "EOF":
                    self.err("unterminated attribute")
                if tk.kind == "P" and tk.val == "[":
                    depth += 1
                elif tk.kind == "P" and tk.val == "]":
                    depth -= 1

    def vis(self):
        if self.isid("pub"):
            self.eat()
            if self.isp("("):
                self.eat()
                self.expect_id()
                self.expect_p(")")

    def skip_to_semi(self):
        depth = 0
        while True:
            tk = self.eat()
            if tk.kind == "EOF":
                self.err("unterminated item")
            if tk.kind == "P" and tk.val in ("{", "(", "["):
                depth += 1
            if tk.kind == "P" and tk.val in ("}", ")", "]"):
                depth -= 1
            if tk.kind == "P" and tk.val == ";" and depth == 0:
                return

    def file_items(self):
        """line_index.rs: use / struct / impl only.  Returns (structs, impls): name -> fields, name -> [fn]"""
        structs, impls = {}, {}
        while self.peek().kind != "EOF":
            self.attrs()
            self.vis()
            if self.isid("use"):
                self.skip_to_semi()
            elif self.isid("struct"):
                self.eat()
                name = self.expect_id()
                self.expect_p("{")
                fields = []
                while not self.isp("}"):
                    self.attrs()
                    self.vis()
                    f = self.expect_id()
                    self.expect_p(":")
                    fields.append((f, self.type_()))
                    if self.isp(","):
                        self.eat()
                self.expect_p("}")
                structs[name] = fields
            elif self.isid("impl"):
                self.eat()
                name = self.expect_id()
                if not self.isp("{"):
                    self.err("only inherent `impl Name { .. }` blocks are supported")
                self.expect_p("{")
                fns = impls.setdefault(name, [])
                while not self.isp("}"):
                    self.attrs()
                    self.vis()
                    if not self.isid("fn"):
                        self.err("only fn items are supported inside impl")
                    fns.append(self.fn())
                self.expect_p("}")
            else:
                self.err("unsupported item")
        return structs, impls

    def fn(self):
        line = self.peek().line
        self.expect_id("fn")
        name = self.expect_id()
        if self.isp("<"):
            self.err("generic fn")
        self.expect_p("(")
        params = []
        while not self.isp(")"):
            if self.isp("&") and self.isid("self", 1):
                self.eat()
                self.eat()
                params.append(("self", "&Self"))
            elif self.isid("self") or (self.isp("&") and self.isid("mut", 1)):
                self.err("only `&self` receivers are supported")
            else:
                if self.isid("mut"):
                    self.err("mut parameter")
                pname = self.expect_id()
                self.expect_p(":")
                params.append((pname, self.type_()))
            if self.isp(","):
                self.eat()
        self.expect_p(")")
        ret = None
        if self.isp("->"):
            self.eat()
            ret = self.type_()
        if self.isid("where"):
            self.err("where clause")
        body = self.block()
        return {"name": name, "params": params, "ret": ret, "body": body, "line": line}

    def type_(self):
        out, depth = [], 0
        while True:
            tk = self.peek()
            if tk.kind == "P" and tk.val in ("<", "(", "["):
                depth += 1
            elif tk.kind == "P" and tk.val in (">", ")", "]"):
                if depth == 0:
                    break
                depth -= 1
            elif tk.kind == "P" and tk.val in (",", "{", "}", "=", ";") and depth == 0:
                break
            elif tk.kind == "EOF":
                self.err("bad type")
            out.append(str(self.eat().val))
        return "".join(out).replace("&", "")

    # ---- blocks and statements
    def block(self):
        self.expect_p("{")
        stmts = []
        tail = None
        while not self.isp("}"):
            s = self.stmt()
            if s[0] == "tail":
                tail = s[1]
                if not self.isp("}"):
                    self.err("expected '}' after the tail expression")
            else:
                stmts.append(s)
        self.expect_p("}")
        return ("block", stmts, tail)

    def stmt(self):
        line = self.peek().line
        if self.isid("let"):
            self.eat()
            pat = self.pattern()
            ty = None
            if self.isp(":"):
                self.eat()
                ty = self.type_()
            self.expect_p("=")
            e = self.expr()
            els = None
            if self.isid("else"):
                self.eat()
                els = self.block()
            self.expect_p(";")
            return ("let", pat, ty, e, els, line)
        if self.isid("return"):
            self.eat()
            e = None if self.isp(";") else self.expr()
            self.expect_p(";")
            return ("return", e, line)
        if self.isid("break"):
            self.eat()
            self.expect_p(";")
            return ("break", line)
        if self.isid("continue"):
            self.err("continue")
        if self.isid("while"):
            self.eat()
            if self.isid("let"):
                self.err("while let")
            c = self.expr(no_struct=True)
            return ("while", c, self.block(), line)
        if self.isid("for"):
            self.eat()
            pat = self.pattern()
            self.expect_id("in")
            it = self.expr(no_struct=True)
            return ("for", pat, it, self.block(), line)
        if self.isid("loop"):
            self.err("loop")
        if self.isid("if"):
            e = self.if_()
            if self.isp("}") and e[3] is not None:
                return ("tail", e)
            return ("ifstmt", e, line)
        e = self.expr()
        for op in ASSIGN_OPS:
            if self.isp(op):
                self.eat()
                rhs = self.expr()
                self.expect_p(";")
                return ("assign", op, e, rhs, line)
        if self.isp(";"):
            self.eat()
            return ("expr", e, line)
        if self.isp("}"):
            return ("tail", e)
        self.err("expected ';'")

    def pattern(self):
        tk = self.peek()
        if self.isp("&"):
            self.eat()
            return ("pref", self.pattern())
        if self.isp("("):
            self.eat()
            ps = []
            while not self.isp(")"):
                ps.append(self.pattern())
                if self.isp(","):
                    self.eat()
            self.expect_p(")")
            return ("ptuple", ps)
        if tk.kind == "ID":
            if tk.val == "mut":
                self.eat()
                return ("pmut", ("pbind", self.expect_id()))
            name = self.eat().val
            if name == "_":
                return ("pwild",)
            if name == "Some":
                self.expect_p("(")
                inner = self.pattern()
                self.expect_p(")")
                return ("psome", inner)
            if name == "None":
                return ("pnone",)
            if self.isp("::") or self.isp("(") or self.isp("{"):
                self.err("unsupported pattern")
            return ("pbind", name)
        self.err("unsupported pattern")

    # ---- expressions
    def expr(self, no_struct=False):
        return self.binary(0, no_struct)

    def binary(self, level, ns):
        if level == len(BINOPS):
            return self.cast(ns)
        a = self.binary(level + 1, ns)
        while any(self.isp(op) for op in BINOPS[level]):
            if self.isp("|") and level == 3:
                pass
            op = self.eat().val
            b = self.binary(level + 1, ns)
            if level == 2 and any(self.isp(o) for o in BINOPS[2]):
                self.err("chained comparison")
            a = ("bin", op, a, b, self.peek().line)
        return a

    def cast(self, ns):
        e = self.unary(ns)
        while self.isid("as"):
            self.eat()
            ty = [self.expect_id()]
            while self.isp("::"):
                self.eat()
                ty.append(self.expect_id())
            if self.isp("<"):
                self.err("generic type in a cast")
            e = ("as", e, "::".join(ty), self.peek().line)
        return e

    def unary(self, ns):
        for op in ("!", "*", "-"):
            if self.isp(op):
                self.eat()
                return ("un", op, self.unary(ns), self.peek().line)
        if self.isp("&"):
            self.eat()
            if self.isid("mut"):
                self.err("&mut")
            return ("un", "&", self.unary(ns), self.peek().line)
        if self.isp("&&"):
            self.err("&&expr")
        return self.postfix(ns)

    def postfix(self, ns):
        e = self.primary(ns)
        while True:
            line = self.peek().line
            if self.isp("."):
                self.eat()
                if self.peek().kind == "NUM":
                    self.err("tuple field")
                m = self.expect_id()
                if self.isp("::"):
                    self.err("turbofish")
                if self.isp("("):
                    self.eat()
                    e = ("mcall", e, m, self.args(), line)
                else:
                    e = ("field", e, m, line)
            elif self.isp("("):
                self.eat()
                e = ("call", e, self.args(), line)
            elif self.isp("["):
                self.eat()
                idx = self.range_or_expr()
                self.expect_p("]")
                e = ("index", e, idx, line)
            elif self.isp("?"):
                self.err("? operator")
            else:
                return e

    def range_or_expr(self):
        lo = None
        if not self.isp(".."):
            lo = self.expr()
            if not self.isp(".."):
                return lo
        if self.isp("..="):
            self.err("inclusive range")
        self.expect_p("..")
        hi = None if self.isp("]") else self.expr()
        return ("range", lo, hi)

    def args(self):
        a = []
        while not self.isp(")"):
            a.append(self.expr())
            if self.isp(","):
                self.eat()
            elif not self.isp(")"):
                self.err("expected ',' or ')'")
        self.expect_p(")")
        return a

    def primary(self, ns):
        tk = self.peek()
        if tk.kind == "NUM":
            self.eat()
            return ("num", tk.val[0], tk.val[1])
        if tk.kind == "STR":
            self.eat()
            return ("str", tk.val)
        if tk.kind == "CHAR":
            self.eat()
            return ("char", tk.val)
        if tk.kind == "BYTE":
            self.eat()
            return ("byte", tk.val)
        if tk.kind == "ID":
            if tk.val == "if":
                return self.if_()
            if tk.val == "match":
                return self.match_()
            if tk.val in ("true", "false"):
                self.eat()
                return ("bool", tk.val == "true")
            if tk.val in ("unsafe", "loop", "while", "for", "move", "async", "await", "dyn", "let", "return", "break"):
                self.err("unsupported expression keyword")
            path = [self.eat().val]
            while self.isp("::"):
                self.eat()
                if self.isp("<"):
                    self.err("turbofish")
                path.append(self.expect_id())
            if self.isp("!"):
                if not (self.isp("(", 1) or self.isp("[", 1)):
                    self.err("macro form")
                self.eat()
                close = ")" if self.eat().val == "(" else "]"
                args = []
                while not self.isp(close):
                    args.append(self.expr())
                    if self.isp(","):
                        self.eat()
                    elif self.isp(";"):
                        self.err("vec![x; n]")
                self.expect_p(close)
                return ("macro", path, args, tk.line)
            if self.isp("{") and not ns and (path[-1][0].isupper()):
                self.eat()
                fields = []
                while not self.isp("}"):
                    if self.isp(".."):
                        self.err("struct update syntax")
                    f = self.expect_id()
                    if self.isp(":"):
                        self.eat()
                        fields.append((f, self.expr()))
                    else:
                        fields.append((f, ("path", [f], tk.line)))
                    if self.isp(","):
                        self.eat()
                self.expect_p("}")
                return ("struct", path, fields, tk.line)
            return ("path", path, tk.line)
        if tk.kind == "P" and tk.val == "(":
            self.eat()
            if self.isp(")"):
                self.eat()
                return ("tuple", [])
            e = self.expr()
            if self.isp(","):
                es = [e]
                while self.isp(","):
                    self.eat()
                    if self.isp(")"):
                        break
                    es.append(self.expr())
                self.expect_p(")")
                return ("tuple", es)
            self.expect_p(")")
            return ("paren", e)
        if tk.kind == "P" and tk.val == "|":
            self.eat()
            pats = []
            while not self.isp("|"):
                pats.append(self.pattern())
                if self.isp(":"):
                    self.err("typed closure parameter")
                if self.isp(","):
                    self.eat()
            self.expect_p("|")
            if self.isp("{"):
                self.err("closure with a block body")
            return ("closure", pats, self.expr(), tk.line)
        if tk.kind == "P" and tk.val == "||":
            self.err("closure without parameters")
        if tk.kind == "P" and tk.val == "{":
            return self.block()
        self.err("unsupported expression")

    def if_(self):
        line = self.peek().line
        self.expect_id("if")
        if self.isid("let"):
            self.err("if let")
        c = self.expr(no_struct=True)
        a = self.block()
        b = None
        if self.isid("else"):
            self.eat()
            if self.isid("if"):
                b = ("block", [], self.if_())
            else:
                b = self.block()
        return ("if", c, a, b, line)

    def match_(self):
        line = self.peek().line
        self.expect_id("match")
        scrut = self.expr(no_struct=True)
        self.expect_p("{")
        arms = []
        while not self.isp("}"):
            pat = self.pattern()
            if self.isp("|") or self.isid("if"):
                self.err("or-pattern / match guard")
            self.expect_p("=>")
            if self.isp("{"):
                body = self.block()
                if self.isp(","):
                    self.eat()
            else:
                body = ("block", [], self.expr())
                if self.isp(","):
                    self.eat()
                elif not self.isp("}"):
                    self.err("expected ',' after match arm")
            arms.append((pat, body))
        self.expect_p("}")
        return ("match", scrut, arms, line)


def parse_file(repo, rel):
    src = cut_tests(strip_comments(read(repo, rel)))
    return P(tokenize(src, rel), rel).file_items()


def parse_top_fn(repo, rel, name):
    """a top-level `fn name` of a file whose other items are not read"""
    src = cut_tests(strip_comments(read(repo, rel)))
    ms = [m for m in re.finditer(r"(?m)^(pub(\([a-z]+\))?\s+)?fn\s+%s\s*[(<]" % re.escape(name), src)]
    if len(ms) != 1:
        raise TranslateError("%s: expected exactly one top-level fn %s, found %d" % (rel, name, len(ms)))
    start = ms[0].start()
    i = src.index("{", matching_brace(src, src.index("(", ms[0].end() - 1), "(", ")"))
    j = matching_brace(src, i)
    text = src[start:j + 1]
    p = P(tokenize(text, rel, 1 + src.count("\n", 0, start)), rel)
    p.vis()
    fn = p.fn()
    if p.peek().kind != "EOF":
        p.err("trailing tokens after fn %s" % name)
    return fn


# ----------------------------------------------------------------------------- types

NUM = ("usize", "u32", "u8", "char", "TextSize", "int")
COQ_KEYWORDS = set()      # every local is prefixed, so no clash is possible


def rust_type(t, fname, line):
    """Rust type text -> internal type"""
    table = {"usize": "usize", "u32": "u32", "u8": "u8", "char": "char", "TextSize": "TextSize", "bool": "bool",
             "str": "str", "String": "str", "Self": "LineIndex", "LineIndex": "LineIndex",
             "lsp_types::Position": "Position", "lsp_types::Range": "Range", "TextRange": "TextRange",
             "FoldingRange": "IdeFoldingRange", "lsp_types::FoldingRange": "LspFoldingRange"}
    if t not in table:
        raise TranslateError("%s:%d: unsupported type %r" % (fname, line, t))
    return table[t]


def coq_type(t):
    if t in NUM:
        return "N"
    return {"bool": "bool", "str": "text", "LineIndex": "LineIndex", "Position": "(N * N)", "Range": "((N * N) * (N * N))",
            "TextRange": "(N * N)", "IdeFoldingRange": "(N * N)", "LspFoldingRange": "(N * N)"}[t]


# ----------------------------------------------------------------------------- translation

class Emit:
    """pending monadic binds / lets of one straight-line piece, in evaluation order"""

    def __init__(self, gen):
        self.gen = gen
        self.pre = []

    def bind(self, mterm):
        v = self.gen.fresh()
        self.pre.append(("bind", v, mterm))
        return v

    def flush(self, final, indent):
        """final: ("ret", pure term) -> Ok term ; ("m", monadic term) ; ("raw", text)"""
        pre = list(self.pre)
        if final[0] == "ret" and pre and pre[-1][0] == "bind" and pre[-1][1] == final[1]:
            final = ("m", pre.pop()[2])              # `x <- m ;; Ok x` is `m`
        out = ""
        for kind, v, t in pre:
            out += "%s%s <- %s ;;\n" % (indent, v, t)
        if final[0] == "ret":
            return out + "%sOk %s" % (indent, atom(final[1]))
        return out + indent + final[1]


def atom(t):
    t = t.strip()
    if re.fullmatch(r"[A-Za-z_][A-Za-z0-9_']*|[0-9]+", t) or (t.startswith("(") and matching_paren(t) == len(t) - 1) or \
            (t.startswith("[") and t.endswith("]") and t.count("[") == 1):
        return t
    return "(" + t + ")"


def matching_paren(t):
    depth = 0
    for i, c in enumerate(t):
        if c == "(":
            depth += 1
        elif c == ")":
            depth -= 1
            if depth == 0:
                return i
    return -1


class Gen:
    def __init__(self, repo):
        self.repo = repo
        self.n = 0
        self.sigs = {}          # (module, fn name) -> (coq name, [(param, type)], ret type)
        self.fname = "?"

    def fresh(self):
        self.n += 1
        return "t%d" % self.n

    def fail(self, line, msg):
        raise TranslateError("%s:%d: %s" % (self.fname, line, msg))

    # ---- expressions.  tr returns (pure coq term, type); operations that can panic are bound in em
    def unify(self, a, b, line):
        if a == "int":
            return b
        if b == "int" or a == b:
            return a
        self.fail(line, "operands of different types %s / %s" % (a, b))

    def pure(self, e, env, what, line, expect=None):
        em = Emit(self)
        code, ty = self.tr(e, env, em, expect)
        if em.pre:
            self.fail(line, "%s must not contain an operation that can panic" % what)
        return code, ty

    def tr(self, e, env, em, expect=None):
        k = e[0]
        if k == "paren":
            return self.tr(e[1], env, em, expect)
        if k == "num":
            ty = e[2] or "int"
            if ty not in NUM:
                self.fail(0, "literal suffix %s" % ty)
            return str(e[1]), ty
        if k == "byte":
            return str(e[1]), "u8"
        if k == "char":
            return str(e[1]), "char"
        if k == "bool":
            return ("true" if e[1] else "false"), "bool"
        if k == "path":
            return self.tr_path(e, env)
        if k == "un":
            op, a, line = e[1], e[2], e[3]
            if op in ("&", "*"):
                return self.tr(a, env, em, expect)
            if op == "!":
                code, ty = self.tr(a, env, em)
                if ty != "bool":
                    self.fail(line, "`!` on %s" % (ty,))
                return "negb %s" % atom(code), "bool"
            self.fail(line, "unary %s" % op)
        if k == "bin":
            return self.tr_bin(e, env, em)
        if k == "as":
            code, ty = self.tr(e[1], env, em)
            if ty not in NUM:
                self.fail(e[3], "`as` on %s" % (ty,))
            if e[2] == "u32":
                return "as_u32 %s" % atom(code), "u32"
            if e[2] == "usize" and ty in ("u32", "u8", "usize", "TextSize"):
                return code, "usize"
            self.fail(e[3], "unsupported cast `as %s` from %s" % (e[2], ty))
        if k == "field":
            return self.tr_field(e, env, em)
        if k == "call":
            return self.tr_call(e, env, em, expect)
        if k == "mcall":
            return self.tr_mcall(e, env, em, expect)
        if k == "index":
            return self.tr_index(e, env, em)
        if k == "macro":
            if e[1] == ["vec"] and len(e[2]) == 1:
                code, ty = self.tr(e[2][0], env, em)
                if ty != "TextSize":
                    self.fail(e[3], "vec! of %s" % (ty,))
                return "[%s]" % code, "vec_ts"
            self.fail(e[3], "macro %s!" % "::".join(e[1]))
        if k == "struct":
            return self.tr_struct(e, env, em)
        if k == "match":
            return self.tr_match(e, env, em, expect)
        if k == "if":
            if e[3] is None:
                self.fail(e[4], "`if` without `else` used as a value")
            c, cty = self.tr(e[1], env, em)
            if cty != "bool":
                self.fail(e[4], "condition of type %s" % (cty,))
            tys = []
            a = self.value_block(e[2], env, expect, tys, "      ")
            b = self.value_block(e[3], env, expect, tys, "      ")
            if tys[0] != tys[1]:
                self.fail(e[4], "branches of different types")
            return em.bind("(if %s then\n%s\n    else\n%s)" % (c, a, b)), tys[0]
        if k == "block":
            tys = []
            return em.bind("(%s)" % self.value_block(e, env, expect, tys, "      ").strip()), tys[0]
        if k == "closure":
            self.fail(e[3], "closure outside map / partition_point")
        if k == "tuple":
            self.fail(0, "tuple expression")
        if k == "str":
            self.fail(0, "string literal outside expect(..)")
        self.fail(0, "unsupported expression %s" % k)

    def value_block(self, blk, env, expect, tys, indent):
        """a block used as a value: monadic term of type res T"""
        def fin(env2, tail):
            if tail is None:
                self.fail(0, "block without a value")
            em = Emit(self)
            code, ty = self.tr(tail, env2, em, expect)
            tys.append(self.coerce_lit(ty, expect))
            return em.flush(("ret", code), indent)
        return self.seq(blk[1], 0, dict(env), lambda env2: fin(env2, blk[2]), None, None, indent, expect)

    def coerce_lit(self, ty, expect):
        return expect if (ty == "int" and expect in NUM) else ty

    def tr_path(self, e, env):
        path, line = e[1], e[2]
        if len(path) == 1:
            x = path[0]
            if x == "None":
                return "None", ("opt", None)
            if x not in env:
                self.fail(line, "unknown name %s" % x)
            return "v_" + x, env[x]
        self.fail(line, "path %s used as a value" % "::".join(path))

    def tr_bin(self, e, env, em):
        op, a, b, line = e[1], e[2], e[3], e[4]
        if op in ("||", "&&"):
            ca, ta = self.tr(a, env, em)
            cb, tb = self.pure(b, env, "the right operand of %s (evaluated conditionally)" % op, line)
            if ta != "bool" or tb != "bool":
                self.fail(line, "%s on non-bool" % op)
            return "%s %s %s" % (atom(ca), op, atom(cb)), "bool"
        ca, ta = self.tr(a, env, em)
        cb, tb = self.tr(b, env, em)
        if op in ("==", "!=", "<", ">", "<=", ">="):
            if isinstance(ta, tuple) and ta[0] == "opt" and isinstance(tb, tuple) and tb[0] == "opt":
                if op not in ("==", "!="):
                    self.fail(line, "ordering on Option")
                inner = [t for t in (ta[1], tb[1]) if t is not None]
                if any(t not in NUM for t in inner):
                    self.fail(line, "Option comparison at %s" % (inner,))
                c = "opt_eqb %s %s" % (atom(ca), atom(cb))
                return (c if op == "==" else "negb (%s)" % c), "bool"
            if ta not in NUM or tb not in NUM:
                self.fail(line, "comparison of %s and %s" % (ta, tb))
            self.unify(ta, tb, line)
            x, y = atom(ca), atom(cb)
            return {"==": "%s =? %s" % (x, y), "!=": "negb (%s =? %s)" % (x, y), "<": "%s <? %s" % (x, y),
                    "<=": "%s <=? %s" % (x, y), ">": "%s <? %s" % (y, x), ">=": "%s <=? %s" % (y, x)}[op], "bool"
        if op in ("+", "-"):
            if ta not in NUM or tb not in NUM:
                self.fail(line, "%s on %s and %s" % (op, ta, tb))
            ty = self.unify(ta, tb, line)
            return self.arith(op, atom(ca), atom(cb), ty, em, line), ty
        self.fail(line, "operator %s" % op)

    def arith(self, op, x, y, ty, em, line):
        if ty in ("char", "u8", "int"):
            self.fail(line, "arithmetic at type %s" % ty)
        if op == "-":
            return em.bind("usub %s %s" % (x, y))
        if ty == "usize":
            return "%s + %s" % (x, y)          # usize overflow needs a text of 2^64 bytes: excluded (see notes)
        return em.bind("uadd32 %s %s" % (x, y))

    def tr_field(self, e, env, em):
        recv, f, line = e[1], e[2], e[3]
        code, ty = self.tr(recv, env, em)
        table = {("LineIndex", "text"): (None, ("selftext", code)), ("LineIndex", "line_starts"): ("li_starts %s", "vec_ts"),
                 ("Position", "line"): ("fst %s", "u32"), ("Position", "character"): ("snd %s", "u32"),
                 ("Range", "start"): ("fst %s", "Position"), ("Range", "end"): ("snd %s", "Position"),
                 ("IdeFoldingRange", "range"): ("%s", "TextRange")}
        if isinstance(ty, tuple) or (ty, f) not in table:
            self.fail(line, "field .%s of %s" % (f, ty))
        pat, rty = table[(ty, f)]
        if ty == "LineIndex" and f not in self.li_fields:
            self.fail(line, "struct LineIndex has no field %s" % f)
        return (code if pat is None else pat % atom(code)), rty

    def tr_index(self, e, env, em):
        recv, idx, line = e[1], e[2], e[3]
        code, ty = self.tr(recv, env, em)
        if not (isinstance(ty, tuple) and ty[0] == "selftext") or idx[0] != "range":
            self.fail(line, "indexing is supported only as self.text[a..b] / self.text[a..]")
        li = ty[1]
        if idx[1] is None:
            self.fail(line, "slice without a lower bound")
        lo, tlo = self.tr(idx[1], env, em)
        if tlo not in ("usize", "int"):
            self.fail(line, "slice bound of type %s" % (tlo,))
        if idx[2] is None:
            return em.bind("str_slice_from %s %s" % (atom(li), atom(lo))), "strslice"
        hi, thi = self.tr(idx[2], env, em)
        if thi not in ("usize", "int"):
            self.fail(line, "slice bound of type %s" % (thi,))
        return em.bind("str_slice %s %s %s" % (atom(li), atom(lo), atom(hi))), "strslice"

    def tr_struct(self, e, env, em):
        path, fields, line = e[1], e[2], e[3]
        name = "::".join(path)
        if name in ("Self", "LineIndex"):
            if [f for f, _ in fields] != ["text", "line_starts"] or self.li_fields != ["text", "line_starts"]:
                self.fail(line, "LineIndex literal: expected exactly the fields text, line_starts")
            t, tt = self.tr(fields[0][1], env, em)
            s, ts = self.tr(fields[1][1], env, em)
            if tt != "str" or ts != "vec_ts":
                self.fail(line, "LineIndex literal: field types %s, %s" % (tt, ts))
            return "mk_line_index %s %s" % (atom(t), atom(s)), "LineIndex"
        if name == "lsp_types::FoldingRange":
            d = dict(fields)
            if set(d) != {"start_line", "start_character", "end_line", "end_character", "kind", "collapsed_text"} \
                    or len(fields) != 6:
                self.fail(line, "lsp_types::FoldingRange literal: unexpected field set")
            for f in ("start_character", "end_character"):
                if d[f][:2] != ("path", ["None"]):
                    self.fail(line, "lsp_types::FoldingRange.%s is expected to be None" % f)
            out = {}
            for f, fe in fields:        # evaluation order = textual order
                if f in ("start_line", "end_line"):
                    c, t = self.tr(fe, env, em, "u32")
                    if t != "u32":
                        self.fail(line, "%s of type %s" % (f, t))
                    out[f] = c
            return "(%s, %s)" % (out["start_line"], out["end_line"]), "LspFoldingRange"
        self.fail(line, "struct literal %s" % name)

    def tr_match(self, e, env, em, expect):
        scrut, arms, line = e[1], e[2], e[3]
        cs, ts = self.tr(scrut, env, em)
        if not (isinstance(ts, tuple) and ts[0] == "opt") or len(arms) != 2:
            self.fail(line, "match is supported on Option with the two arms Some(..) / None")
        some = [a for a in arms if a[0][0] == "psome"]
        none = [a for a in arms if a[0][0] == "pnone"]
        if len(some) != 1 or len(none) != 1:
            self.fail(line, "match arms must be Some(x) and None")
        x = self.bind_name(some[0][0][1], line)
        tys = []
        env_s = dict(env)
        env_s[x] = ts[1]
        a = self.value_block(some[0][1], env_s, expect, tys, "      ")
        b = self.value_block(none[0][1], env, expect, tys, "      ")
        if tys[0] != tys[1]:
            self.fail(line, "match arms of different types %s / %s" % (tys[0], tys[1]))
        return em.bind("match %s with\n    | Some v_%s =>\n%s\n    | None =>\n%s\n    end" % (cs, x, a, b)), tys[0]

    def bind_name(self, pat, line):
        while pat[0] in ("pref", "pmut"):
            pat = pat[1]
        if pat[0] != "pbind":
            self.fail(line, "unsupported pattern")
        return pat[1]

    def tr_call(self, e, env, em, expect):
        f, args, line = e[1], e[2], e[3]
        if f[0] != "path":
            self.fail(line, "call of a computed function")
        name = "::".join(f[1])

        def arg(i, exp=None):
            return self.tr(args[i], env, em, exp)

        def nargs(n):
            if len(args) != n:
                self.fail(line, "%s expects %d argument(s)" % (name, n))
        if name == "TextSize::from":
            nargs(1)
            c, t = arg(0)
            if t not in ("int", "u32"):
                self.fail(line, "TextSize::from(%s)" % (t,))
            return c, "TextSize"
        if name == "usize::from":
            nargs(1)
            c, t = arg(0)
            if t not in ("TextSize", "u32", "u8"):
                self.fail(line, "usize::from(%s)" % (t,))
            return c, "usize"
        if name == "u32::from":
            nargs(1)
            c, t = arg(0)
            if t not in ("TextSize", "u8"):
                self.fail(line, "u32::from(%s)" % (t,))
            return c, "u32"
        if name == "TextSize::try_from":
            nargs(1)
            c, t = arg(0)
            if t not in ("usize", "int"):
                self.fail(line, "TextSize::try_from(%s)" % (t,))
            return c, ("tryfrom", "TextSize")
        if name == "TextSize::of":
            nargs(1)
            c, t = arg(0)
            if isinstance(t, tuple) and t[0] == "selftext":
                return em.bind("text_size_of %s" % atom(t[1])), "TextSize"
            self.fail(line, "TextSize::of(%s)" % (t,))
        if name == "Some":
            nargs(1)
            c, t = arg(0)
            return "Some %s" % atom(c), ("opt", t)
        if name == "lsp_types::Position::new":
            nargs(2)
            a, ta = arg(0, "u32")
            b, tb = arg(1, "u32")
            if (ta, tb) != ("u32", "u32"):
                self.fail(line, "Position::new(%s, %s)" % (ta, tb))
            return "(%s, %s)" % (a, b), "Position"
        if name == "lsp_types::Range::new":
            nargs(2)
            a, ta = arg(0, "Position")
            b, tb = arg(1, "Position")
            if (ta, tb) != ("Position", "Position"):
                self.fail(line, "Range::new(%s, %s)" % (ta, tb))
            return "(%s, %s)" % (a, b), "Range"
        if name == "TextRange::new":
            nargs(2)
            a, ta = arg(0, "TextSize")
            b, tb = arg(1, "TextSize")
            if (ta, tb) != ("TextSize", "TextSize"):
                self.fail(line, "TextRange::new(%s, %s)" % (ta, tb))
            return em.bind("text_range_new %s %s" % (atom(a), atom(b))), "TextRange"
        if len(f[1]) == 1 and (self.module, name) in self.sigs:
            return self.call_sig(self.sigs[(self.module, name)], [args[i] for i in range(len(args))], env, em, line)
        self.fail(line, "call of %s" % name)

    def call_sig(self, sig, args, env, em, line, recv=None):
        coqname, params, ret = sig
        if len(args) + (1 if recv else 0) != len(params):
            self.fail(line, "%s: wrong number of arguments" % coqname)
        codes = [recv] if recv else []
        for (pn, pt), a in zip(params[len(codes):], args):
            c, t = self.tr(a, env, em, pt)
            t = self.coerce_lit(t, pt)
            if t != pt:
                self.fail(line, "%s: argument %s has type %s, expected %s" % (coqname, pn, t, pt))
            codes.append(atom(c))
        return em.bind("%s %s" % (coqname, " ".join(codes))), ret

    def tr_mcall(self, e, env, em, expect):
        recv, m, args, line = e[1], e[2], e[3], e[4]

        def nargs(n):
            if len(args) != n:
                self.fail(line, ".%s expects %d argument(s)" % (m, n))
        # conversions whose result type comes from the context
        if m in ("expect", "unwrap"):
            nargs(1 if m == "expect" else 0)
            if m == "expect" and args[0][0] != "str":
                self.fail(line, "expect(..) with a computed message")
            if recv[0] == "mcall" and recv[2] == "try_into" and not recv[3]:
                c, t = self.tr(recv[1], env, em)
                if expect is None:
                    self.fail(line, "try_into() whose target type is not determined by the context")
                if t == "usize" and expect == "u32":
                    return em.bind("to_u32 %s %s" % ("PLineRange" if m == "expect" else "PLineUnwrap", atom(c))), "u32"
                if t == "u32" and expect == "usize":
                    return c, "usize"           # u32 -> usize cannot fail (usize >= 32 bits)
                self.fail(line, "try_into() from %s to %s" % (t, expect))
            c, t = self.tr(recv, env, em)
            if t == ("tryfrom", "TextSize"):
                return em.bind("to_u32 PTooLarge %s" % atom(c)), "TextSize"
            self.fail(line, ".%s() on %s" % (m, t))
        c, t = self.tr(recv, env, em)
        if t == "LineIndex":
            if ("LineIndex", m) not in self.sigs:
                self.fail(line, "LineIndex has no (translated) method %s" % m)
            return self.call_sig(self.sigs[("LineIndex", m)], args, env, em, line, recv=atom(c))
        if isinstance(t, tuple) and t[0] == "selftext":
            li = atom(t[1])
            if m == "len":
                nargs(0)
                return "lenN (li_bytes %s)" % li, "usize"
            if m == "as_str":
                nargs(0)
                return c, t
            if m == "is_char_boundary":
                nargs(1)
                a, ta = self.tr(args[0], env, em)
                if ta not in ("usize", "int"):
                    self.fail(line, "is_char_boundary(%s)" % (ta,))
                return "is_char_boundary (li_bytes %s) %s" % (li, atom(a)), "bool"
            self.fail(line, "String method .%s" % m)
        if t == "str":
            if m == "as_bytes":
                nargs(0)
                return "encode %s" % atom(c), "bytes"
            if m in ("to_string", "to_owned", "as_str"):
                nargs(0)
                return c, "str"
            self.fail(line, "str method .%s" % m)
        if t == "bytes":
            if m == "iter":
                nargs(0)
                return c, "bytes_iter"
            if m == "get":
                nargs(1)
                a, ta = self.tr(args[0], env, em)
                if ta not in ("usize", "int"):
                    self.fail(line, "get(%s)" % (ta,))
                return "nthN %s %s" % (atom(c), atom(a)), ("opt", "u8")
            self.fail(line, "byte slice method .%s" % m)
        if t == "bytes_iter":
            if m == "enumerate":
                nargs(0)
                return "enumerate_from 0 %s" % atom(c), "enum_iter"
            self.fail(line, "byte iterator method .%s" % m)
        if t == "vec_ts":
            if m == "get":
                nargs(1)
                a, ta = self.tr(args[0], env, em)
                if ta not in ("usize", "int"):
                    self.fail(line, "get(%s)" % (ta,))
                return "get %s %s" % (atom(c), atom(a)), ("opt", "TextSize")
            if m == "partition_point":
                nargs(1)
                x, body, _ = self.closure(args[0], "TextSize", env, line, want="bool")
                return "partition_point (fun v_%s => %s) %s" % (x, body, atom(c)), "usize"
            self.fail(line, "Vec<TextSize> method .%s" % m)
        if t == "strslice":
            if m == "chars":
                nargs(0)
                return c, ("list", "char")
            self.fail(line, "str slice method .%s" % m)
        if isinstance(t, tuple) and t[0] == "list":
            if m == "map":
                nargs(1)
                x, body, bt = self.closure(args[0], t[1], env, line)
                return "map (fun v_%s => %s) %s" % (x, body, atom(c)), ("list", bt)
            if m == "sum":
                nargs(0)
                if t[1] != "u32" or expect != "u32":
                    self.fail(line, "sum() of %s into %s" % (t[1], expect))
                return em.bind("sum_u32 %s" % atom(c)), "u32"
            self.fail(line, "iterator method .%s" % m)
        if t == "char":
            if m in ("len_utf16", "len_utf8"):
                nargs(0)
                return "%s %s" % ("utf16_len" if m == "len_utf16" else "utf8_len", atom(c)), "usize"
            self.fail(line, "char method .%s" % m)
        if t in ("usize", "u32", "TextSize"):
            if m in ("min", "max"):
                nargs(1)
                a, ta = self.tr(args[0], env, em, t)
                self.unify(t, ta, line)
                return "N.%s %s %s" % (m, atom(c), atom(a)), t
            self.fail(line, "%s method .%s" % (t, m))
        if t == "TextRange":
            if m in ("start", "end"):
                nargs(0)
                return "%s %s" % ("fst" if m == "start" else "snd", atom(c)), "TextSize"
            self.fail(line, "TextRange method .%s" % m)
        self.fail(line, "method .%s on %s" % (m, t))

    def closure(self, cl, argty, env, line, want=None):
        if cl[0] != "closure" or len(cl[1]) != 1:
            self.fail(line, "expected a one-parameter closure")
        x = self.bind_name(cl[1][0], line)
        env2 = dict(env)
        env2[x] = argty
        body, bt = self.pure(cl[2], env2, "a closure body", line)
        if want and bt != want:
            self.fail(line, "closure of type %s, expected %s" % (bt, want))
        return x, body, bt

    # ---- statements (continuation style; every piece is a term of type res _)
    def assigned(self, blk, acc):
        for s in blk[1]:
            if s[0] == "assign":
                if s[2][0] != "path" or len(s[2][1]) != 1:
                    self.fail(s[4], "assignment to a place that is not a local variable")
                acc.append(s[2][1][0])
            elif s[0] == "expr" and s[1][0] == "mcall" and s[1][2] == "push" and s[1][1][0] == "path":
                acc.append(s[1][1][1][0])
            elif s[0] == "ifstmt":
                self.assigned(s[1][2], acc)
                if s[1][3]:
                    self.assigned(s[1][3], acc)
            elif s[0] in ("for", "while"):
                self.assigned(s[3] if s[0] == "for" else s[2], acc)
        if blk[2] is not None and blk[2][0] == "if":
            self.assigned(blk[2][2], acc)
            if blk[2][3]:
                self.assigned(blk[2][3], acc)
        return acc

    def state_of(self, body, env, line):
        names = [x for x in env if x in set(self.assigned(body, []))]
        if not names:
            self.fail(line, "loop that assigns no variable of the enclosing scope")
        tup = "v_" + names[0] if len(names) == 1 else "(" + ", ".join("v_" + x for x in names) + ")"
        return names, tup

    def unpack(self, names, st, indent):
        """lets that name the components of the (left-nested) state tuple"""
        if len(names) == 1:
            return ""
        out, n = "", len(names)
        for i, x in enumerate(names):
            proj = st
            for _ in range(n - 1 - i if i > 0 else n - 1):
                proj = "fst %s" % atom(proj)
            if i > 0:
                proj = "snd %s" % atom(proj)
            out += "%slet v_%s := %s in\n" % (indent, x, proj)
        return out

    def seq(self, stmts, i, env, fin, brk, state, indent, ret):
        """stmts[i:] then fin(env).  brk(env): text for `break` (None outside for).  ret: return type of the fn"""
        if i == len(stmts):
            return fin(env)
        s = stmts[i]
        k = s[0]

        def rest(env2):
            return self.seq(stmts, i + 1, env2, fin, brk, state, indent, ret)
        if k == "let":
            pat, ty, e, els, line = s[1], s[2], s[3], s[4], s[5]
            exp = rust_type(ty, self.fname, line) if ty else None
            em = Emit(self)
            code, t = self.tr(e, env, em, exp)
            t = self.coerce_lit(t, exp)
            if exp and t != exp:
                self.fail(line, "let of type %s, annotated %s" % (t, exp))
            if els is not None:
                if pat[0] != "psome" or not (isinstance(t, tuple) and t[0] == "opt"):
                    self.fail(line, "let-else is supported as `let Some(x) = <Option> else { return ..; }`")
                x = self.bind_name(pat[1], line)
                if els[2] is not None or len(els[1]) != 1 or els[1][0][0] != "return":
                    self.fail(line, "the else block of let-else must be `return <expr>;`")
                em2 = Emit(self)
                rc, rt = self.tr(els[1][0][1], env, em2, ret)
                if self.coerce_lit(rt, ret) != ret:
                    self.fail(line, "return of type %s, expected %s" % (rt, ret))
                env2 = dict(env)
                env2[x] = t[1]
                body = "match %s with\n%s| None =>\n%s\n%s| Some v_%s =>\n%s\n%send" % (
                    code, indent, em2.flush(("ret", rc), indent + "    "), indent, x,
                    self.seq(stmts, i + 1, env2, fin, brk, state, indent + "    ", ret), indent)
                return em.flush(("raw", body), indent)
            x = self.bind_name(pat, line)
            if isinstance(t, tuple) and t[0] in ("tryfrom",):
                self.fail(line, "unfinished conversion bound to a variable")
            env2 = dict(env)
            env2[x] = t
            if isinstance(t, tuple) and t[0] == "selftext":
                self.fail(line, "let of self.text")
            return em.flush(("raw", "let v_%s := %s in\n%s" % (x, code, rest(env2))), indent)
        if k == "assign":
            op, lhs, rhs, line = s[1], s[2], s[3], s[4]
            if lhs[0] != "path" or len(lhs[1]) != 1 or lhs[1][0] not in env:
                self.fail(line, "assignment to a place that is not a local variable")
            x = lhs[1][0]
            t = env[x]
            em = Emit(self)
            code, tr_ = self.tr(rhs, env, em, t if t in NUM else None)
            if op == "=":
                if self.coerce_lit(tr_, t) != t:
                    self.fail(line, "assignment of %s to %s" % (tr_, t))
                return em.flush(("raw", "let v_%s := %s in\n%s" % (x, code, rest(env))), indent)
            if op in ("+=", "-=") and t in NUM:
                self.unify(t, tr_, line)
                v = self.arith(op[0], "v_" + x, atom(code), t, em, line)
                return em.flush(("raw", "let v_%s := %s in\n%s" % (x, v, rest(env))), indent)
            self.fail(line, "assignment operator %s on %s" % (op, t))
        if k == "expr":
            e, line = s[1], s[2]
            if e[0] == "mcall" and e[2] == "push" and e[1][0] == "path" and len(e[1][1]) == 1 and len(e[3]) == 1:
                x = e[1][1][0]
                if env.get(x) != "vec_ts":
                    self.fail(line, "push on %s" % (env.get(x),))
                em = Emit(self)
                code, t = self.tr(e[3][0], env, em, "TextSize")
                if t != "TextSize":
                    self.fail(line, "push of %s" % (t,))
                return em.flush(("raw", "let v_%s := v_%s ++ [%s] in\n%s" % (x, x, code, rest(env))), indent)
            self.fail(line, "expression statement (only `v.push(x);` is supported)")
        if k == "ifstmt":
            e, line = s[1], s[2]
            em = Emit(self)
            c, ct = self.tr(e[1], env, em)
            if ct != "bool":
                self.fail(line, "condition of type %s" % (ct,))
            ind2 = indent + "  "
            for b in (e[2], e[3]):
                if b is not None and b[2] is not None:
                    self.fail(line, "`if` statement whose block ends in a value")

            def branch(b):
                if b is None:
                    return self.seq(stmts, i + 1, dict(env), fin, brk, state, ind2, ret)
                if b[1] and b[1][-1][0] == "break":          # the branch leaves the loop: nothing follows it
                    return self.seq(b[1], 0, dict(env), fin, brk, state, ind2, ret)
                return self.seq(b[1] + stmts[i + 1:], 0, dict(env), fin, brk, state, ind2, ret)
            return em.flush(("raw", "if %s then\n%s\n%selse\n%s" % (c, branch(e[2]), indent, branch(e[3]))), indent)
        if k == "break":
            if brk is None:
                self.fail(s[1], "`break` outside a `for` loop")
            if i != len(stmts) - 1:
                self.fail(s[1], "statements after `break`")
            return brk(env)
        if k == "return":
            e, line = s[1], s[2]
            if i != len(stmts) - 1 or brk is not None or state is not None:
                self.fail(line, "`return` is supported only as the last statement of the fn body or of let-else")
            em = Emit(self)
            code, t = self.tr(e, env, em, ret)
            if self.coerce_lit(t, ret) != ret:
                self.fail(line, "return of type %s, expected %s" % (t, ret))
            return em.flush(("ret", code), indent)
        if k == "for":
            pat, it, body, line = s[1], s[2], s[3], s[4]
            em = Emit(self)
            ci, ti = self.tr(it, env, em)
            env_b = dict(env)
            ind2 = indent + "    "
            if ti == "enum_iter":
                if pat[0] != "ptuple" or len(pat[1]) != 2:
                    self.fail(line, "pattern of a for loop over enumerate() must be (i, &b)")
                xi, xb = self.bind_name(pat[1][0], line), self.bind_name(pat[1][1], line)
                env_b[xi], env_b[xb] = "usize", "u8"
                head = "%slet v_%s := fst it in\n%slet v_%s := snd it in\n" % (ind2, xi, ind2, xb)
            elif isinstance(ti, tuple) and ti[0] == "list" and ti[1] in NUM:
                xc = self.bind_name(pat, line)
                env_b[xc] = ti[1]
                head = "%slet v_%s := it in\n" % (ind2, xc)
            else:
                self.fail(line, "for loop over %s" % (ti,))
            if body[2] is not None:
                self.fail(line, "for body ending in a value")
            names, tup = self.state_of(body, env, line)
            for x in (xi, xb) if ti == "enum_iter" else (xc,):
                if x in names:
                    self.fail(line, "loop variable shadows a state variable")
            btxt = self.seq(body[1], 0, env_b, lambda e2: "%sOk (Continue %s)" % (ind2, tup),
                            lambda e2: "%sOk (Break %s)" % (ind2, tup), names, ind2, ret)
            stn = "st" if len(names) > 1 else "v_" + names[0]
            loop = "for_loop %s (fun it %s =>\n%s%s%s) %s" % (atom(ci), stn, head, self.unpack(names, "st", ind2), btxt, tup)
            return self.after_loop(em, loop, names, env, rest, indent)
        if k == "while":
            c, body, line = s[1], s[2], s[3]
            if body[2] is not None:
                self.fail(line, "while body ending in a value")
            names, tup = self.state_of(body, env, line)
            dec = [st for st in body[1] if st[0] == "assign" and st[1] == "-=" and st[3][:2] == ("num", 1)
                   and st[2][0] == "path" and st[2][1][0] in names]
            if len(dec) != 1 or any(st[0] in ("for", "while") for st in body[1]):
                self.fail(line, "while loop: the translator needs exactly one `v -= 1;` in the body as the termination measure")
            mvar = dec[0][2][1][0]
            ind2 = indent + "    "
            cc, ct = self.pure(c, env, "a while condition", line)
            if ct != "bool":
                self.fail(line, "condition of type %s" % (ct,))
            btxt = self.seq(body[1], 0, dict(env), lambda e2: "%sOk %s" % (ind2, tup), None, names, ind2, ret)
            up = self.unpack(names, "st", ind2)
            cond = "(fun st => %s%s)" % (up.replace("\n", " ").strip() + " " if up else "", cc) if len(names) > 1 else \
                "(fun v_%s => %s)" % (names[0], cc)
            bodyf = "(fun st =>\n%s%s)" % (up, btxt) if len(names) > 1 else "(fun v_%s =>\n%s)" % (names[0], btxt)
            loop = "while_loop (S (N.to_nat v_%s)) %s %s %s" % (mvar, cond, bodyf, tup)
            return self.after_loop(Emit(self), loop, names, env, rest, indent)
        self.fail(0, "unsupported statement %s" % k)

    def after_loop(self, em, loop, names, env, rest, indent):
        if len(names) == 1:
            return em.flush(("raw", "v_%s <- %s ;;\n%s" % (names[0], loop, rest(env))), indent)
        return em.flush(("raw", "st <- %s ;;\n%s%s" % (loop, self.unpack(names, "st", indent), rest(env))), indent)

    # ---- functions
    def fn(self, fn, module, coqname, self_ty=None):
        self.fname = {"LineIndex": LINE_INDEX, "to_proto": TO_PROTO, "from_proto": FROM_PROTO}[module]
        self.module = module
        env, params = {}, []
        for pn, pt in fn["params"]:
            t = "LineIndex" if pn == "self" else rust_type(pt, self.fname, fn["line"])
            env[pn] = t
            params.append((pn, t))
        if fn["ret"] is None:
            self.fail(fn["line"], "fn %s returns ()" % fn["name"])
        ret = rust_type(fn["ret"], self.fname, fn["line"])
        body = fn["body"]

        def fin(env2):
            if body[2] is None:
                self.fail(fn["line"], "fn %s: the body has no tail expression" % fn["name"])
            em = Emit(self)
            code, t = self.tr(body[2], env2, em, ret)
            if self.coerce_lit(t, ret) != ret:
                self.fail(fn["line"], "fn %s: tail of type %s, declared %s" % (fn["name"], t, ret))
            return em.flush(("ret", code), "  ")
        if body[2] is None and body[1] and body[1][-1][0] == "return":
            text = self.seq(body[1], 0, env, lambda e: "", None, None, "  ", ret)
        else:
            text = self.seq(body[1], 0, env, fin, None, None, "  ", ret)
        sig = " ".join("(v_%s : %s)" % (pn, coq_type(t)) for pn, t in params)
        return "Definition %s %s : res %s :=\n%s.\n" % (coqname, sig, coq_type(ret), text), (coqname, params, ret)


def calls_of(fn):
    """names of LineIndex methods / free fns a fn body mentions (for the definition order)"""
    out = set()

    def walk(x):
        if isinstance(x, tuple):
            if x and x[0] == "mcall":
                out.add(("m", x[2]))
            if x and x[0] == "call" and x[1][0] == "path" and len(x[1][1]) == 1:
                out.add(("f", x[1][1][0]))
            for y in x:
                walk(y)
        elif isinstance(x, list):
            for y in x:
                walk(y)
    walk(fn["body"])
    return out


REQUIRED_METHODS = ["new", "pos_to_line", "line_to_pos", "utf16_col", "offset_at"]


def translate(repo):
    g = Gen(repo)
    structs, impls = parse_file(repo, LINE_INDEX)
    if list(structs) != ["LineIndex"] or list(impls) != ["LineIndex"]:
        raise TranslateError("%s: expected exactly `struct LineIndex` and `impl LineIndex`, found structs %s, impls %s"
                             % (LINE_INDEX, list(structs), list(impls)))
    fields = structs["LineIndex"]
    if fields != [("text", "String"), ("line_starts", "Vec<TextSize>")]:
        raise TranslateError("%s: struct LineIndex is expected to be { text: String, line_starts: Vec<TextSize> }, found %s"
                             % (LINE_INDEX, fields))
    g.li_fields = [f for f, _ in fields]
    methods = {f["name"]: f for f in impls["LineIndex"]}
    if len(methods) != len(impls["LineIndex"]):
        raise TranslateError("%s: duplicate fn in impl LineIndex" % LINE_INDEX)
    for m in REQUIRED_METHODS:
        if m not in methods:
            raise TranslateError("%s: fn LineIndex::%s not found" % (LINE_INDEX, m))
    out = ["(* GENERATED by tools/translate/t_lineindex.py from crates/ide/src/line_index.rs, crates/lsp/src/to_proto.rs"
           " (position, range, folding_range) and crates/lsp/src/from_proto.rs (position, range) -- do not edit *)",
           "From Coq Require Import List NArith Bool.", "From TG.Model Require Import Chars LineIndex.",
           "Import ListNotations.", "Open Scope N_scope.", ""]
    # every fn of impl LineIndex, callees first
    done, order = set(), []

    def visit(name, stack):
        if name in done:
            return
        if name in stack:
            raise TranslateError("%s: recursive fn %s" % (LINE_INDEX, name))
        for kind, callee in sorted(calls_of(methods[name])):
            if kind == "m" and callee in methods and callee != name:
                visit(callee, stack + [name])
        done.add(name)
        order.append(name)
    for name in methods:
        visit(name, [])
    for name in order:
        text, sig = g.fn(methods[name], "LineIndex", "src_li_" + name)
        g.sigs[("LineIndex", name)] = sig
        out.append("(* %s: LineIndex::%s *)" % (LINE_INDEX, name))
        out.append(text)
    for module, rel, names in (("to_proto", TO_PROTO, ["position", "range", "folding_range"]),
                               ("from_proto", FROM_PROTO, ["position", "range"])):
        for name in names:
            fn = parse_top_fn(repo, rel, name)
            text, sig = g.fn(fn, module, "src_%s_%s" % (module, name))
            g.sigs[(module, name)] = sig
            out.append("(* %s: %s *)" % (rel, name))
            out.append(text)
    out.append("(* the translated fns of impl LineIndex, in source order: %s *)" % ", ".join(methods))
    return {"GenLineIndex.v": "\n".join(out)}


if __name__ == "__main__":
    import sys
    print(translate(sys.argv[1] if len(sys.argv) > 1 else "/repo")["GenLineIndex.v"])
