"""T-symbolmap: crates/ide/src/symbol_map.rs + symbol_map/{record,record_field,template_arg,variable,defset,multiclass,defm,
symbol}.rs -> coq/gen/GenSymbolMap.v

Every method of `impl SymbolMap` (both blocks) and of the symbol structs / enums is read from the CURRENT source with the
tokenizer / parser of t_lineindex.py (extended here: items, enums, trait impls, `if let`, `?`, `continue`, early `return`,
enum patterns, cfg attributes) and rendered one-to-one in Gallina over the representation and the library contracts of
coq/model/SymbolMap.v (arenas = lists of `entry`, HashMap / IndexMap = association lists, iset::IntervalMap = sorted
interval list with its empty-interval panics) and the control-flow / setter combinators of coq/model/SymbolMapSrc.v.
Items and statements under `#[cfg(tablegen_lsp_verif)]` (hook H3, the op log) are ignored.  Comments, formatting, local
names and expect("..") messages are normalised away; anything outside the subset raises TranslateError (a broken tie).
TG.Proofs.GenSymbolMapEq proves: every rendered mutating method = `apply_op` of the corresponding op constructor, every
rendered reader = the reader of SymbolMap.v, for all states and arguments."""
import re
from rsutil import TranslateError, read, strip_comments, cut_tests
import t_lineindex as base

DIR = "crates/ide/src/"
FILES = {"symbol_map": DIR + "symbol_map.rs", "record": DIR + "symbol_map/record.rs",
         "record_field": DIR + "symbol_map/record_field.rs", "template_arg": DIR + "symbol_map/template_arg.rs",
         "variable": DIR + "symbol_map/variable.rs", "defset": DIR + "symbol_map/defset.rs",
         "multiclass": DIR + "symbol_map/multiclass.rs", "defm": DIR + "symbol_map/defm.rs", "symbol": DIR + "symbol_map/symbol.rs"}
HOOK_CFG = "cfg(tablegen_lsp_verif)"


# ----------------------------------------------------------------------------- parser

class P2(base.P):
    """t_lineindex.P + the item / statement / pattern forms of the symbol map files"""

    def attr_list(self):
        out = []
        while self.isp("#"):
            self.eat()
            if self.isp("!"):
                self.eat()
            self.expect_p("[")
            depth, toks = 1, []
            while depth:
                tk = self.eat()
                if tk.kind == "EOF":
                    self.err("unterminated attribute")
                if tk.kind == "P" and tk.val == "[":
                    depth += 1
                elif tk.kind == "P" and tk.val == "]":
                    depth -= 1
                    if depth == 0:
                        break
                toks.append(str(tk.val))
            out.append("".join(toks))
        return out

    def skip_item(self):
        """skip one item: up to the matching '}' of its first top-level brace, or to ';' if that comes first"""
        depth = 0
        while True:
            tk = self.eat()
            if tk.kind == "EOF":
                self.err("unterminated item")
            if tk.kind == "P" and tk.val in ("(", "["):
                depth += 1
            elif tk.kind == "P" and tk.val in (")", "]"):
                depth -= 1
            elif tk.kind == "P" and tk.val == ";" and depth == 0:
                return
            elif tk.kind == "P" and tk.val == "{" and depth == 0:
                d = 1
                while d:
                    t2 = self.eat()
                    if t2.kind == "EOF":
                        self.err("unterminated item")
                    if t2.kind == "P" and t2.val == "{":
                        d += 1
                    elif t2.kind == "P" and t2.val == "}":
                        d -= 1
                return

    def header_tokens(self):
        """tokens up to (not including) the '{' that opens an impl / struct body"""
        out, k = [], 0
        while not (self.peek(k).kind == "P" and self.peek(k).val in ("{", ";")):
            if self.peek(k).kind == "EOF":
                self.err("unterminated header")
            out.append(str(self.peek(k).val))
            k += 1
        return out

    def module_items(self):
        """-> dict(structs, enums, aliases, impls=[(target, trait|None, [fn])])"""
        m = {"structs": {}, "enums": {}, "aliases": {}, "impls": [], "skipped": []}
        while self.peek().kind != "EOF":
            attrs = self.attr_list()
            if HOOK_CFG in attrs:
                self.skip_item()
                continue
            self.vis()
            if self.isid("use"):
                self.skip_to_semi()
            elif self.isid("mod"):
                self.eat()
                self.expect_id()
                if not self.isp(";"):
                    self.err("inline module")
                self.eat()
            elif self.isid("type"):
                self.eat()
                name = self.expect_id()
                self.expect_p("=")
                m["aliases"][name] = self.type_()
                self.expect_p(";")
            elif self.isid("struct"):
                hdr = self.header_tokens()
                if hdr[1] == "IntervalMap":          # the PartialEq newtype around iset::IntervalMap: part of the modelled contract
                    self.skip_item()
                    m["skipped"].append("struct IntervalMap")
                    continue
                self.eat()
                name = self.expect_id()
                if not self.isp("{"):
                    self.err("generic / tuple struct")
                self.eat()
                fields = []
                while not self.isp("}"):
                    self.attr_list()
                    self.vis()
                    f = self.expect_id()
                    self.expect_p(":")
                    fields.append((f, self.type_()))
                    if self.isp(","):
                        self.eat()
                self.expect_p("}")
                m["structs"][name] = fields
            elif self.isid("enum"):
                self.eat()
                name = self.expect_id()
                if self.isp("<"):
                    self.eat()
                    if self.peek().kind != "LIFETIME":
                        self.err("generic enum")
                    self.eat()
                    self.expect_p(">")
                self.expect_p("{")
                vs = []
                while not self.isp("}"):
                    v = self.expect_id()
                    arg = None
                    if self.isp("("):
                        self.eat()
                        arg = self.type_()
                        self.expect_p(")")
                    vs.append((v, arg))
                    if self.isp(","):
                        self.eat()
                self.expect_p("}")
                m["enums"][name] = vs
            elif self.isid("impl"):
                hdr = self.header_tokens()
                if "IntervalMap" in hdr:
                    self.skip_item()
                    m["skipped"].append("impl .. IntervalMap")
                    continue
                self.eat()
                if self.isp("<"):
                    self.eat()
                    if self.peek().kind != "LIFETIME":
                        self.err("generic impl")
                    self.eat()
                    self.expect_p(">")
                first = self.type_path()
                trait, target = None, first
                if self.isid("for"):
                    self.eat()
                    trait, target = first, self.type_path()
                self.expect_p("{")
                fns = []
                while not self.isp("}"):
                    a2 = self.attr_list()
                    if HOOK_CFG in a2:
                        self.skip_item()
                        continue
                    self.vis()
                    if self.isid("type"):
                        self.skip_to_semi()
                        continue
                    if not self.isid("fn"):
                        self.err("only fn items are supported inside impl")
                    fns.append(self.fn())
                self.expect_p("}")
                m["impls"].append((target, trait, fns))
            elif self.isid("fn"):
                self.err("free fn outside cfg(tablegen_lsp_verif)")
            else:
                self.err("unsupported item")
        return m

    def type_(self):
        out, depth = [], 0
        while True:
            tk = self.peek()
            if tk.kind == "P" and tk.val in ("<", "(", "["):
                depth += 1
            elif tk.kind == "P" and tk.val in (">", ")", "]", ">>"):
                n = 2 if tk.val == ">>" else 1
                if depth < n:
                    break
                depth -= n
            elif tk.kind == "P" and tk.val in (",", "{", "}", "=", ";") and depth == 0:
                break
            elif tk.kind == "EOF":
                self.err("bad type")
            out.append(str(self.eat().val))
        return "".join(out).replace("&", "")

    def type_path(self):
        out = [self.expect_id()]
        while self.isp("::"):
            self.eat()
            out.append(self.expect_id())
        if self.isp("<"):
            depth = 0
            txt = []
            while True:
                tk = self.eat()
                txt.append(str(tk.val))
                if tk.kind == "P" and tk.val == "<":
                    depth += 1
                if tk.kind == "P" and tk.val == ">":
                    depth -= 1
                    if depth == 0:
                        break
            g = "".join(txt)
            if not re.fullmatch(r"<'[a-z_]+>", g):
                return "::".join(out) + g
        return "::".join(out)

    def fn(self):
        line = self.peek().line
        self.expect_id("fn")
        name = self.expect_id()
        if self.isp("<"):
            self.err("generic fn")
        self.expect_p("(")
        params = []
        while not self.isp(")"):
            if self.isp("&") and self.isid("self", 1):
                self.eat()
                self.eat()
                params.append(("self", "&Self"))
            elif self.isp("&") and self.isid("mut", 1) and self.isid("self", 2):
                self.eat()
                self.eat()
                self.eat()
                params.append(("self", "&mut Self"))
            elif self.isid("self"):
                self.err("by-value self")
            else:
                if self.isid("mut"):
                    self.err("mut parameter")
                pname = self.expect_id()
                self.expect_p(":")
                mut = self.isp("&") and self.isid("mut", 1)
                if mut:
                    self.eat()
                    self.eat()
                t = self.type_()
                params.append((pname, ("&mut " if mut else "") + t))
            if self.isp(","):
                self.eat()
        self.expect_p(")")
        ret = None
        if self.isp("->"):
            self.eat()
            ret = self.type_()
        if self.isid("where"):
            self.err("where clause")
        body = self.block()
        return {"name": name, "params": params, "ret": ret, "body": body, "line": line}

    # ---- statements
    def stmt(self):
        line = self.peek().line
        if self.isp("#"):
            attrs = self.attr_list()
            s = self.stmt()
            if HOOK_CFG in attrs:
                return ("hook", line)
            self.err("attribute on a statement")
        if self.isid("continue"):
            self.eat()
            self.expect_p(";")
            return ("continue", line)
        if self.isid("return") and self.isp(";", 1):
            self.eat()
            self.eat()
            return ("return", None, line)
        if self.isid("if") and self.isid("let", 1):
            e = self.iflet()
            return ("ifstmt", e, line)
        if self.isid("match"):
            e = self.match_()
            if self.isp("}") :
                return ("tail", e)
            if self.isp(";"):
                self.eat()
            return ("matchstmt", e, line)
        return super().stmt()

    def block(self):
        self.expect_p("{")
        stmts, tail = [], None
        while not self.isp("}"):
            s = self.stmt()
            if s[0] == "hook":
                continue
            if s[0] == "tail":
                tail = s[1]
                if not self.isp("}"):
                    self.err("expected '}' after the tail expression")
            else:
                stmts.append(s)
        self.expect_p("}")
        return ("block", stmts, tail)

    def iflet(self):
        line = self.peek().line
        self.expect_id("if")
        self.expect_id("let")
        pat = self.pattern()
        self.expect_p("=")
        e = self.expr(no_struct=True)
        a = self.block()
        b = None
        if self.isid("else"):
            self.eat()
            b = self.block()
        return ("iflet", pat, e, a, b, line)

    def pattern(self):
        tk = self.peek()
        if tk.kind == "ID" and tk.val not in ("mut", "_", "Some", "None") and (self.isp("::", 1)):
            path = [self.eat().val]
            while self.isp("::"):
                self.eat()
                path.append(self.expect_id())
            sub = None
            if self.isp("("):
                self.eat()
                sub = self.pattern()
                self.expect_p(")")
            return ("pvariant", path, sub)
        return super().pattern()

    # ---- expressions
    def unary(self, ns):
        if self.isp("&") and self.isid("mut", 1):
            self.eat()
            self.eat()
            return ("un", "&mut", self.unary(ns), self.peek().line)
        return super().unary(ns)

    def postfix(self, ns):
        e = self.primary(ns)
        while True:
            line = self.peek().line
            if self.isp("."):
                self.eat()
                if self.peek().kind == "NUM":
                    self.err("tuple field")
                m = self.expect_id()
                if self.isp("::"):
                    self.err("turbofish")
                if self.isp("("):
                    self.eat()
                    e = ("mcall", e, m, self.args(), line)
                else:
                    e = ("field", e, m, line)
            elif self.isp("("):
                self.eat()
                e = ("call", e, self.args(), line)
            elif self.isp("["):
                self.err("indexing")
            elif self.isp("?"):
                self.eat()
                e = ("try", e, line)
            else:
                return e

    def primary(self, ns):
        tk = self.peek()
        if tk.kind == "ID" and tk.val == "move" and self.isp("|", 1):
            self.eat()
            return self.closure()
        if tk.kind == "P" and tk.val == "|":
            return self.closure()
        if tk.kind == "ID" and tk.val == "if" and self.isid("let", 1):
            return self.iflet()
        return super().primary(ns)

    def closure(self):
        line = self.peek().line
        self.expect_p("|")
        pats = []
        while not self.isp("|"):
            pats.append(self.pattern())
            if self.isp(":"):
                self.err("typed closure parameter")
            if self.isp(","):
                self.eat()
        self.expect_p("|")
        if self.isp("{"):
            b = self.block()
            if b[1] or b[2] is None:
                self.err("closure block with statements")
            return ("closure", pats, b[2], line)
        return ("closure", pats, self.expr(), line)

    def match_(self):
        line = self.peek().line
        self.expect_id("match")
        scrut = self.expr(no_struct=True)
        self.expect_p("{")
        arms = []
        while not self.isp("}"):
            pat = self.pattern()
            if self.isp("|") or self.isid("if"):
                self.err("or-pattern / match guard")
            self.expect_p("=>")
            if self.isp("{"):
                body = self.block()
                if self.isp(","):
                    self.eat()
            else:
                body = ("block", [], self.expr())
                if self.isp(","):
                    self.eat()
                elif not self.isp("}"):
                    self.err("expected ',' after match arm")
            arms.append((pat, body))
        self.expect_p("}")
        return ("match", scrut, arms, line)


def parse_module(repo, rel):
    src = cut_tests(strip_comments(read(repo, rel)))
    return P2(base.tokenize(src, rel), rel).module_items()



# ----------------------------------------------------------------------------- representation tables (trusted, see notes)

KINDS = {"Record": "KRecord", "TemplateArgument": "KTemplateArg", "RecordField": "KRecordField", "Variable": "KVariable",
         "Defset": "KDefset", "Multiclass": "KMulticlass", "Defm": "KDefm"}
ID_ALIAS = {s + "Id": s for s in KINDS}                       # RecordId -> Record
STRUCT_FILE = {"Record": "record", "RecordField": "record_field", "TemplateArgument": "template_arg", "Variable": "variable",
               "Defset": "defset", "Multiclass": "multiclass", "Defm": "defm"}

# struct -> [(field, expected Rust type, internal type, getter pattern | None, setter | None)] in declaration order
COMMON_TAIL = [("define_loc", "FileRange", "FileRange", "e_def %s", None),
               ("reference_locs", "Vec<FileRange>", ("list", "FileRange"), "e_refs %s", "set_refs")]
STRUCT_FIELDS = {
    "Record": [("name", "EcoString", "name", "e_name %s", None),
               ("kind", "RecordKind", "RecordKind", "rec_kind %s", None),
               ("name_to_template_arg", "IndexMap<EcoString,TemplateArgumentId>", ("amap", ("id", "KTemplateArg")),
                "p_targs (e_payload %s)", "rec_set_targs"),
               ("name_to_record_field", "IndexMap<EcoString,RecordFieldId>", ("amap", ("id", "KRecordField")),
                "p_fields (e_payload %s)", "rec_set_fields"),
               ("parent_list", "Vec<RecordId>", ("list", ("id", "KRecord")), "p_parents (e_payload %s)", "rec_set_parents")]
    + COMMON_TAIL,
    "RecordField": [("name", "EcoString", "name", "e_name %s", None), ("typ", "Type", "Type", "p_typ (e_payload %s)", None),
                    ("parent", "RecordId", ("id", "KRecord"), "field_parent %s", None)] + COMMON_TAIL,
    "TemplateArgument": [("name", "EcoString", "name", "e_name %s", None), ("typ", "Type", "Type", "p_typ (e_payload %s)", None),
                         ("has_default_value", "bool", "bool", None, None)] + COMMON_TAIL,
    "Variable": [("name", "EcoString", "name", "e_name %s", None), ("typ", "Type", "Type", "p_typ (e_payload %s)", None),
                 ("kind", "VariableKind", "Unmodelled", None, None)] + COMMON_TAIL,
    "Defset": [("name", "EcoString", "name", "e_name %s", None), ("typ", "Type", "Type", "p_typ (e_payload %s)", None),
               ("def_list", "Vec<RecordId>", ("list", ("id", "KRecord")), "p_defs (e_payload %s)", "defset_set_defs")] + COMMON_TAIL,
    "Multiclass": [("name", "EcoString", "name", "e_name %s", None),
                   ("name_to_template_arg", "IndexMap<EcoString,TemplateArgumentId>", ("amap", ("id", "KTemplateArg")),
                    "p_targs (e_payload %s)", "mc_set_targs"),
                   ("parent_list", "Vec<MulticlassId>", ("list", ("id", "KMulticlass")), "p_parents (e_payload %s)", "mc_set_parents")]
    + COMMON_TAIL,
    "Defm": [("name", "EcoString", "name", "e_name %s", None),
             ("parent_list", "Vec<MulticlassId>", ("list", ("id", "KMulticlass")), "p_parents (e_payload %s)", "defm_set_parents")]
    + COMMON_TAIL,
}
# SymbolMap field -> (expected Rust type, what)
SM_FIELDS = [("record_list", "Arena<Record>", ("arena", "KRecord")), ("template_arg_list", "Arena<TemplateArgument>", ("arena", "KTemplateArg")),
             ("record_field_list", "Arena<RecordField>", ("arena", "KRecordField")), ("variable_list", "Arena<Variable>", ("arena", "KVariable")),
             ("defset_list", "Arena<Defset>", ("arena", "KDefset")), ("multiclass_list", "Arena<Multiclass>", ("arena", "KMulticlass")),
             ("defm_list", "Arena<Defm>", ("arena", "KDefm")),
             ("name_to_class", "HashMap<EcoString,RecordId>", ("namemap", "sm_name_to_class", "set_name_to_class", "KRecord")),
             ("name_to_def", "HashMap<EcoString,RecordId>", ("namemap", "sm_name_to_def", "set_name_to_def", "KRecord")),
             ("name_to_multiclass", "HashMap<EcoString,MulticlassId>", ("namemap", "sm_name_to_multiclass", "set_name_to_multiclass", "KMulticlass")),
             ("name_to_defset", "HashMap<EcoString,DefsetId>", ("namemap", "sm_name_to_defset", "set_name_to_defset", "KDefset")),
             ("file_to_symbol_list", "HashMap<FileId,Vec<SymbolId>>", ("filelist",)),
             ("pos_to_symbol_map", "HashMap<FileId,IntervalMap<TextSize,SymbolId>>", ("posmap",))]
ENUM_DEFS = {"RecordKind": [("Class", None), ("Def", None)]}
STRUCT_OF_KIND = {v: k for k, v in KINDS.items()}


def coq_ty(t):
    if isinstance(t, tuple):
        if t[0] == "id":
            return "N"
        if t[0] in ("struct",):
            return "entry"
        if t[0] == "borrow":
            return "symbol_id"
        if t[0] == "opt":
            return "(option %s)" % coq_ty(t[1])
        if t[0] == "list":
            return "(list %s)" % coq_ty(t[1])
        if t[0] == "amap":
            return "(list (name * %s))" % coq_ty(t[1])
        if t[0] == "hashset":
            return "(list N)"
        if t[0] == "tuple":
            return "(" + " * ".join(coq_ty(x) for x in t[1]) + ")"
    return {"SM": "symbol_map", "SymbolId": "symbol_id", "IntoSymbolId": "symbol_id", "Symbol": "(sym_kind * entry)",
            "SymbolMut": "symbol_id", "name": "name", "bool": "bool", "FileRange": "file_range", "FilePosition": "(fileid * N)",
            "FileId": "fileid", "TextSize": "N", "RecordKind": "record_kind", "Type": "name", "Unmodelled": "unit",
            "unit": "unit"}[t]


def parse_rust_type(t, self_ty, where):
    """type text (spaces and & removed by the parser) -> internal type"""
    t = t.replace("'_", "").replace("'a", "")
    if t.endswith("+"):
        t = t[:-1]
    m = re.fullmatch(r"Option<(.*)>", t)
    if m:
        return ("opt", parse_rust_type(m.group(1), self_ty, where))
    m = re.fullmatch(r"implIterator<Item=(.*)>\+?", t)
    if m:
        return ("list", parse_rust_type(m.group(1), self_ty, where))
    m = re.fullmatch(r"\[(.*)\]", t)
    if m:
        return ("list", parse_rust_type(m.group(1), self_ty, where))
    m = re.fullmatch(r"\((.*),(.*)\)", t)
    if m:
        return ("tuple", [parse_rust_type(m.group(1), self_ty, where), parse_rust_type(m.group(2), self_ty, where)])
    m = re.fullmatch(r"HashSet<(\w+)>", t)
    if m and m.group(1) in ID_ALIAS:
        return ("hashset", KINDS[ID_ALIAS[m.group(1)]])
    if t in ID_ALIAS:
        return ("id", KINDS[ID_ALIAS[t]])
    if t in KINDS:
        return ("struct", t)
    if t == "Self":
        return self_ty
    simple = {"SymbolId": "SymbolId", "implInto<SymbolId>": "IntoSymbolId", "EcoString": "name", "bool": "bool",
              "FileRange": "FileRange", "FilePosition": "FilePosition", "FileId": "FileId", "RecordKind": "RecordKind",
              "Type": "Type", "VariableKind": "Unmodelled", "SymbolMap": "SM", "Symbol": "Symbol", "SymbolMut": "SymbolMut"}
    if t in simple:
        return simple[t]
    raise TranslateError("%s: unsupported type %r" % (where, t))


class Emit2:
    def __init__(self, gen):
        self.gen = gen
        self.pre = []

    def bind(self, mterm):
        v = self.gen.fresh()
        self.pre.append(("bind", v, mterm))
        return v

    def let(self, var, term):
        self.pre.append(("let", var, term))

    def flush(self, final, indent):
        pre = list(self.pre)
        if final[0] == "ret" and pre and pre[-1][0] == "bind" and pre[-1][1] == final[1]:
            final = ("m", pre.pop()[2])
        out = ""
        for kind, v, t in pre:
            out += ("%s%s <- %s ;;\n" if kind == "bind" else "%slet %s := %s in\n") % (indent, v, t)
        if final[0] == "ret":
            return out + "%sSOk %s" % (indent, base.atom(final[1]))
        return out + indent + final[1]


atom = base.atom


class Fn:
    """one method being translated"""
    def __init__(self, owner, fn, kind):
        self.owner, self.fn, self.kind = owner, fn, kind


class Gen2:
    def __init__(self, repo):
        self.repo = repo
        self.n = 0
        self.sigs = {}
        self.fname = "?"
        self.cur = None

    def fresh(self):
        self.n += 1
        return "t%d" % self.n

    def fail(self, line, msg):
        raise TranslateError("%s:%d: %s" % (self.fname, line or 0, msg))

    # ------------------------------------------------------------------ expressions
    def pure(self, e, env, what, line, expect=None):
        em = Emit2(self)
        code, ty = self.tr(e, env, em, expect)
        if em.pre:
            self.fail(line, "%s must not contain an operation that can fail or mutate" % what)
        return code, ty

    def tr(self, e, env, em, expect=None):
        k = e[0]
        if k == "paren":
            return self.tr(e[1], env, em, expect)
        if k == "bool":
            return ("true" if e[1] else "false"), "bool"
        if k == "path":
            return self.tr_path(e, env, expect)
        if k == "un":
            op, a, line = e[1], e[2], e[3]
            if op in ("&", "*", "&mut"):
                return self.tr(a, env, em, expect)
            if op == "!":
                c, t = self.tr(a, env, em)
                if t != "bool":
                    self.fail(line, "`!` on %s" % (t,))
                return "negb %s" % atom(c), "bool"
            self.fail(line, "unary %s" % op)
        if k == "bin":
            op, a, b, line = e[1], e[2], e[3], e[4]
            if op in ("||", "&&"):
                ca, ta = self.tr(a, env, em)
                cb, tb = self.pure(b, env, "the right operand of %s" % op, line)
                if ta != "bool" or tb != "bool":
                    self.fail(line, "%s on non-bool" % op)
                return "%s %s %s" % (atom(ca), op, atom(cb)), "bool"
            if op in ("==", "!="):
                ca, ta = self.tr(a, env, em)
                cb, tb = self.tr(b, env, em, ta)
                if ta == tb == "RecordKind":
                    c = "record_kind_eqb %s %s" % (atom(ca), atom(cb))
                elif ta == tb and isinstance(ta, tuple) and ta[0] == "id":
                    c = "%s =? %s" % (atom(ca), atom(cb))
                else:
                    self.fail(line, "comparison of %s and %s" % (ta, tb))
                return (c if op == "==" else "negb (%s)" % c), "bool"
            self.fail(line, "operator %s" % op)
        if k == "field":
            return self.tr_field(e, env, em)
        if k == "call":
            return self.tr_call(e, env, em, expect)
        if k == "mcall":
            return self.tr_mcall(e, env, em, expect)
        if k == "tuple":
            cs = [self.tr(x, env, em) for x in e[1]]
            return "(" + ", ".join(c for c, _ in cs) + ")", ("tuple", [t for _, t in cs])
        if k == "struct":
            return self.tr_struct(e, env, em)
        if k == "match":
            return self.tr_match_value(e, env, em, expect)
        if k == "try":
            self.fail(e[2], "`?` is supported only as `let x = <Option>?;`")
        self.fail(e[-1] if isinstance(e[-1], int) else 0, "unsupported expression %s" % k)

    def tr_path(self, e, env, expect):
        path, line = e[1], e[2]
        if len(path) == 1:
            x = path[0]
            if x == "None":
                return "None", ("opt", expect[1] if isinstance(expect, tuple) and expect[0] == "opt" else None)
            if x not in env:
                self.fail(line, "unknown name %s" % x)
            return env[x][0], env[x][1]
        if len(path) == 2 and path[0] == "RecordKind" and path[1] in ("Class", "Def"):
            return {"Class": "RKClass", "Def": "RKDef"}[path[1]], "RecordKind"
        self.fail(line, "path %s used as a value" % "::".join(path))

    def struct_field(self, sname, f, line):
        for row in STRUCT_FIELDS[sname]:
            if row[0] == f:
                return row
        self.fail(line, "struct %s has no field %s" % (sname, f))

    def tr_field(self, e, env, em):
        recv, f, line = e[1], e[2], e[3]
        c, t = self.tr(recv, env, em)
        if isinstance(t, tuple) and t[0] == "struct":
            row = self.struct_field(t[1], f, line)
            if row[3] is None:
                self.fail(line, "field %s.%s is not modelled" % (t[1], f))
            return row[3] % atom(c), row[2]
        if t == "SM":
            for name, _, what in SM_FIELDS:
                if name == f:
                    return c, ("smfield", what, c)
            self.fail(line, "SymbolMap has no field %s" % f)
        if t == "FileRange":
            if f == "file":
                return "fr_file %s" % atom(c), "FileId"
            if f == "range":
                return c, ("frrange", c)
        if t == "FilePosition":
            if f == "file":
                return "fst %s" % atom(c), "FileId"
            if f == "position":
                return "snd %s" % atom(c), "TextSize"
        if t == "ivl_range":
            if f == "start":
                return "fst (fst %s)" % atom(c), "TextSize"
            if f == "end":
                return "snd (fst %s)" % atom(c), "TextSize"
        self.fail(line, "field .%s of %s" % (f, t))

    def variant_kind(self, enum, variant, line):
        if (enum, variant) not in self.variants:
            self.fail(line, "unknown variant %s::%s" % (enum, variant))
        return self.variants[(enum, variant)]

    def to_symbol_id(self, c, t, line):
        if t in ("SymbolId", "IntoSymbolId"):
            return c
        if isinstance(t, tuple) and t[0] == "id":
            if t[1] not in self.into:
                self.fail(line, "no `impl From<%sId> for SymbolId`" % STRUCT_OF_KIND[t[1]])
            return "(%s, %s)" % (self.into[t[1]], c)
        self.fail(line, "conversion of %s into SymbolId" % (t,))

    def tr_call(self, e, env, em, expect):
        f, args, line = e[1], e[2], e[3]
        if f[0] != "path":
            self.fail(line, "call of a computed function")
        path = f[1]
        name = "::".join(path)
        if name == "Some" and len(args) == 1:
            c, t = self.tr(args[0], env, em, expect[1] if isinstance(expect, tuple) and expect[0] == "opt" else None)
            return "Some %s" % atom(c), ("opt", t)
        if name in ("IndexMap::new", "Vec::new", "HashSet::new") and not args:
            return "[]", ("emptycoll",)
        if name == "FileRange::new" and len(args) == 2:
            cf, tf = self.tr(args[0], env, em)
            if tf != "FileId" or args[1][0] != "call" or "::".join(args[1][1][1]) != "TextRange::new" or len(args[1][2]) != 2:
                self.fail(line, "FileRange::new is supported as FileRange::new(file, TextRange::new(a, b))")
            a, ta = self.tr(args[1][2][0], env, em)
            b, tb = self.tr(args[1][2][1], env, em)
            if (ta, tb) != ("TextSize", "TextSize"):
                self.fail(line, "TextRange::new(%s, %s)" % (ta, tb))
            return "mkFR %s %s %s" % (atom(cf), atom(a), atom(b)), "FileRange"
        if len(path) == 2 and (path[0], path[1]) in self.variants or (len(path) == 2 and path[0] == "Self" and (self.cur.owner, path[1]) in self.variants):
            enum = self.cur.owner if path[0] == "Self" else path[0]
            kind = self.variant_kind(enum, path[1], line)
            if len(args) != 1:
                self.fail(line, "variant constructor with %d arguments" % len(args))
            c, t = self.tr(args[0], env, em)
            if enum == "SymbolId":
                if t != ("id", kind):
                    self.fail(line, "%s(%s)" % (name, t))
                return "(%s, %s)" % (kind, c), "SymbolId"
            if enum == "Symbol":
                if t != ("struct", STRUCT_OF_KIND[kind]):
                    self.fail(line, "%s(%s)" % (name, t))
                return "(%s, %s)" % (kind, c), "Symbol"
            if enum == "SymbolMut":
                if t != ("borrow", STRUCT_OF_KIND[kind]):
                    self.fail(line, "%s(%s)" % (name, t))
                return c, "SymbolMut"
        self.fail(line, "call of %s" % name)

    def closure1(self, cl, argty, env, line):
        if cl[0] != "closure" or len(cl[1]) != 1:
            self.fail(line, "expected a one-parameter closure")
        pat = cl[1][0]
        env2 = dict(env)
        v = "it%d" % (len([x for x in env if x.startswith("$it")]) + 1)
        env2["$it" + v] = (v, argty)
        if pat[0] == "pbind":
            env2[pat[1]] = (v, argty)
        elif pat[0] == "ptuple" and argty == "ivl_item" and len(pat[1]) == 2 and all(q[0] == "pbind" for q in pat[1]):
            env2[pat[1][0][1]] = (v, "ivl_range")
            env2[pat[1][1][1]] = ("snd %s" % v, "SymbolId")
        else:
            self.fail(line, "closure pattern")
        return v, env2, cl[2]

    def tr_mcall(self, e, env, em, expect):
        recv, m, args, line = e[1], e[2], e[3], e[4]

        def nargs(n):
            if len(args) != n:
                self.fail(line, ".%s expects %d argument(s)" % (m, n))
        if m == "expect":
            nargs(1)
            if args[0][0] != "str":
                self.fail(line, "expect(..) with a computed message")
            # arena.get(id).expect(..) / arena.get_mut(id).expect(..)
            if recv[0] == "mcall" and recv[2] in ("get", "get_mut") and len(recv[3]) == 1:
                c, t = self.tr(recv[1], env, em)
                if isinstance(t, tuple) and t[0] == "smfield" and t[1][0] == "arena":
                    kind = t[1][1]
                    ci, ti = self.tr(recv[3][0], env, em)
                    if ti != ("id", kind):
                        self.fail(line, "arena of %s indexed by %s" % (kind, ti))
                    if recv[2] == "get":
                        return em.bind("symbol %s (%s, %s)" % (atom(t[2]), kind, ci)), ("struct", STRUCT_OF_KIND[kind])
                    return em.bind("arena_borrow %s %s %s" % (atom(t[2]), kind, atom(ci))), ("borrow", STRUCT_OF_KIND[kind])
            self.fail(line, "expect(..) is supported only on arena.get(id) / arena.get_mut(id)")
        if m in ("clone", "cloned", "copied", "into_iter"):
            nargs(0)
            return self.tr(recv, env, em, expect)
        if m == "into":
            nargs(0)
            c, t = self.tr(recv, env, em)
            if isinstance(t, tuple) and t[0] == "frrange":
                return c, t
            return self.to_symbol_id(c, t, line), "SymbolId"
        c, t = self.tr(recv, env, em)
        # ---- SymbolMap fields
        if isinstance(t, tuple) and t[0] == "smfield":
            what, S = t[1], atom(t[2])
            if what[0] == "arena":
                if m == "alloc":
                    nargs(1)
                    self.fail(line, "alloc is supported only as `let id = self.<arena>.alloc(x);` or as the tail of the fn")
                if m == "get":
                    nargs(1)
                    ci, ti = self.tr(args[0], env, em)
                    if ti != ("id", what[1]):
                        self.fail(line, "arena of %s indexed by %s" % (what[1], ti))
                    return "get_entry %s (%s, %s)" % (S, what[1], ci), ("opt", ("struct", STRUCT_OF_KIND[what[1]]))
            if what[0] == "namemap":
                if m == "get":
                    nargs(1)
                    cn, tn = self.tr(args[0], env, em)
                    if tn != "name":
                        self.fail(line, "name map indexed by %s" % (tn,))
                    return "amap_get (%s %s) %s" % (what[1], S, atom(cn)), ("opt", ("id", what[3]))
                if m == "values":
                    nargs(0)
                    return "amap_values (%s %s)" % (what[1], S), ("list", ("id", what[3]))
            if what[0] == "filelist" and m == "get":
                nargs(1)
                cf, tf = self.tr(args[0], env, em)
                if tf != "FileId":
                    self.fail(line, "file map indexed by %s" % (tf,))
                return "fmap_get (sm_file_syms %s) %s" % (S, atom(cf)), ("opt", ("list", "SymbolId"))
            if what[0] == "posmap" and m == "get":
                nargs(1)
                cf, tf = self.tr(args[0], env, em)
                if tf != "FileId":
                    self.fail(line, "position map indexed by %s" % (tf,))
                return "fmap_get (sm_pos %s) %s" % (S, atom(cf)), ("opt", "ivlmap")
            self.fail(line, "method .%s on SymbolMap.%s" % (m, what))
        # ---- methods of the translated types
        owner = None
        if t == "SM":
            owner = "SymbolMap"
        elif isinstance(t, tuple) and t[0] == "struct":
            owner = t[1]
        elif t in ("Symbol", "SymbolMut", "SymbolId"):
            owner = t
        if owner and (owner, m) in self.sigs:
            return self.call_method(owner, m, c, t, args, env, em, line)
        if isinstance(t, tuple) and t[0] == "borrow":
            self.fail(line, "method call through a typed borrow (only SymbolMut borrows are used that way)")
        # ---- library types
        if isinstance(t, tuple) and t[0] == "opt":
            if m == "and_then" or m == "map":
                nargs(1)
                v, env2, body = self.closure1(args[0], t[1], env, line)
                cb, tb = self.pure(body, env2, "a closure body", line)
                if m == "and_then":
                    if not (isinstance(tb, tuple) and tb[0] == "opt"):
                        self.fail(line, "and_then closure of type %s" % (tb,))
                    return "match %s with Some %s => %s | None => None end" % (c, v, cb), tb
                return "option_map (fun %s => %s) %s" % (v, cb, atom(c)), ("opt", tb)
        if isinstance(t, tuple) and t[0] == "amap":
            if m == "get":
                nargs(1)
                cn, tn = self.tr(args[0], env, em)
                if tn != "name":
                    self.fail(line, "IndexMap indexed by %s" % (tn,))
                return "amap_get %s %s" % (atom(c), atom(cn)), ("opt", t[1])
            if m == "values":
                nargs(0)
                return "amap_values %s" % atom(c), ("list", t[1])
        if isinstance(t, tuple) and t[0] == "list":
            if m == "contains":
                nargs(1)
                cx, tx = self.tr(args[0], env, em)
                if tx != t[1] or not (isinstance(tx, tuple) and tx[0] == "id"):
                    self.fail(line, "contains(%s) on a list of %s" % (tx, t[1]))
                return "existsb (N.eqb %s) %s" % (atom(cx), atom(c)), "bool"
            if m == "next":
                nargs(0)
                return "hd_error %s" % atom(c), ("opt", t[1])
            if m == "map":
                nargs(1)
                v, env2, body = self.closure1(args[0], t[1], env, line)
                cb, tb = self.pure(body, env2, "a closure body", line)
                return "map (fun %s => %s) %s" % (v, cb, atom(c)), ("list", tb)
        if t == "ivlmap":
            if m == "values_overlap":
                nargs(1)
                cp, tp = self.tr(args[0], env, em)
                if tp != "TextSize":
                    self.fail(line, "values_overlap(%s)" % (tp,))
                return "map snd (ivl_overlap_point %s %s)" % (atom(c), atom(cp)), ("list", "SymbolId")
            if m == "iter":
                nargs(1)
                cr, trr = self.tr(args[0], env, em)
                if not (isinstance(trr, tuple) and trr[0] == "frrange"):
                    self.fail(line, "iter(%s)" % (trr,))
                return em.bind("ivl_iter %s (fr_lo %s) (fr_hi %s)" % (atom(c), atom(cr), atom(cr))), ("list", "ivl_item")
        if isinstance(t, tuple) and t[0] == "frrange" and m == "is_empty":
            nargs(0)
            return "fr_is_empty %s" % atom(c), "bool"
        if isinstance(t, tuple) and t[0] == "hashset" and m == "insert":
            nargs(1)
            cx, tx = self.tr(args[0], env, em)
            if tx != ("id", t[1]):
                self.fail(line, "insert(%s) into a set of %s" % (tx, t[1]))
            if recv[0] != "path" or len(recv[1]) != 1:
                self.fail(line, "insert into a set that is not a local")
            r = self.fresh()
            em.let(r, "hs_insert %s %s" % (atom(c), atom(cx)))
            em.let(c, "snd %s" % r)
            return "fst %s" % r, "bool"
        self.fail(line, "method .%s on %s" % (m, t))

    def call_method(self, owner, m, c, t, args, env, em, line):
        self.calls.add((self.cur_key, (owner, m)))
        sig = self.sigs[(owner, m)]
        coq, params, ret, flavor, byref, fuel = sig
        codes = []
        if fuel:
            codes.append(self.fuel_arg(owner, m))
        if flavor in ("sm_mut", "struct_mut", "symmut_mut"):
            self.fail(line, "call of a mutating method in expression position")
        codes.append(atom(c))
        byref_args = []
        for (pn, pt), a in zip(params, args):
            ca, ta = self.tr(a, env, em, pt)
            if pt == "IntoSymbolId":
                ca, ta = self.to_symbol_id(ca, ta, line), "IntoSymbolId"
            if isinstance(pt, tuple) and pt[0] == "hashset" and ta == ("emptycoll",):
                ta = pt
            if ta != pt:
                self.fail(line, "%s: argument %s has type %s, expected %s" % (coq, pn, ta, pt))
            codes.append(atom(ca))
            if pn in byref:
                byref_args.append((ca, a))
        if len(args) != len(params):
            self.fail(line, "%s: wrong number of arguments" % coq)
        r = em.bind("%s %s" % (coq, " ".join(codes)))
        if byref:
            # the callee returns (value, updated by-ref arguments); a local passed by &mut is updated, a temporary dropped
            val = "fst %s" % r
            for ca, a in byref_args:
                if a[0] == "path" and len(a[1]) == 1:
                    em.let(ca, "snd %s" % r)
            return val, ret
        return r, ret

    def fuel_arg(self, owner, m):
        if self.cur_recursive and (owner, m) in self.cur_scc:
            return "fuel'"
        return "fuel"

    def tr_struct(self, e, env, em):
        path, fields, line = e[1], e[2], e[3]
        name = "::".join(path)
        sname = self.cur.owner if name == "Self" else name
        if sname not in STRUCT_FIELDS:
            self.fail(line, "struct literal %s" % name)
        rows = STRUCT_FIELDS[sname]
        if sorted(f for f, _ in fields) != sorted(r[0] for r in rows):
            self.fail(line, "struct literal %s: field set differs from the struct definition" % sname)
        d = {}
        for f, fe in fields:                       # evaluation order = textual order
            row = self.struct_field(sname, f, line)
            c, t = self.tr(fe, env, em, row[2])
            if t == ("emptycoll",):
                t = row[2]
            if t != row[2]:
                self.fail(line, "field %s of type %s, expected %s" % (f, t, row[2]))
            d[f] = atom(c)
        return "mk_%s %s" % (sname, " ".join(d[r[0]] for r in rows)), ("struct", sname)

    def match_arms(self, scrut_ty, arms, line):
        """-> (enum name, [(kind or ctor, bound name or None, body)]) with every variant exactly once (or `_` last)"""
        enum = {"SymbolId": "SymbolId", "Symbol": "Symbol", "SymbolMut": "SymbolMut", "RecordKind": "RecordKind"}.get(scrut_ty)
        if enum is None:
            self.fail(line, "match on %s" % (scrut_ty,))
        out, seen, wild = [], set(), None
        for pat, body in arms:
            if pat[0] == "pwild":
                wild = body
                continue
            if wild is not None:
                self.fail(line, "arm after `_`")
            if pat[0] != "pvariant" or len(pat[1]) != 2 or pat[1][0] not in (enum, "Self"):
                self.fail(line, "unsupported match pattern")
            v = pat[1][1]
            if enum == "RecordKind":
                if v not in ("Class", "Def") or pat[2] is not None:
                    self.fail(line, "RecordKind pattern")
                key = {"Class": "RKClass", "Def": "RKDef"}[v]
                bound = None
            else:
                key = self.variant_kind(enum, v, line)
                if pat[2] is None or pat[2][0] != "pbind":
                    self.fail(line, "variant pattern must bind one name")
                bound = pat[2][1]
            if key in seen:
                self.fail(line, "duplicate match arm")
            seen.add(key)
            out.append((key, bound, body))
        allk = ["RKClass", "RKDef"] if enum == "RecordKind" else list(KINDS.values())
        if wild is None and set(allk) != seen:
            self.fail(line, "non-exhaustive match")
        return enum, out, wild, [k2 for k2 in allk if k2 not in seen]

    def bind_arm(self, enum, sc, key, bound, env):
        env2 = dict(env)
        if bound is not None:
            if enum == "SymbolId":
                env2[bound] = ("snd %s" % atom(sc), ("id", key))
            elif enum == "Symbol":
                env2[bound] = ("snd %s" % atom(sc), ("struct", STRUCT_OF_KIND[key]))
            elif enum == "SymbolMut":
                env2[bound] = ("v_self", ("struct", STRUCT_OF_KIND[key]))
        return env2

    def tr_match_value(self, e, env, em, expect):
        scrut, arms, line = e[1], e[2], e[3]
        sc, st = self.tr(scrut, env, em)
        enum, out, wild, missing = self.match_arms(st, arms, line)
        disc = sc if enum == "RecordKind" else "fst %s" % atom(sc)
        tys, texts = [], []
        for key, bound, body in out:
            env2 = self.bind_arm(enum, sc, key, bound, env)
            texts.append("    | %s =>\n%s" % (key, self.value_block(body, env2, expect, tys, "      ")))
        if wild is not None:
            texts.append("    | _ =>\n%s" % self.value_block(wild, env, expect, tys, "      "))
        if len(set(map(repr, tys))) != 1:
            self.fail(line, "match arms of different types %s" % (tys,))
        return em.bind("match %s with\n%s\n    end" % (disc, "\n".join(texts))), tys[0]

    def value_block(self, blk, env, expect, tys, indent):
        def fin(env2):
            if blk[2] is None:
                self.fail(0, "block without a value")
            em = Emit2(self)
            code, ty = self.tr(blk[2], env2, em, expect)
            if isinstance(ty, tuple) and ty[0] == "opt" and ty[1] is None and expect:
                ty = expect
            tys.append(ty)
            return em.flush(("ret", code), indent)
        if blk[1]:
            self.fail(0, "statements inside a value block")
        return fin(dict(env))

    # ------------------------------------------------------------------ statements
    def mkret(self, value, env):
        fl = self.cur.flavor
        if fl == "sm_mut":
            v = "S" if self.cur.ret == "unit" else "(S, %s)" % value
        elif fl in ("struct_mut", "symmut_mut"):
            v = "v_self"
        else:
            v = value
        for b in self.cur.byref:
            v = "(%s, %s)" % (v, env[b][0])
        return v

    def ret_value(self, e, env, indent, wrap=None):
        """text for `return e` / the tail expression e (None: unit)"""
        em = Emit2(self)
        if e is None:
            if self.cur.ret != "unit":
                self.fail(0, "`return;` in a fn that returns a value")
            code = "tt"
        else:
            # tail `self.<arena>.alloc(x)`
            if self.cur.flavor == "sm_mut" and e[0] == "mcall" and e[2] == "alloc" and len(e[3]) == 1:
                c, t = self.tr(e[1], env, em)
                if isinstance(t, tuple) and t[0] == "smfield" and t[1][0] == "arena":
                    kind = t[1][1]
                    cx, tx = self.tr(e[3][0], env, em)
                    if tx != ("struct", STRUCT_OF_KIND[kind]) or self.cur.ret != ("id", kind):
                        self.fail(e[4], "alloc of %s into the arena of %s" % (tx, kind))
                    a = self.fresh()
                    em.let(a, "alloc S %s %s" % (kind, atom(cx)))
                    em.let("S", "fst %s" % a)
                    code = "snd %s" % a
                    v = self.mkret(code, env)
                    return em.flush(("ret", v) if wrap is None else ("raw", "SOk (%s %s)" % (wrap, atom(v))), indent)
            code, t = self.tr(e, env, em, self.cur.ret)
            if isinstance(t, tuple) and t[0] == "opt" and t[1] is None:
                t = self.cur.ret
            if t != self.cur.ret:
                self.fail(0, "fn %s: value of type %s, declared %s" % (self.cur.fn["name"], t, self.cur.ret))
        v = self.mkret(code, env)
        if wrap is None:
            return em.flush(("ret", v), indent)
        return em.flush(("raw", "SOk (%s %s)" % (wrap, atom(v))), indent)

    def mutation(self, e, env, em, line):
        """an expression statement that mutates; returns True when handled (pending lets / binds are in em)"""
        fl = self.cur.flavor
        if e[0] == "macro" and e[1] == ["assert"] and len(e[2]) == 1:
            return "assert"
        if e[0] != "mcall":
            return False
        recv, m, args = e[1], e[2], e[3]
        # struct-level: <var>.<field>.push(x) / .insert(n, id)
        if recv[0] == "field" and m in ("push", "insert"):
            c, t = self.tr(recv[1], env, em)
            if isinstance(t, tuple) and t[0] == "struct":
                if fl not in ("struct_mut", "symmut_mut") or c != "v_self":
                    self.fail(line, "mutation of a struct that is not `&mut self`")
                row = self.struct_field(t[1], recv[2], line)
                if row[4] is None:
                    self.fail(line, "field %s.%s cannot be mutated in the model" % (t[1], recv[2]))
                getter = row[3] % "v_self"
                if m == "push" and isinstance(row[2], tuple) and row[2][0] == "list" and len(args) == 1:
                    cx, tx = self.tr(args[0], env, em)
                    if tx != row[2][1]:
                        self.fail(line, "push of %s onto a list of %s" % (tx, row[2][1]))
                    em.let("v_self", "%s v_self (%s ++ [%s])" % (row[4], getter, cx))
                    return True
                if m == "insert" and isinstance(row[2], tuple) and row[2][0] == "amap" and len(args) == 2:
                    cn, tn = self.tr(args[0], env, em)
                    ci, ti = self.tr(args[1], env, em)
                    if tn != "name" or ti != row[2][1]:
                        self.fail(line, "insert(%s, %s) into %s" % (tn, ti, row[2]))
                    em.let("v_self", "%s v_self (amap_insert (%s) %s %s)" % (row[4], getter, atom(cn), atom(ci)))
                    return True
                self.fail(line, ".%s on field %s" % (m, recv[2]))
            if t == "SM":
                if fl != "sm_mut":
                    self.fail(line, "mutation of the symbol map outside a `&mut self` method")
                what = [w for n, _, w in SM_FIELDS if n == recv[2]]
                if what and what[0][0] == "namemap" and m == "insert" and len(args) == 2:
                    w = what[0]
                    cn, tn = self.tr(args[0], env, em)
                    ci, ti = self.tr(args[1], env, em)
                    if tn != "name" or ti != ("id", w[3]):
                        self.fail(line, "insert(%s, %s) into %s" % (tn, ti, recv[2]))
                    em.let("S", "%s S (amap_insert (%s S) %s %s)" % (w[2], w[1], atom(cn), atom(ci)))
                    return True
                self.fail(line, ".%s on SymbolMap.%s" % (m, recv[2]))
        # self.file_to_symbol_list.entry(f).or_default().push(x)
        if m == "push" and recv[0] == "mcall" and recv[2] == "or_default" and recv[1][0] == "mcall" and recv[1][2] == "entry" \
                and recv[1][1][0] == "field" and recv[1][1][2] == "file_to_symbol_list" and len(args) == 1 and len(recv[1][3]) == 1:
            c, t = self.tr(recv[1][1][1], env, em)
            if t != "SM" or fl != "sm_mut":
                self.fail(line, "file_to_symbol_list of something that is not `&mut self`")
            cf, tf = self.tr(recv[1][3][0], env, em)
            cx, tx = self.tr(args[0], env, em)
            if tf != "FileId" or tx != "SymbolId":
                self.fail(line, "file_to_symbol_list.entry(%s)..push(%s)" % (tf, tx))
            em.let("S", "push_file_sym S %s %s" % (atom(cf), atom(cx)))
            return True
        # self.pos_to_symbol_map.entry(f).or_insert_with(IntervalMap::new).insert(range, id)
        if m == "insert" and recv[0] == "mcall" and recv[2] == "or_insert_with" and recv[1][0] == "mcall" and recv[1][2] == "entry" \
                and recv[1][1][0] == "field" and recv[1][1][2] == "pos_to_symbol_map" and len(args) == 2 and len(recv[1][3]) == 1:
            if len(recv[3]) != 1 or recv[3][0][0] != "path" or recv[3][0][1] != ["IntervalMap", "new"]:
                self.fail(line, "or_insert_with(..) is expected to be IntervalMap::new")
            c, t = self.tr(recv[1][1][1], env, em)
            if t != "SM" or fl != "sm_mut":
                self.fail(line, "pos_to_symbol_map of something that is not `&mut self`")
            cf, tf = self.tr(recv[1][3][0], env, em)
            cr, trr = self.tr(args[0], env, em)
            cx, tx = self.tr(args[1], env, em)
            if tf != "FileId" or not (isinstance(trr, tuple) and trr[0] == "frrange") or tx != "SymbolId":
                self.fail(line, "pos_to_symbol_map.entry(%s)..insert(%s, %s)" % (tf, trr, tx))
            s2 = em.bind("pos_insert S %s (fr_lo %s) (fr_hi %s) %s" % (atom(cf), atom(cr), atom(cr), atom(cx)))
            em.let("S", s2)
            return True
        # self.<mutating method>(args)
        c, t = self.tr(recv, env, em)
        if t == "SM" and ("SymbolMap", m) in self.sigs and self.sigs[("SymbolMap", m)][3] == "sm_mut":
            if fl != "sm_mut" or c != "S":
                self.fail(line, "call of a `&mut self` method from a method that is not")
            self.calls.add((self.cur_key, ("SymbolMap", m)))
            coq, params, ret, _, byref, fuel = self.sigs[("SymbolMap", m)]
            if ret != "unit" or byref or fuel or len(args) != len(params):
                self.fail(line, "statement call of %s" % coq)
            codes = ["S"]
            for (pn, pt), a in zip(params, args):
                ca, ta = self.tr(a, env, em, pt)
                if pt == "IntoSymbolId":
                    ca, ta = self.to_symbol_id(ca, ta, line), "IntoSymbolId"
                if ta != pt:
                    self.fail(line, "%s: argument %s has type %s, expected %s" % (coq, pn, ta, pt))
                codes.append(atom(ca))
            s2 = em.bind("%s %s" % (coq, " ".join(codes)))
            em.let("S", s2)
            return True
        if t == "SymbolMut" and ("SymbolMut", m) in self.sigs:
            self.calls.add((self.cur_key, ("SymbolMut", m)))
            coq, params, ret, flv, byref, fuel = self.sigs[("SymbolMut", m)]
            if fl != "sm_mut" or flv != "symmut_mut" or len(args) != len(params):
                self.fail(line, "call of %s" % coq)
            codes = []
            for (pn, pt), a in zip(params, args):
                ca, ta = self.tr(a, env, em, pt)
                if ta != pt:
                    self.fail(line, "%s: argument %s has type %s, expected %s" % (coq, pn, ta, pt))
                codes.append(atom(ca))
            s2 = em.bind("update_entry_m S %s (fun e => %s (fst %s) e %s)" % (atom(c), coq, atom(c), " ".join(codes)))
            em.let("S", s2)
            return True
        return False

    def assigned_state(self, body, env):
        """enclosing-scope variables a loop body may change: by-ref parameters and assigned locals mentioned in it"""
        names = set()

        def walk(x):
            if isinstance(x, tuple):
                if x and x[0] == "path" and len(x[1]) == 1:
                    names.add(x[1][0])
                for y in x:
                    walk(y)
            elif isinstance(x, list):
                for y in x:
                    walk(y)
        walk(body)
        return [b for b in self.cur.byref if b in names]

    def seq(self, stmts, i, env, fin, loop, indent):
        """stmts[i:] then fin(env); loop = None or (state names, tuple text)"""
        if i == len(stmts):
            return fin(env)
        s = stmts[i]
        k = s[0]
        line = s[-1] if isinstance(s[-1], int) else 0

        def rest(env2):
            return self.seq(stmts, i + 1, env2, fin, loop, indent)

        def sub(stmts2, env2, ind):
            return self.seq(stmts2, 0, env2, fin, loop, ind)
        if k == "let":
            pat, ty, e, els, line = s[1], s[2], s[3], s[4], s[5]
            if els is not None or ty is not None:
                self.fail(line, "let-else / annotated let")
            while pat[0] == "pmut":
                pat = pat[1]
            if pat[0] != "pbind":
                self.fail(line, "let pattern")
            x = pat[1]
            em = Emit2(self)
            if e[0] == "try":
                c, t = self.tr(e[1], env, em)
                if not (isinstance(t, tuple) and t[0] == "opt") or not (isinstance(self.cur.ret, tuple) and self.cur.ret[0] == "opt"):
                    self.fail(line, "`?` on %s in a fn returning %s" % (t, self.cur.ret))
                env2 = dict(env)
                env2[x] = ("v_" + x, t[1])
                body = "match %s with\n%s| None => SOk %s\n%s| Some v_%s =>\n%s\n%send" % (
                    c, indent, atom(self.mkret("None", env)), indent, x, self.seq(stmts, i + 1, env2, fin, loop, indent + "    "), indent)
                return em.flush(("raw", body), indent)
            if e[0] == "mcall" and e[2] == "alloc" and len(e[3]) == 1:
                c, t = self.tr(e[1], env, em)
                if isinstance(t, tuple) and t[0] == "smfield" and t[1][0] == "arena" and self.cur.flavor == "sm_mut":
                    kind = t[1][1]
                    cx, tx = self.tr(e[3][0], env, em)
                    if tx != ("struct", STRUCT_OF_KIND[kind]):
                        self.fail(line, "alloc of %s into the arena of %s" % (tx, kind))
                    a = self.fresh()
                    em.let(a, "alloc S %s %s" % (kind, atom(cx)))
                    em.let("S", "fst %s" % a)
                    env2 = dict(env)
                    env2[x] = ("v_" + x, ("id", kind))
                    return em.flush(("raw", "let v_%s := snd %s in\n%s" % (x, a, rest(env2))), indent)
            code, t = self.tr(e, env, em)
            if isinstance(t, tuple) and t[0] in ("smfield", "frrange", "emptycoll"):
                self.fail(line, "let of %s" % (t[0],))
            env2 = dict(env)
            env2[x] = ("v_" + x, t)
            return em.flush(("raw", "let v_%s := %s in\n%s" % (x, code, rest(env2))), indent)
        if k == "expr":
            e = s[1]
            em = Emit2(self)
            r = self.mutation(e, env, em, line)
            if r == "assert":
                c, t = self.pure(e[2][0], env, "an assertion", line)
                if t != "bool":
                    self.fail(line, "assert!(%s)" % (t,))
                return "%sif %s then\n%s\n%selse SErr EAnonymousNotDef" % (indent, c, rest(env), indent)
            if r is True:
                return em.flush(("raw", rest(env).lstrip(" ") if False else rest(env)), indent)
            self.fail(line, "expression statement outside the subset")
        if k == "matchstmt":
            e = s[1]
            em = Emit2(self)
            sc, st = self.tr(e[1], env, em)
            enum, out, wild, missing = self.match_arms(st, e[2], e[3])
            disc = sc if enum == "RecordKind" else "fst %s" % atom(sc)
            texts = []
            for key, bound, body in out:
                env2 = self.bind_arm(enum, sc, key, bound, env)
                b_stmts = list(body[1]) + ([("expr", body[2], e[3])] if body[2] is not None else [])
                texts.append("%s| %s =>\n%s" % (indent, key, sub(b_stmts + stmts[i + 1:], env2, indent + "    ")))
            if wild is not None:
                b_stmts = list(wild[1]) + ([("expr", wild[2], e[3])] if wild[2] is not None else [])
                texts.append("%s| _ =>\n%s" % (indent, sub(b_stmts + stmts[i + 1:], dict(env), indent + "    ")))
            return em.flush(("raw", "match %s with\n%s\n%send" % (disc, "\n".join(texts), indent)), indent)
        if k == "ifstmt":
            e = s[1]
            em = Emit2(self)
            ind2 = indent + "  "

            def branch(b, env2):
                if b is None:
                    return self.seq(stmts, i + 1, env2, fin, loop, ind2)
                if b[2] is not None:
                    self.fail(line, "`if` statement whose block ends in a value")
                if b[1] and b[1][-1][0] in ("break", "continue", "return"):
                    return self.seq(b[1], 0, env2, fin, loop, ind2)
                return self.seq(b[1] + stmts[i + 1:], 0, env2, fin, loop, ind2)
            if e[0] == "iflet":
                pat, ex, a, b = e[1], e[2], e[3], e[4]
                c, t = self.tr(ex, env, em)
                if pat[0] != "psome" or not (isinstance(t, tuple) and t[0] == "opt"):
                    self.fail(line, "`if let` is supported as `if let Some(x) = <Option>`")
                inner = pat[1]
                while inner[0] in ("pref", "pmut"):
                    inner = inner[1]
                if inner[0] != "pbind":
                    self.fail(line, "`if let` pattern")
                env2 = dict(env)
                env2[inner[1]] = ("v_" + inner[1], t[1])
                return em.flush(("raw", "match %s with\n%s| Some v_%s =>\n%s\n%s| None =>\n%s\n%send" % (
                    c, indent, inner[1], branch(a, env2), indent, branch(b, dict(env)), indent)), indent)
            c, ct = self.tr(e[1], env, em)
            if ct != "bool":
                self.fail(line, "condition of type %s" % (ct,))
            return em.flush(("raw", "if %s then\n%s\n%selse\n%s" % (c, branch(e[2], dict(env)), indent, branch(e[3], dict(env)))), indent)
        if k == "return":
            if i != len(stmts) - 1:
                self.fail(line, "statements after `return`")
            return self.ret_value(s[1], env, indent, "LReturn" if loop else None)
        if k in ("continue", "break"):
            if loop is None or i != len(stmts) - 1:
                self.fail(line, "`%s` outside a for loop or not last" % k)
            return "%sSOk (%s %s)" % (indent, "LContinue" if k == "continue" else "LBreak", self.state_tuple(loop, env))
        if k == "for":
            pat, it, body, line = s[1], s[2], s[3], s[4]
            if loop is not None:
                self.fail(line, "nested for loop")
            em = Emit2(self)
            ci, ti = self.tr(it, env, em)
            if not (isinstance(ti, tuple) and ti[0] == "list") or pat[0] != "pbind" or body[2] is not None:
                self.fail(line, "for loop over %s" % (ti,))
            names = self.assigned_state(body, env)
            if not names:
                self.fail(line, "for loop without mutable state (nothing it could do)")
            env_b = dict(env)
            env_b[pat[1]] = ("v_" + pat[1], ti[1])
            ind2 = indent + "    "
            stn = env[names[0]][0] if len(names) == 1 else "st"
            unpack = self.unpack(names, env, "st", ind2)
            btxt = self.seq(body[1], 0, env_b, lambda e2: "%sSOk (LContinue %s)" % (ind2, self.state_tuple(names, e2)), names, ind2)
            r = self.fresh()
            after = "match %s with\n%s| inr v => SOk v\n%s| inl %s =>\n%s%s\n%send" % (
                r, indent, indent, stn, self.unpack(names, env, "st", indent + "    "), self.seq(stmts, i + 1, env, fin, None, indent + "    "), indent)
            loop_txt = "%s <- for_loop_r %s (fun it %s =>\n%slet v_%s := it in\n%s%s) %s ;;\n%s%s" % (
                r, atom(ci), stn, ind2, pat[1], unpack, btxt, self.state_tuple(names, env), indent, after)
            return em.flush(("raw", loop_txt), indent)
        self.fail(line, "unsupported statement %s" % k)

    def state_tuple(self, names, env):
        cs = [env[x][0] for x in names]
        return cs[0] if len(cs) == 1 else "(" + ", ".join(cs) + ")"

    def unpack(self, names, env, st, indent):
        if len(names) == 1:
            return ""
        if len(names) != 2:
            self.fail(0, "loop state of more than two variables")
        return "%slet %s := fst %s in\n%slet %s := snd %s in\n" % (indent, env[names[0]][0], st, indent, env[names[1]][0], st)

    # ------------------------------------------------------------------ functions
    def signature(self, owner, fn, trait=None):
        where = "%s: fn %s::%s" % (self.fname, owner, fn["name"])
        self_ty = ("struct", owner) if owner in KINDS else {"SymbolMap": "SM"}.get(owner, owner)
        params, byref, selfkind = [], [], None
        for pn, pt in fn["params"]:
            if pn == "self":
                selfkind = pt
                continue
            mut = pt.startswith("&mut ")
            t = parse_rust_type(pt[5:] if mut else pt, self_ty, where)
            if mut:
                if not (isinstance(t, tuple) and t[0] == "hashset"):
                    raise TranslateError("%s: `&mut` parameter of type %s" % (where, t))
                byref.append(pn)
            params.append((pn, t))
        rt = fn["ret"]
        borrow_ret = False
        if rt is None:
            ret = "unit"
        else:
            if rt.startswith("mut") and rt[3:] in KINDS:
                ret, borrow_ret = ("borrow", rt[3:]), True
            elif rt == "SymbolMut":
                ret, borrow_ret = "SymbolMut", True
            else:
                ret = parse_rust_type(rt, self_ty, where)
        if owner == "SymbolMap":
            if selfkind == "&Self":
                flavor = "sm"
            elif selfkind == "&mut Self":
                flavor = "sm_borrow" if borrow_ret else "sm_mut"
            else:
                raise TranslateError("%s: associated fn without self" % where)
        elif owner in KINDS:
            flavor = {"&Self": "struct", "&mut Self": "struct_mut", None: "struct_static"}[selfkind]
            if flavor == "struct_mut" and ret != "unit":
                raise TranslateError("%s: `&mut self` method that returns a value" % where)
        elif owner == "Symbol" and selfkind == "&Self":
            flavor = "symbol"
        elif owner == "SymbolMut" and selfkind == "&mut Self" and ret == "unit":
            flavor = "symmut_mut"
        elif owner == "SymbolId" and selfkind == "&Self":
            flavor = "symid"
        elif owner == "SymbolId" and trait and selfkind is None:
            flavor = "from"
        else:
            raise TranslateError("%s: unsupported receiver" % where)
        return params, ret, flavor, byref

    def emit_fn(self, owner, fn, coqname, sig, fuel, recursive, scc):
        params, ret, flavor, byref = sig
        self.cur = Fn(owner, fn, flavor)
        self.cur_key = (owner, fn["name"])
        self.cur.flavor, self.cur.ret, self.cur.byref = flavor, ret, byref
        self.cur_recursive, self.cur_scc = recursive, scc
        env = {}
        coq_params = []
        if fuel:
            coq_params.append("(fuel : nat)")
        if flavor in ("sm", "sm_mut", "sm_borrow"):
            env["self"] = ("S", "SM")
            coq_params.append("(S : symbol_map)")
        elif flavor in ("struct", "struct_mut"):
            env["self"] = ("v_self", ("struct", owner))
            coq_params.append("(v_self : entry)")
        elif flavor == "symbol":
            env["self"] = ("v_self", "Symbol")
            coq_params.append("(v_self : sym_kind * entry)")
        elif flavor == "symid":
            env["self"] = ("v_self", "SymbolId")
            coq_params.append("(v_self : symbol_id)")
        elif flavor == "symmut_mut":
            env["self"] = ("(v_k, v_self)", "SymbolMut")
            coq_params.append("(v_k : sym_kind) (v_self : entry)")
        for pn, pt in params:
            env[pn] = ("v_" + pn, pt)
            coq_params.append("(v_%s : %s)" % (pn, coq_ty(pt)))
        # result type
        if flavor == "sm_mut":
            rty = "symbol_map" if ret == "unit" else "(symbol_map * %s)" % coq_ty(ret)
        elif flavor in ("struct_mut", "symmut_mut"):
            rty = "entry"
        else:
            rty = coq_ty(ret)
        for b in byref:
            rty = "(%s * %s)" % (rty, coq_ty(dict(params)[b]))
        body = fn["body"]
        stmts, tail = list(body[1]), body[2]
        if tail is not None and ret == "unit":
            stmts.append(("matchstmt", tail, fn["line"]) if tail[0] == "match" else ("expr", tail, fn["line"]))
            tail = None

        def fin(env2):
            if tail is None:
                if ret != "unit":
                    self.fail(fn["line"], "fn %s: the body has no tail expression" % fn["name"])
                return self.ret_value(None, env2, "  ")
            return self.ret_value(tail, env2, "  ")
        if tail is None and stmts and stmts[-1][0] == "return":
            text = self.seq(stmts, 0, env, lambda e: "", None, "  ")
        else:
            text = self.seq(stmts, 0, env, fin, None, "  ")
        if recursive:
            return ("Fixpoint %s %s {struct fuel} : sres %s :=\n  match fuel with\n  | O => SErr EOutOfFuel\n  | Datatypes.S fuel' =>\n%s\n  end.\n"
                    % (coqname, " ".join(coq_params), rty, text))
        return "Definition %s %s : sres %s :=\n%s.\n" % (coqname, " ".join(coq_params), rty, text)


def method_calls(fn):
    out = set()

    def walk(x):
        if isinstance(x, tuple):
            if x and x[0] == "mcall":
                out.add(x[2])
            for y in x:
                walk(y)
        elif isinstance(x, list):
            for y in x:
                walk(y)
    walk(fn["body"])
    return out


def check_decls(mods):
    """the declarations the representation tables rely on; any difference is refused"""
    sm = mods["symbol_map"]["structs"].get("SymbolMap")
    want = [(n, t) for n, t, _ in SM_FIELDS]
    if sm != want:
        raise TranslateError("%s: struct SymbolMap differs from the modelled representation: found %s" % (FILES["symbol_map"], sm))
    for sname, mod in STRUCT_FILE.items():
        got = mods[mod]["structs"].get(sname)
        want = [(r[0], r[1]) for r in STRUCT_FIELDS[sname]]
        if got != want:
            raise TranslateError("%s: struct %s differs from the modelled representation: found %s" % (FILES[mod], sname, got))
        if mods[mod]["aliases"].get(sname + "Id") != "Id<%s>" % sname:
            raise TranslateError("%s: `type %sId = Id<%s>` expected" % (FILES[mod], sname, sname))
    if mods["record"]["enums"].get("RecordKind") != [("Class", None), ("Def", None)]:
        raise TranslateError("%s: enum RecordKind { Class, Def } expected" % FILES["record"])
    variants = {}
    en = mods["symbol"]["enums"]
    for enum, argfmt in (("SymbolId", "%sId"), ("Symbol", "%s"), ("SymbolMut", "mut%s")):
        vs = en.get(enum)
        if vs is None or len(vs) != 7:
            raise TranslateError("%s: enum %s with seven variants expected" % (FILES["symbol"], enum))
        for v, arg in vs:
            sname = v[:-2] if enum == "SymbolId" and v.endswith("Id") else v
            a = (arg or "").replace("'a", "")
            if sname not in KINDS or a != argfmt % sname:
                raise TranslateError("%s: variant %s::%s(%s) is not of the modelled form" % (FILES["symbol"], enum, v, arg))
            variants[(enum, v)] = KINDS[sname]
    return variants


def translate(repo):
    mods = {k: parse_module(repo, rel) for k, rel in FILES.items()}
    g = Gen2(repo)
    g.variants = check_decls(mods)
    # methods, keyed (owner, name)
    methods, order_src = {}, []
    for mod, m in mods.items():
        for target, trait, fns in m["impls"]:
            target = re.sub(r"<.*>$", "", target)
            for fn in fns:
                if trait is not None:
                    if not (target == "SymbolId" and re.fullmatch(r"From<\w+Id>", trait) and fn["name"] == "from"):
                        raise TranslateError("%s: unsupported trait impl `%s for %s`" % (FILES[mod], trait, target))
                    key = (target, "from_" + trait[5:-1])
                else:
                    key = (target, fn["name"])
                if key in methods:
                    raise TranslateError("%s: duplicate fn %s::%s" % (FILES[mod], key[0], key[1]))
                if target not in ("SymbolMap", "SymbolId", "Symbol", "SymbolMut") and target not in KINDS:
                    raise TranslateError("%s: impl for unknown type %s" % (FILES[mod], target))
                methods[key] = (mod, trait, fn)
                order_src.append(key)
    # `impl From<XId> for SymbolId`: the table behind `.into()`
    g.into = {}
    for (owner, name), (mod, trait, fn) in methods.items():
        if trait is None:
            continue
        idt = trait[5:-1]
        if idt not in ID_ALIAS:
            raise TranslateError("%s: From<%s>" % (FILES[mod], idt))
        kind = KINDS[ID_ALIAS[idt]]
        b = fn["body"]
        ok = (not b[1] and b[2] is not None and b[2][0] == "call" and b[2][1][0] == "path" and len(b[2][1][1]) == 2
              and b[2][1][1][0] == "SymbolId" and len(b[2][2]) == 1 and b[2][2][0][0] == "path"
              and fn["params"] == [(b[2][2][0][1][0], idt)])
        if not ok or g.variants.get(("SymbolId", b[2][1][1][1])) != kind:
            raise TranslateError("%s: `impl From<%s> for SymbolId` is not `SymbolId::%s(id)`" % (FILES[mod], idt, idt))
        g.into[kind] = kind
    if set(g.into) != set(KINDS.values()):
        raise TranslateError("%s: a From<..Id> for SymbolId impl is missing" % FILES["symbol"])
    plain = {k: v for k, v in methods.items() if v[1] is None}
    # pass 1: render every fn without fuel, only to learn which method each call resolves to
    def signatures(fuelset):
        sg = {}
        for k, (mod, trait, fn) in plain.items():
            g.fname = FILES[mod]
            params, ret, flavor, byref = g.signature(k[0], fn)
            coq = "src_%s_%s" % ("sm" if k[0] == "SymbolMap" else k[0], k[1])
            sg[k] = (coq, params, ret, flavor, byref, k in fuelset)
        return sg
    g.sigs = signatures(set())
    g.calls = set()
    for k, (mod, trait, fn) in plain.items():
        g.fname = FILES[mod]
        coq, params, ret, flavor, byref, _ = g.sigs[k]
        g.emit_fn(k[0], fn, coq, (params, ret, flavor, byref), False, False, set())
    edges = {k: set() for k in plain}
    for a, b in g.calls:
        edges[a].add(b)

    def reach(k):
        seen, todo = set(), list(edges[k])
        while todo:
            x = todo.pop()
            if x not in seen:
                seen.add(x)
                todo.extend(edges[x])
        return seen
    reachable = {k: reach(k) for k in plain}
    recursive = {k for k in plain if k in reachable[k]}
    for k in recursive:
        if reachable[k] & recursive != {k}:
            raise TranslateError("%s: mutually recursive fns (%s)" % (FILES[plain[k][0]], k[1]))
    fuel = {k for k in plain if k in recursive or reachable[k] & recursive}
    sigs = signatures(fuel)
    g.sigs = sigs
    g.n = 0
    # emission order: callees first
    done, order = set(), []

    def visit(k):
        if k in done:
            return
        done.add(k)
        for c in sorted(edges[k]):
            if c != k:
                visit(c)
        order.append(k)
    for k in order_src:
        if k in plain:
            visit(k)
    out = ["(* GENERATED by tools/translate/t_symbolmap.py from crates/ide/src/symbol_map.rs and symbol_map/{record,record_field,"
           "template_arg,variable,defset,multiclass,defm,symbol}.rs -- do not edit *)",
           "From Coq Require Import List NArith Bool.", "From TG.Model Require Import Chars SymbolMap SymbolMapSrc.",
           "Import ListNotations.", "Open Scope N_scope.", ""]
    for k in order:
        mod, trait, fn = plain[k]
        g.fname = FILES[mod]
        coq, params, ret, flavor, byref, fl = sigs[k]
        out.append("(* %s: %s::%s *)" % (FILES[mod], k[0], k[1]))
        out.append(g.emit_fn(k[0], fn, coq, (params, ret, flavor, byref), fl, k in recursive, {k} if k in recursive else set()))
    out.append("(* translated: %s *)" % ", ".join("%s::%s" % k for k in order_src if k in plain))
    out.append("(* not read (modelled contract): %s *)" % ", ".join(mods["symbol_map"]["skipped"]))
    return {"GenSymbolMap.v": "\n".join(out)}


if __name__ == "__main__":
    import sys
    print(translate(sys.argv[1] if len(sys.argv) > 1 else "/repo")["GenSymbolMap.v"])
