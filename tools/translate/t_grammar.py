"""T-grammar: crates/syntax/src/grammar.rs + grammar/{statement,value,type}.rs -> GenGrammar.v

Reads the rigid Rust subset the grammar files are written in (DESIGN Appendix C) with a hand-written
tokenizer + recursive-descent parser and emits every grammar function as a term of the DSL of
coq/model/GInterp.v.  Higher-order / constant-parameter helpers (delimited, value_list,
statement_list) are monomorphised per distinct tuple of constant arguments.  Anything outside the
subset raises TranslateError naming file and line (a broken tie, never silently skipped)."""
import re
from rsutil import TranslateError, read, strip_comments, cut_tests, coq_string_lit
import t_tokens

FILES = [("grammar", "crates/syntax/src/grammar.rs"),
         ("statement", "crates/syntax/src/grammar/statement.rs"),
         ("value", "crates/syntax/src/grammar/value.rs"),
         ("type", "crates/syntax/src/grammar/type.rs")]

# ----------------------------------------------------------------------------- tokenizer

PUNCT = ["::", "->", "=>", "&&", "||", "==", "!=", "(", ")", "{", "}", "[", "]", "<", ">", ",", ";", ":", ".",
         "=", "!", "&", "*", "|", "#", "'"]


class Tok:
    def __init__(self, kind, val, line):
        self.kind, self.val, self.line = kind, val, line

    def __repr__(self):
        return "%s:%r@%d" % (self.kind, self.val, self.line)


def tokenize(src, fname):
    toks, i, n, line = [], 0, len(src), 1
    while i < n:
        c = src[i]
        if c == "\n":
            line += 1
            i += 1
        elif c.isspace():
            i += 1
        elif src.startswith("T![", i):
            j = i + 3
            if src[j] == "'":
                m = re.match(r"'(\\.|[^\\'])'", src[j:j + 4])
                if not m:
                    raise TranslateError("%s:%d: bad T![..]" % (fname, line))
                key = m.group(0)
                j += len(key)
            else:
                k = src.index("]", j)
                key = src[j:k].strip()
                j = k
            if src[j] != "]":
                raise TranslateError("%s:%d: bad T![..]" % (fname, line))
            toks.append(Tok("TMAC", key, line))
            i = j + 1
        elif c == '"':
            j = i + 1
            while src[j] != '"':
                j += 2 if src[j] == "\\" else 1
            toks.append(Tok("STR", src[i + 1:j], line))
            i = j + 1
        elif c == "'" and re.match(r"'(\\.|[^\\'])'", src[i:i + 4]):
            m = re.match(r"'(\\.|[^\\'])'", src[i:i + 4])
            toks.append(Tok("CHAR", m.group(1), line))
            i += len(m.group(0))
        elif c == "'" and re.match(r"'[a-z_]+", src[i:]):      # lifetime
            m = re.match(r"'[a-z_]+", src[i:])
            toks.append(Tok("LIFETIME", m.group(0), line))
            i += len(m.group(0))
        elif c.isalpha() or c == "_":
            m = re.match(r"(r#)?[A-Za-z_][A-Za-z0-9_]*", src[i:])
            v = m.group(0)
            toks.append(Tok("RAWID" if v.startswith("r#") else "ID", v[2:] if v.startswith("r#") else v, line))
            i += len(m.group(0))
        elif c.isdigit():
            m = re.match(r"[0-9]+", src[i:])
            toks.append(Tok("NUM", m.group(0), line))
            i += len(m.group(0))
        else:
            for p in PUNCT:
                if src.startswith(p, i):
                    toks.append(Tok("P", p, line))
                    i += len(p)
                    break
            else:
                raise TranslateError("%s:%d: unexpected character %r" % (fname, line, c))
    toks.append(Tok("EOF", None, line))
    return toks


# ----------------------------------------------------------------------------- parser (Rust subset -> AST tuples)

class P:
    def __init__(self, toks, fname):
        self.t, self.i, self.f = toks, 0, fname

    def peek(self, k=0):
        return self.t[self.i + k]

    def err(self, msg):
        tk = self.peek()
        raise TranslateError("%s:%d: %s (at %r)" % (self.f, tk.line, msg, tk.val))

    def isp(self, v, k=0):
        tk = self.peek(k)
        return tk.kind == "P" and tk.val == v

    def isid(self, v=None, k=0):
        tk = self.peek(k)
        if tk.kind == "RAWID":
            return v is None
        return tk.kind == "ID" and (v is None or tk.val == v)

    def eat(self):
        tk = self.t[self.i]
        self.i += 1
        return tk

    def expect_p(self, v):
        if not self.isp(v):
            self.err("expected %r" % v)
        return self.eat()

    def expect_id(self, v=None):
        if not self.isid(v):
            self.err("expected identifier %s" % (v or ""))
        return self.eat().val

    # ---- items
    def items(self):
        fns, consts, enums = {}, {}, {}
        while self.peek().kind != "EOF":
            # attributes
            while self.isp("#"):
                self.eat()
                self.expect_p("[")
                depth = 1
                while depth:
                    tk = self.eat()
                    if tk.kind == "P" and tk.val == "[":
                        depth += 1
                    elif tk.kind == "P" and tk.val == "]":
                        depth -= 1
            self.vis()
            if self.isid("use"):
                self.skip_to_semi()
            elif self.isid("mod"):
                self.skip_to_semi()
            elif self.isid("const"):
                self.eat()
                name = self.expect_id()
                self.expect_p(":")
                self.expect_p("[")
                self.expect_id("TokenKind")
                self.expect_p(";")
                self.eat()
                self.expect_p("]")
                self.expect_p("=")
                arr = self.expr()
                self.expect_p(";")
                if arr[0] != "array":
                    self.err("const must be an array")
                consts[name] = arr[1]
            elif self.isid("enum"):
                self.eat()
                name = self.expect_id()
                self.expect_p("{")
                vs = []
                while not self.isp("}"):
                    vs.append(self.expect_id())
                    if self.isp(","):
                        self.eat()
                self.expect_p("}")
                enums[name] = vs
            elif self.isid("fn"):
                fn = self.fn()
                fns[fn["name"]] = fn
            else:
                self.err("unsupported item")
        return fns, consts, enums

    def vis(self):
        if self.isid("pub"):
            self.eat()
            if self.isp("("):
                self.eat()
                self.expect_id()
                self.expect_p(")")

    def skip_to_semi(self):
        depth = 0
        while True:
            tk = self.eat()
            if tk.kind == "EOF":
                self.err("unterminated item")
            if tk.kind == "P" and tk.val == "{":
                depth += 1
            if tk.kind == "P" and tk.val == "}":
                depth -= 1
            if tk.kind == "P" and tk.val == ";" and depth == 0:
                return

    def fn(self):
        line = self.peek().line
        self.expect_id("fn")
        name = self.expect_id()
        if self.isp("<"):          # generics <F>
            self.eat()
            self.expect_id()
            self.expect_p(">")
        self.expect_p("(")
        params = []
        while not self.isp(")"):
            if self.isid("mut"):
                self.eat()
            pname = self.expect_id()
            self.expect_p(":")
            ty = self.type_()
            params.append((pname, ty))
            if self.isp(","):
                self.eat()
        self.expect_p(")")
        ret = None
        if self.isp("->"):
            self.eat()
            ret = self.type_()
        if self.isid("where"):
            while not self.isp("{"):
                self.eat()
        body = self.block()
        if not params or params[0][0] != "p":
            self.err("fn %s: first parameter must be `p`" % name)
        return {"name": name, "params": params[1:], "ret": ret, "body": body, "line": line}

    def type_(self):
        out = []
        depth = 0
        while True:
            tk = self.peek()
            if tk.kind == "P" and tk.val in ("<", "("):
                depth += 1
            elif tk.kind == "P" and tk.val in (">", ")"):
                if depth == 0:
                    break
                depth -= 1
            elif tk.kind == "P" and tk.val in (",", "{", "=", ";") and depth == 0:
                break
            elif tk.kind == "ID" and tk.val == "where" and depth == 0:
                break
            elif tk.kind == "EOF":
                self.err("bad type")
            out.append(str(self.eat().val))
        return " ".join(out)

    # ---- blocks and statements
    def block(self):
        self.expect_p("{")
        stmts = []
        while not self.isp("}"):
            stmts.append(self.stmt())
        self.expect_p("}")
        return ("block", stmts)

    def stmt(self):
        """returns ("stmt", ast, has_semi)"""
        line = self.peek().line
        if self.isid("let"):
            self.eat()
            if self.isid("mut"):
                self.eat()
            x = self.expect_id()
            self.expect_p("=")
            e = self.expr()
            self.expect_p(";")
            return ("let", x, e, line)
        if self.isid("return"):
            self.eat()
            e = None
            if not self.isp(";"):
                e = self.expr()
            self.expect_p(";")
            return ("return", e, line)
        if self.isid("break"):
            self.eat()
            self.expect_p(";")
            return ("break", line)
        if self.isid("while"):
            self.eat()
            c = self.expr(no_struct=True)
            b = self.block()
            return ("while", c, b, line)
        if self.isp("*") and self.peek(1).kind in ("ID", "RAWID") and self.isp("=", 2):
            self.eat()
            x = self.expect_id()
            self.expect_p("=")
            e = self.expr()
            self.expect_p(";")
            return ("assign", x, e, line)
        if self.peek().kind in ("ID", "RAWID") and self.isp("=", 1) and not self.isp("=", 2):
            x = self.expect_id()
            self.expect_p("=")
            e = self.expr()
            self.expect_p(";")
            return ("assign", x, e, line)
        e = self.expr()
        semi = False
        if self.isp(";"):
            self.eat()
            semi = True
        elif e[0] not in ("if", "match", "block") and not self.isp("}"):
            self.err("expected ';'")
        return ("expr", e, semi, line)

    # ---- expressions
    def expr(self, no_struct=False):
        return self.or_()

    def or_(self):
        a = self.and_()
        while self.isp("||"):
            self.eat()
            b = self.and_()
            a = ("or", a, b)
        return a

    def and_(self):
        a = self.unary()
        while self.isp("&&"):
            self.eat()
            b = self.unary()
            a = ("and", a, b)
        return a

    def unary(self):
        if self.isp("!"):
            self.eat()
            return ("not", self.unary())
        if self.isp("*"):
            self.eat()
            return ("deref", self.unary())
        if self.isp("&"):
            self.eat()
            mut = False
            if self.isid("mut"):
                self.eat()
                mut = True
            return ("ref", mut, self.unary())
        return self.postfix()

    def postfix(self):
        e = self.primary()
        while True:
            if self.isp("."):
                self.eat()
                m = self.expect_id()
                self.expect_p("(")
                args = self.args()
                e = ("method", e, m, args, self.peek().line)
            elif self.isp("("):
                self.eat()
                args = self.args()
                e = ("call", e, args, self.peek().line)
            else:
                return e

    def args(self):
        a = []
        while not self.isp(")"):
            a.append(self.expr())
            if self.isp(","):
                self.eat()
        self.expect_p(")")
        return a

    def primary(self):
        tk = self.peek()
        if tk.kind == "TMAC":
            self.eat()
            return ("tmac", tk.val, tk.line)
        if tk.kind == "STR":
            self.eat()
            return ("str", tk.val)
        if tk.kind == "RAWID":
            path = [self.eat().val]
            while self.isp("::"):
                self.eat()
                path.append(self.expect_id())
            return ("path", path, tk.line)
        if tk.kind == "ID":
            if tk.val == "if":
                return self.if_()
            if tk.val == "match":
                return self.match_()
            if tk.val in ("true", "false"):
                self.eat()
                return ("bool", tk.val == "true")
            path = [self.eat().val]
            while self.isp("::"):
                self.eat()
                path.append(self.expect_id())
            return ("path", path, tk.line)
        if tk.kind == "P" and tk.val == "(":
            self.eat()
            e = self.expr()
            self.expect_p(")")
            return e
        if tk.kind == "P" and tk.val == "[":
            self.eat()
            elems = []
            while not self.isp("]"):
                elems.append(self.expr())
                if self.isp(","):
                    self.eat()
            self.expect_p("]")
            return ("array", elems)
        if tk.kind == "P" and tk.val == "|":
            self.eat()
            self.expect_id("p")
            self.expect_p("|")
            if self.isp("{"):
                b = self.block()
            else:
                b = ("block", [("expr", self.expr(), False, tk.line)])
            return ("closure", b)
        if tk.kind == "P" and tk.val == "||":
            self.err("unsupported closure form")
        if tk.kind == "P" and tk.val == "{":
            return self.block()
        self.err("unsupported expression")

    def if_(self):
        line = self.peek().line
        self.expect_id("if")
        c = self.expr(no_struct=True)
        a = self.block()
        b = None
        if self.isid("else"):
            self.eat()
            if self.isid("if"):
                b = ("block", [("expr", self.if_(), False, line)])
            else:
                b = self.block()
        return ("if", c, a, b, line)

    def match_(self):
        line = self.peek().line
        self.expect_id("match")
        scrut = self.expr(no_struct=True)
        self.expect_p("{")
        arms = []
        while not self.isp("}"):
            pats = [self.pattern()]
            while self.isp("|"):
                self.eat()
                pats.append(self.pattern())
            guard = None
            if self.isid("if"):
                self.eat()
                guard = self.expr()
            self.expect_p("=>")
            if self.isp("{"):
                body = self.block()
                if self.isp(","):
                    self.eat()
            elif self.isid("return"):
                self.eat()
                e = None
                if not (self.isp(",") or self.isp("}")):
                    e = self.expr()
                body = ("block", [("return", e, line)])
                if self.isp(","):
                    self.eat()
            else:
                body = ("block", [("expr", self.expr(), False, line)])
                if self.isp(","):
                    self.eat()
                elif not self.isp("}"):
                    self.err("expected ',' after match arm")
            arms.append((pats, guard, body))
        self.expect_p("}")
        return ("match", scrut, arms, line)

    def pattern(self):
        tk = self.peek()
        if tk.kind == "TMAC":
            self.eat()
            return ("tmac", tk.val, tk.line)
        if tk.kind == "ID":
            path = [self.eat().val]
            while self.isp("::"):
                self.eat()
                path.append(self.expect_id())
            if path == ["_"]:
                return ("wild",)
            if len(path) == 1:
                return ("bind", path[0])
            return ("path", path, tk.line)
        self.err("unsupported pattern")


# ----------------------------------------------------------------------------- AST -> DSL

class Gen:
    def __init__(self, repo):
        self.tok = t_tokens.parse(repo)
        self.T = self.tok["T"]
        self.fns, self.consts, self.enums, self.where = {}, {}, {}, {}
        for mod, rel in FILES:
            src = cut_tests(strip_comments(read(repo, rel)))
            fns, consts, enums = P(tokenize(src, rel), rel).items()
            for k, v in fns.items():
                if k in self.fns:
                    raise TranslateError("duplicate fn %s" % k)
                v["file"] = rel
                self.fns[k] = v
            self.consts.update(consts)
            self.enums.update(enums)
        self.closures = {}
        self.closure_env = {}     # capturing closures: key -> context they were written in
        self.instances = {}       # key -> index
        self.order = []           # (name, expr_text)
        self.bodies = {}
        self.msgs = set()

    def fail(self, fn, line, msg):
        raise TranslateError("%s:%s: %s" % (fn["file"], line, msg))

    # constants ---------------------------------------------------------
    def kind_const(self, e, ctx):
        """expression denoting a TokenKind constant -> variant name"""
        if e[0] == "tmac":
            if e[1] not in self.T:
                raise TranslateError("T![%s] unknown (line %s)" % (e[1], e[2]))
            return self.T[e[1]]
        if e[0] == "path":
            p = e[1]
            if len(p) == 2 and p[0] == "TokenKind":
                if p[1] not in self.tok["tks"]:
                    raise TranslateError("TokenKind::%s unknown" % p[1])
                return p[1]
            if len(p) == 1 and p[0] in ctx["consts"] and ctx["consts"][p[0]][0] == "kind":
                return ctx["consts"][p[0]][1]
        raise TranslateError("%s: expected a TokenKind constant, got %r" % (ctx["fn"]["name"], e))

    def kind_set(self, e, ctx):
        if e[0] == "ref":
            e = e[2]
        if e[0] == "array":
            return [self.kind_const(x, ctx) for x in e[1]]
        if e[0] == "path":
            name = e[1][-1]
            if name in self.consts:
                return [self.kind_const(x, ctx) for x in self.consts[name]]
        raise TranslateError("%s: unsupported kind set %r" % (ctx["fn"]["name"], e))

    def syntax_kind(self, e, ctx):
        if e[0] == "method" and e[2] == "into" and not e[3]:
            e = e[1]
        if e[0] == "path" and len(e[1]) == 2 and e[1][0] == "SyntaxKind":
            if e[1][1] not in self.tok["sks"]:
                raise TranslateError("SyntaxKind::%s unknown" % e[1][1])
            return e[1][1]
        raise TranslateError("%s: expected SyntaxKind::X, got %r" % (ctx["fn"]["name"], e))

    def msg(self, e, ctx):
        if e[0] != "str":
            raise TranslateError("%s: message must be a string literal, got %r" % (ctx["fn"]["name"], e))
        self.msgs.add(e[1])
        return "(MLit %s)" % coq_string_lit(e[1])

    # instances -----------------------------------------------------------
    def instance(self, name, cargs):
        """cargs: tuple of constant args (hashable descriptors); returns function index"""
        key = (name, cargs)
        if key in self.instances:
            return self.instances[key]
        if name not in self.fns:
            raise TranslateError("call to unknown function %s" % name)
        fn = self.fns[name]
        idx = len(self.order)
        self.instances[key] = idx
        suffix = ""
        for c in cargs:
            if c[0] == "kind":
                suffix += "_" + c[1]
            elif c[0] == "enum":
                suffix += "_" + c[1]
            elif c[0] == "fn":
                suffix += "_" + c[1]
            elif c[0] == "closure":
                import hashlib
                suffix += "_closure" + hashlib.sha256(c[1].encode()).hexdigest()[:4]
        self.order.append([name + suffix, None])
        # bind params
        consts, locals_ = {}, []
        ci = 0
        runtime = None
        for (pname, pty) in fn["params"]:
            if "Checkpoint" in pty or "& mut bool" in pty or "&mut bool" in pty.replace(" ", "") and False:
                pass
            if pty.replace(" ", "") in ("Checkpoint", "&mutbool"):
                if runtime is not None:
                    raise TranslateError("fn %s: more than one run-time parameter" % name)
                runtime = pname
                locals_.append(pname)
            else:
                if ci >= len(cargs):
                    raise TranslateError("fn %s: parameter %s has no constant argument" % (name, pname))
                consts[pname] = cargs[ci]
                ci += 1
        ctx = {"fn": fn, "consts": consts, "locals": locals_, "name": name + suffix}
        body = self.block(fn["body"], ctx, tail=True)
        self.order[idx][1] = body
        self.order[idx].append(len(ctx["locals"]))
        return idx

    # statements --------------------------------------------------------------
    def local(self, x, ctx, create=False):
        x = ctx.get("prefix", "") + x        # locals of an inlined helper live in the caller's frame under a prefix
        if x in ctx["locals"]:
            return ctx["locals"].index(x)
        if create:
            ctx["locals"].append(x)
            return len(ctx["locals"]) - 1
        raise TranslateError("%s: unknown local %s" % (ctx["name"], x))

    def is_local(self, x, ctx):
        return (ctx.get("prefix", "") + x) in ctx["locals"]

    @staticmethod
    def _walk(t):
        yield t
        if isinstance(t, (tuple, list)):
            for y in t:
                for z in Gen._walk(y):
                    yield z

    def captures(self, closure_body, ctx):
        """locals of the enclosing function that a closure body mentions"""
        return sorted({n[1][0] for n in self._walk(closure_body)
                       if isinstance(n, tuple) and len(n) >= 2 and n[0] == "path" and isinstance(n[1], list)
                       and len(n[1]) == 1 and self.is_local(n[1][0], ctx)})

    def inline_call(self, name, cargs, ctx, line):
        """a private helper called with a closure that captures locals of the caller (e.g.
        `comma_separated(p, |p| arg_value(p, &mut has_named_arg))`) cannot become a DSL function of its own (a DSL
        function has its own frame): its body is inlined at the call site, its own locals renamed into the caller's
        frame, the closure evaluated in the caller's context.  Refused if the helper contains `return` (it would leave
        the caller) or has a run-time parameter."""
        fn = self.fns[name]
        if any(isinstance(n, tuple) and n and n[0] == "return" for n in self._walk(fn["body"])):
            self.fail(ctx["fn"], line, "cannot inline helper %s (called with a capturing closure): it contains `return`" % name)
        consts, ci = {}, 0
        for (pname, pty) in fn["params"]:
            if pty.replace(" ", "") in ("Checkpoint", "&mutbool"):
                self.fail(ctx["fn"], line, "cannot inline helper %s: run-time parameter %s" % (name, pname))
            if ci >= len(cargs):
                raise TranslateError("fn %s: parameter %s has no constant argument" % (name, pname))
            consts[pname] = cargs[ci]
            ci += 1
        self.ninline = getattr(self, "ninline", 0) + 1
        ictx = {"fn": fn, "consts": consts, "locals": ctx["locals"], "name": ctx["name"] + "<inlined %s>" % name,
                "prefix": "%s#%d#" % (name, self.ninline)}
        body = self.block(fn["body"], ictx, tail=True)
        return body

    def block(self, b, ctx, tail):
        """translate a block to an expr; value = last expression without ';' (else unit)"""
        stmts = b[1]
        out = []
        for i, s in enumerate(stmts):
            last = i == len(stmts) - 1
            out.append(self.stmt(s, ctx, last))
        if not out:
            return "(EB true)"
        # if the last statement has a ';' (or is a loop/let) the block's value is unit
        last = stmts[-1]
        unit_tail = not (last[0] == "expr" and not last[2])
        e = out[-1]
        if unit_tail and last[0] not in ("return", "break"):
            e = "(ESeq %s (EB true))" % e
        for prev in reversed(out[:-1]):
            e = "(ESeq %s %s)" % (prev, e)
        return e

    def stmt(self, s, ctx, last):
        k = s[0]
        if k == "let":
            x = self.local(s[1], ctx, create=True)
            return "(ESet %d %s)" % (x, self.expr(s[2], ctx))
        if k == "assign":
            x = self.local(s[1], ctx)
            return "(ESet %d %s)" % (x, self.expr(s[2], ctx))
        if k == "return":
            return "(EReturn %s)" % ("(EB true)" if s[1] is None else self.expr(s[1], ctx))
        if k == "break":
            return "EBreak"
        if k == "while":
            return "(EWhile %s %s)" % (self.expr(s[1], ctx), self.block(s[2], ctx, tail=False))
        if k == "expr":
            return self.expr(s[1], ctx)
        raise TranslateError("unsupported statement %r" % (s,))

    # expressions ---------------------------------------------------------------
    def expr(self, e, ctx):
        k = e[0]
        fn = ctx["fn"]
        if k == "bool":
            return "(EB %s)" % ("true" if e[1] else "false")
        if k == "not":
            return "(ENot %s)" % self.expr(e[1], ctx)
        if k == "or":
            return "(EIf %s (EB true) %s)" % (self.expr(e[1], ctx), self.expr(e[2], ctx))
        if k == "and":
            return "(EIf %s %s (EB false))" % (self.expr(e[1], ctx), self.expr(e[2], ctx))
        if k == "deref":
            return self.expr(e[1], ctx)
        if k == "block":
            return self.block(e, ctx, tail=True)
        if k == "if":
            a = self.block(e[2], ctx, tail=True)
            b = "(EB true)" if e[3] is None else self.block(e[3], ctx, tail=True)
            return "(EIf %s %s %s)" % (self.expr(e[1], ctx), a, b)
        if k == "match":
            return self.match(e, ctx)
        if k == "path":
            p = e[1]
            if p == ["CompletedMarker", "Success"]:
                return "(EB true)"
            if p == ["CompletedMarker", "Fail"]:
                return "(EB false)"
            if len(p) == 1 and self.is_local(p[0], ctx):
                return "(EVar %d)" % self.local(p[0], ctx)
            self.fail(fn, e[2], "unsupported path expression %s" % "::".join(p))
        if k == "call":
            return self.call(e, ctx)
        if k == "method":
            return self.method(e, ctx)
        self.fail(fn, "?", "unsupported expression %r" % (e,))

    def const_arg(self, a, ctx):
        """classify a call argument: ('kind',X) | ('enum',V) | ('fn',name) | ('closure',ast) | ('var',name,byref)"""
        if a[0] == "tmac":
            return ("kind", self.kind_const(a, ctx))
        if a[0] == "closure":
            return ("closure", a[1])
        if a[0] == "ref" and a[1] and a[2][0] == "path" and len(a[2][1]) == 1:
            return ("var", a[2][1][0], True)
        if a[0] == "path":
            p = a[1]
            if len(p) == 2 and p[0] == "TokenKind":
                return ("kind", self.kind_const(a, ctx))
            if len(p) == 2 and p[0] in self.enums and p[1] in self.enums[p[0]]:
                return ("enum", p[1])
            if len(p) == 1 and p[0] in ctx["consts"]:
                return ctx["consts"][p[0]]
            if len(p) == 1 and self.is_local(p[0], ctx):
                return ("var", p[0], False)
            if p[-1] in self.fns:
                return ("fn", p[-1])
        raise TranslateError("%s: unsupported call argument %r" % (ctx["name"], a))

    def call(self, e, ctx):
        callee, args = e[1], e[2]
        fn = ctx["fn"]
        if callee[0] != "path":
            self.fail(fn, e[3], "unsupported callee")
        name = callee[1][-1]
        if not args or not (args[0][0] == "path" and args[0][1] == ["p"]):
            self.fail(fn, e[3], "first argument of %s must be p" % name)
        rest = args[1:]
        # a constant parameter holding a callable (delimited's `parser`)
        if len(callee[1]) == 1 and name in ctx["consts"]:
            c = ctx["consts"][name]
            if rest:
                self.fail(fn, e[3], "callable parameter with extra arguments")
            if c[0] == "fn":
                return "(ECall %d None)" % self.instance(c[1], ())
            if c[0] == "closure":
                if c[1] in self.closure_env:            # a capturing closure: evaluated where it was written
                    return self.block(self.closures[c[1]], self.closure_env[c[1]], tail=True)
                cctx = {"fn": fn, "consts": {}, "locals": ctx["locals"], "name": ctx["name"] + "<closure>",
                        "prefix": ctx.get("prefix", "")}
                return self.block(self.closures[c[1]], cctx, tail=True)
            self.fail(fn, e[3], "parameter %s is not callable" % name)
        cargs, var, capturing = [], None, False
        for a in rest:
            c = self.const_arg(a, ctx)
            if c[0] == "var":
                if var is not None:
                    self.fail(fn, e[3], "more than one run-time argument")
                var = c
            else:
                if c[0] == "closure" and not isinstance(c[1], str):
                    body = c[1]
                    if self.captures(body, ctx):
                        self.ncap = getattr(self, "ncap", 0) + 1
                        key = "cap%d:%s" % (self.ncap, repr(body))
                        self.closure_env[key] = ctx
                        capturing = True
                    else:
                        key = repr(body)
                    self.closures[key] = body
                    c = ("closure", key)
                elif c[0] == "closure" and c[1] in self.closure_env:
                    capturing = True
                cargs.append(c)
        if capturing:
            if var is not None:
                self.fail(fn, e[3], "capturing closure together with a run-time argument")
            if name not in self.fns:
                raise TranslateError("call to unknown function %s" % name)
            return self.inline_call(name, tuple(cargs), ctx, e[3])
        idx = self.instance(name, tuple(cargs))
        if var is None:
            return "(ECall %d None)" % idx
        return "(ECall %d (Some (%d, %s)))" % (idx, self.local(var[1], ctx), "true" if var[2] else "false")

    def method(self, e, ctx):
        recv, m, args, line = e[1], e[2], e[3], e[4]
        fn = ctx["fn"]
        isp = recv[0] == "path" and recv[1] == ["p"]
        is_builder = recv[0] == "method" and recv[2] == "builder" and recv[1][0] == "path" and recv[1][1] == ["p"]
        if isp or is_builder:
            if m == "start_node" and isp:
                return "(EPrim (PStartNode S_%s))" % self.syntax_kind(args[0], ctx)
            if m == "finish_node" and isp:
                return "(EPrim PFinishNode)"
            if m == "checkpoint" and not args:
                return "(EPrim PCheckpoint)"
            if m == "start_node_at":
                if args[0][0] != "path" or len(args[0][1]) != 1:
                    self.fail(fn, line, "start_node_at: checkpoint must be a local")
                return "(EPrim (PStartNodeAt %d S_%s))" % (self.local(args[0][1][0], ctx), self.syntax_kind(args[1], ctx))
            if not isp:
                self.fail(fn, line, "unsupported builder call %s" % m)
            if m == "assert":
                return "(EPrim (PAssert T_%s))" % self.kind_const(args[0], ctx)
            if m == "expect":
                k = self.kind_const(args[0], ctx)
                return "(EPrim (PExpect T_%s (MExpected T_%s)))" % (k, k)
            if m == "expect_with_msg":
                return "(EPrim (PExpect T_%s %s))" % (self.kind_const(args[0], ctx), self.msg(args[1], ctx))
            if m == "eat" and not args:
                return "(EPrim PEat)"
            if m == "eat_if":
                return "(EPrim (PEatIf T_%s))" % self.kind_const(args[0], ctx)
            if m == "skip" and not args:
                return "(EPrim PSkip)"
            if m == "error":
                return "(EPrim (PError %s))" % self.msg(args[0], ctx)
            if m == "error_and_eat":
                return "(EPrim (PErrorAndEat %s))" % self.msg(args[0], ctx)
            if m == "error_and_recover":
                return "(EPrim (PErrorAndRecover %s))" % self.msg(args[0], ctx)
            if m == "at":
                return "(EPrim (PAtSet [T_%s]))" % self.kind_const(args[0], ctx)
            if m == "at_set":
                return "(EPrim (PAtSet [%s]))" % "; ".join("T_" + x for x in self.kind_set(args[0], ctx))
            if m == "eof" and not args:
                return "(EPrim (PAtSet [T_Eof]))"
            self.fail(fn, line, "unsupported parser method %s" % m)
        # p.peek().is_bang_operator()
        if recv[0] == "method" and recv[2] == "peek" and recv[1][0] == "path" and recv[1][1] == ["p"]:
            if m == "is_bang_operator":
                return "(EPrim (PAtSet bang_kinds))"
            if m == "is_cond_operator":
                return "(EPrim (PAtSet cond_kinds))"
        if m == "or_error":
            if not (args and args[0][0] == "path" and args[0][1] == ["p"]):
                self.fail(fn, line, "or_error: first argument must be p")
            return "(EIf %s (EB true) (EPrim (PError %s)))" % (self.expr(recv, ctx), self.msg(args[1], ctx))
        if m == "is_success" and not args:
            return self.expr(recv, ctx)
        self.fail(fn, line, "unsupported method call .%s" % m)

    def match(self, e, ctx):
        scrut, arms, line = e[1], e[2], e[3]
        fn = ctx["fn"]
        # match on a constant enum parameter (StatementListType)
        if scrut[0] == "path" and len(scrut[1]) == 1 and scrut[1][0] in ctx["consts"] and ctx["consts"][scrut[1][0]][0] == "enum":
            v = ctx["consts"][scrut[1][0]][1]
            for pats, guard, body in arms:
                for p in pats:
                    if p[0] == "path" and p[1][-1] == v:
                        return self.block(body, ctx, tail=True)
            self.fail(fn, line, "no arm for %s" % v)
        if not (scrut[0] == "method" and scrut[2] == "peek" and scrut[1][0] == "path" and scrut[1][1] == ["p"]):
            self.fail(fn, line, "match scrutinee must be p.peek() or a constant enum parameter")
        default = None
        conds = []
        for pats, guard, body in arms:
            if default is not None:
                self.fail(fn, line, "arm after the wildcard arm")
            if pats == [("wild",)] and guard is None:
                default = self.block(body, ctx, tail=True)
                continue
            if len(pats) == 1 and pats[0][0] == "bind" and guard is not None:
                g = guard
                if g[0] == "method" and g[1][0] == "path" and g[1][1] == [pats[0][1]] and not g[3]:
                    if g[2] == "is_bang_operator":
                        conds.append(("bang_kinds", self.block(body, ctx, tail=True)))
                        continue
                    if g[2] == "is_cond_operator":
                        conds.append(("cond_kinds", self.block(body, ctx, tail=True)))
                        continue
                self.fail(fn, line, "unsupported match guard")
            if guard is not None:
                self.fail(fn, line, "unsupported guarded arm")
            ks = [self.kind_const(p, ctx) for p in pats]
            conds.append(("[%s]" % "; ".join("T_" + x for x in ks), self.block(body, ctx, tail=True)))
        if default is None:
            self.fail(fn, line, "match without wildcard arm")
        out = default
        for ks, body in reversed(conds):
            out = "(EIf (EPrim (PAtSet %s)) %s %s)" % (ks, body, out)
        return out


def _freeze(x):
    if isinstance(x, list):
        return tuple(_freeze(y) for y in x)
    if isinstance(x, tuple):
        return tuple(_freeze(y) for y in x)
    return x


def translate(repo):
    g = Gen(repo)
    entry = g.instance("source_file", ())
    if "RECOVER_TOKENS" not in g.consts:
        raise TranslateError("RECOVER_TOKENS not found")
    ctx0 = {"fn": {"name": "<const>", "file": "grammar.rs"}, "consts": {}, "locals": [], "name": "<const>"}
    recover = [g.kind_const(x, ctx0) for x in g.consts["RECOVER_TOKENS"]]
    unused = sorted(set(g.fns) - {k[0] for k in g.instances})
    o = ["(* GENERATED by tools/translate/t_grammar.py from crates/syntax/src/grammar.rs and grammar/*.rs -- do not edit *)",
         "From Coq Require Import List NArith String.",
         "From TG.Gen Require Import GenTokens.",
         "From TG.Model Require Import Chars Lexer Prep Tree ParserPrims GInterp.",
         "Import ListNotations.", "Close Scope N_scope.", "Open Scope nat_scope.", "Open Scope string_scope.", "",
         "Definition bang_kinds : list TokenKind := filter is_bang_operator all_token_kinds.",
         "Definition cond_kinds : list TokenKind := filter is_cond_operator all_token_kinds.", ""]
    names = []
    for i, (name, body, nlocals) in enumerate(g.order):
        ident = "fn_%d_%s" % (i, re.sub(r"[^A-Za-z0-9_]", "_", name))
        names.append((ident, name))
        o.append("Definition %s : expr :=\n  %s.\n" % (ident, body))
    o.append("Definition grammar_fns : list expr :=\n  [ %s ].\n" % "\n  ; ".join(n for n, _ in names))
    o.append("Definition grammar_fn_names : list string :=\n  [ %s ].\n" % "; ".join(coq_string_lit(n) for _, n in names))
    o.append("Definition grammar_recover : list TokenKind := [%s].\n" % "; ".join("T_" + x for x in recover))
    o.append("Definition grammar_prog : prog := {| fns := grammar_fns; recover_tokens := grammar_recover |}.")
    o.append("Definition grammar_entry : nat := %d.\n" % entry)
    o.append("Definition grammar_messages : list string :=\n  [ %s ].\n" % "\n  ; ".join(coq_string_lit(m) for m in sorted(g.msgs)))
    o.append("(* functions of the grammar files not reachable from source_file: %s *)" % (", ".join(unused) or "none"))
    return {"GenGrammar.v": "\n".join(o)}
