"""T-ast: crates/syntax/src/ast.rs (the `asts!{...}` block and the three macros it expands through)
-> GenAst.v: the typed-accessor table.

  ast_enums : enum name -> member node kinds            (`Name [ A, B, ];`, can_cast = kind in the list)
  ast_nodes : node kind -> fields (name, target kinds, mode)
      `f: T,`      -> AChild      rowan::ast::support::child      = first child NODE whose kind casts to T
      `f: [T],`    -> AChildren   rowan::ast::support::children   = all child nodes whose kind casts to T, in order
      `f[i]: T,`   -> ANth i      children(..).nth(i)
  hand-written methods inside a struct body (`pub fn value(&self) ...`) are listed by name only.

The translator also verifies that the three macro definitions (`asts!`, `ast!`, `ast_field!`) have the
expected normalised text: their meaning (child / children / nth, can_cast by kind) is what the Coq
interpretation in model/AstAccess.v assumes, so an edit of a macro is a broken tie, not a silent drift."""
import re
from rsutil import TranslateError, read, strip_comments, cut_tests, matching_brace, coq_string_lit
import t_tokens

MACRO_EXPECT = {
    "asts": "()=>{};($name:ident$body:tt;$($rest:tt)*)=>{ast!($name$body);asts!($($rest)*);};",
    "ast_field": "()=>{};($field:ident:$ast:ident,$($rest:tt)*)=>{pubfn$field(&self)->Option<$ast>{rowan::ast::support::child(&self.0)}"
                 "ast_field!($($rest)*);};($field:ident:[$ast:ident],$($rest:tt)*)=>{pubfn$field(&self)->implIterator<Item=$ast>{"
                 "rowan::ast::support::children(&self.0)}ast_field!($($rest)*);};($field:ident[$index:tt]:$ast:ident,$($rest:tt)*)=>{"
                 "pubfn$field(&self)->Option<$ast>{rowan::ast::support::children(&self.0).nth($index)}ast_field!($($rest)*);};"
                 "($($item:item)*)=>{$($item)*}",
}
# the parts of `ast!` the model depends on
AST_MACRO_MUST_CONTAIN = [
    "fncan_cast(kind:SyntaxKind)->bool{kind==SyntaxKind::$name}",
    "fncast(node:SyntaxNode)->Option<Self>{matchnode.kind(){SyntaxKind::$name=>Some(Self(node)),_=>None,}}",
    "fncan_cast(kind:SyntaxKind)->bool{matches!(kind,$(SyntaxKind::$item)|*)}",
    "fncast(node:SyntaxNode)->Option<Self>{matchnode.kind(){$(SyntaxKind::$item=>$item::cast(node).map(Self::$item),)*_=>None,}}",
    "impl$name{ast_field!($($field)*);}",
]


def _norm(s):
    return re.sub(r"\s+", "", s)


def macro_body(src, name):
    m = re.search(r"macro_rules!\s*%s\s*\{" % name, src)
    if not m:
        raise TranslateError("ast.rs: macro %s! not found" % name)
    j = matching_brace(src, m.end() - 1)
    return src[m.end():j]


def parse(repo):
    tok = t_tokens.parse(repo)
    sks = set(tok["sks"])
    src = cut_tests(strip_comments(read(repo, "crates/syntax/src/ast.rs")))
    for name, expect in MACRO_EXPECT.items():
        got = _norm(macro_body(src, name))
        if got != expect:
            raise TranslateError("ast.rs: macro %s! changed (accessor semantics are interpreted from its text)\n got: %s" % (name, got))
    ab = _norm(macro_body(src, "ast"))
    for frag in AST_MACRO_MUST_CONTAIN:
        if frag not in ab:
            raise TranslateError("ast.rs: macro ast! no longer contains %r" % frag)
    m = re.search(r"\basts!\s*\{", src)
    if not m:
        raise TranslateError("ast.rs: asts!{} block not found")
    j = matching_brace(src, m.end() - 1)
    body = src[m.end():j]
    structs, enums, order = {}, {}, []
    i, n = 0, len(body)
    while True:
        while i < n and body[i].isspace():
            i += 1
        if i >= n:
            break
        mm = re.compile(r"([A-Za-z_][A-Za-z0-9_]*)\s*([\{\[])").match(body, i)
        if not mm:
            raise TranslateError("asts!: unsupported entry near %r" % body[i:i + 60])
        name, br = mm.group(1), mm.group(2)
        k = mm.end() - 1
        e = matching_brace(body, k, br, "}" if br == "{" else "]")
        inner = body[k + 1:e]
        rest = re.compile(r"\s*;").match(body, e + 1)
        if not rest:
            raise TranslateError("asts!: entry %s not terminated by ';'" % name)
        i = rest.end()
        if name in structs or name in enums:
            raise TranslateError("asts!: duplicate entry %s" % name)
        if name not in sks and br == "{":
            raise TranslateError("asts!: struct %s is not a SyntaxKind" % name)
        order.append(name)
        if br == "[":
            items = [x.strip() for x in inner.split(",")]
            if items and items[-1] == "":
                items = items[:-1]
            else:
                raise TranslateError("asts!: enum %s: every item must be followed by ','" % name)
            for it in items:
                if not re.fullmatch(r"[A-Za-z_][A-Za-z0-9_]*", it) or it not in sks:
                    raise TranslateError("asts!: enum %s: item %r is not a SyntaxKind" % (name, it))
            enums[name] = items
        else:
            structs[name] = parse_fields(name, inner)
    # resolve targets
    for s, (fields, _methods) in structs.items():
        for f in fields:
            t = f["target"]
            if t in enums:
                f["kinds"] = list(enums[t])
            elif t in structs:
                f["kinds"] = [t]
            else:
                raise TranslateError("asts!: %s.%s: unknown target type %s" % (s, f["name"], t))
    return {"structs": structs, "enums": enums, "order": order, "tok": tok}


FIELD = re.compile(r"\s*((?:r#)?[A-Za-z_][A-Za-z0-9_]*)\s*(?:\[\s*([0-9]+)\s*\])?\s*:\s*(\[\s*[A-Za-z_][A-Za-z0-9_]*\s*\]|[A-Za-z_][A-Za-z0-9_]*)\s*,")
METHOD = re.compile(r"\s*pub\s+fn\s+([A-Za-z_][A-Za-z0-9_]*)\s*\(")


def parse_fields(owner, inner):
    fields, methods = [], []
    i, n = 0, len(inner)
    seen = set()
    while True:
        while i < n and inner[i].isspace():
            i += 1
        if i >= n:
            break
        mm = METHOD.match(inner, i)
        if mm:
            # `ast_field!` falls into its last arm ($($item:item)*) for the rest of the body: only items may follow
            p = inner.index("{", matching_brace(inner, mm.end() - 1, "(", ")"))
            i = matching_brace(inner, p) + 1
            methods.append(mm.group(1))
            continue
        if methods:
            raise TranslateError("asts!: %s: accessor field after a hand-written method near %r" % (owner, inner[i:i + 40]))
        fm = FIELD.match(inner, i)
        if not fm:
            raise TranslateError("asts!: %s: unsupported field syntax near %r" % (owner, inner[i:i + 60]))
        fname, idx, tgt = fm.group(1), fm.group(2), fm.group(3)
        fname = fname[2:] if fname.startswith("r#") else fname
        if fname in seen:
            raise TranslateError("asts!: %s: duplicate field %s" % (owner, fname))
        seen.add(fname)
        if tgt.startswith("["):
            if idx is not None:
                raise TranslateError("asts!: %s.%s: indexed list accessor" % (owner, fname))
            fields.append({"name": fname, "target": tgt.strip("[] \t\n"), "mode": "children"})
        elif idx is not None:
            fields.append({"name": fname, "target": tgt, "mode": "nth", "index": int(idx)})
        else:
            fields.append({"name": fname, "target": tgt, "mode": "child"})
        i = fm.end()
    return fields, methods


def translate(repo):
    d = parse(repo)
    o = ["(* GENERATED by tools/translate/t_ast.py from crates/syntax/src/ast.rs -- do not edit *)",
         "From Coq Require Import List NArith String.", "From TG.Gen Require Import GenTokens.",
         "Import ListNotations.", "Local Open Scope string_scope.", "",
         "Inductive acc_mode := AChild | AChildren | ANth (i : nat).", "",
         "(* enum name -> member node kinds (can_cast = membership) *)",
         "Definition ast_enums : list (string * list SyntaxKind) :=\n  [ %s ].\n" % "\n  ; ".join(
             "(%s, [%s])" % (coq_string_lit(e), "; ".join("S_" + k for k in d["enums"][e]))
             for e in d["order"] if e in d["enums"]),
         "(* node kind -> accessors: (field name, kinds the target type casts from, mode) *)",
         "Definition ast_nodes : list (SyntaxKind * list (string * list SyntaxKind * acc_mode)) :=\n  [ %s ].\n" % "\n  ; ".join(
             "(S_%s, [%s])" % (s, "; ".join(
                 "(%s, [%s], %s) (* : %s *)" % (coq_string_lit(f["name"]), "; ".join("S_" + k for k in f["kinds"]),
                                              {"child": "AChild", "children": "AChildren"}.get(f["mode"]) or "ANth %d" % f["index"],
                                              f["target"])
                 for f in d["structs"][s][0]))
             for s in d["order"] if s in d["structs"]),
         "(* hand-written methods (not interpreted) *)",
         "Definition ast_methods : list (SyntaxKind * list string) :=\n  [ %s ].\n" % "\n  ; ".join(
             "(S_%s, [%s])" % (s, "; ".join(coq_string_lit(m) for m in d["structs"][s][1]))
             for s in d["order"] if s in d["structs"] and d["structs"][s][1]),
         "Definition ast_enum_kinds (name : string) : list SyntaxKind :=\n"
         "  match find (fun e => String.eqb (fst e) name) ast_enums with Some e => snd e | None => [] end.\n"]
    return {"GenAst.v": "\n".join(o)}


if __name__ == "__main__":
    import sys
    print(translate(sys.argv[1] if len(sys.argv) > 1 else "/repo")["GenAst.v"])
