"""T-lexer: crates/syntax/src/lexer.rs -> coq/gen/GenLexer.v

Renders EVERY function of lexer.rs (the `TokenStream` impl, `Lexer::new`, `error`, `next_token`, `whitespace`,
`line_comment`, `block_comment`, `number`, `identifier`, `string`, `var_name`, `code_fragment`, `bangoperator`,
`preprocessor`, the free functions `is_identifier_start`, `is_identifier_continue`, `is_newline`,
`interpret_number`) as Gallina in the SHALLOW state-monad embedding of coq/model/ScanMonad.v, one definition
`g_<name>` per Rust function, statement by statement, in source order of effects:

  * `self.s.<m>(..)`            -> the unscanny primitive `s_<m>` (patterns: char / &str / predicate)
  * `let [mut] x = e; x = e; x += e; x -= e`  -> (re)binding of a Coq variable of the same name
  * `if / else if / else`, `if let Some(x) = e`, `match` on Option<char> / char / integer / &str with literal,
    binding, `|` and wildcard patterns and (possibly effectful) guards -> if-chains in arm order
  * `loop { .. }`, `while c { .. }` -> `m_loop` with fuel = characters left + 1 over the tuple of locals the body
    assigns; `break` only in tail position of the loop body
  * `return e;` -> `early`;  `unreachable!()` -> `m_unreachable`;  `T![..]`, `TokenKind::X` -> constructors
  * a `match` on a string whose arms are `"lit" => <kind>` -> `str_lookup` over the literal table of THAT match
Not semantic and normalised away: comments, formatting, attributes, `use`, lifetimes, visibility, the test module.
Anything outside this subset raises TranslateError with file and line: a broken tie, never silently skipped."""
import re
from rsutil import TranslateError, read, strip_comments, cut_tests, coq_string_lit, unescape_rust_str
import t_tokens

SRC = "crates/syntax/src/lexer.rs"
PUNCT = ["..=", "::", "->", "=>", "&&", "||", "==", "!=", "<=", ">=", "+=", "-=", "..", "(", ")", "{", "}", "[", "]",
         "<", ">", ",", ";", ":", ".", "=", "!", "&", "*", "|", "#", "+", "-", "@"]


class Tok:
    def __init__(self, kind, val, line):
        self.kind, self.val, self.line = kind, val, line

    def __repr__(self):
        return "%s:%r@%d" % (self.kind, self.val, self.line)


def tokenize(src, srcname=None):
    SRC = srcname or globals()["SRC"]
    toks, i, n, line = [], 0, len(src), 1
    while i < n:
        c = src[i]
        if c == "\n":
            line += 1
            i += 1
        elif c.isspace():
            i += 1
        elif src.startswith("T![", i):
            j = i + 3
            if src[j] == "'":
                m = re.match(r"'(\\.|[^\\'])'", src[j:j + 4])
                if not m:
                    raise TranslateError("%s:%d: bad T![..]" % (SRC, line))
                key = m.group(0)
                j += len(key)
            else:
                k = src.index("]", j)
                key = src[j:k].strip()
                j = k
            if src[j] != "]":
                raise TranslateError("%s:%d: bad T![..]" % (SRC, line))
            toks.append(Tok("TMAC", key, line))
            i = j + 1
        elif c == '"':
            j = i + 1
            while src[j] != '"':
                j += 2 if src[j] == "\\" else 1
            toks.append(Tok("STR", unescape_rust_str(src[i + 1:j]), line))
            i = j + 1
        elif c == "'" and re.match(r"'(\\.|[^\\'])'", src[i:i + 4]):
            m = re.match(r"'(\\.|[^\\'])'", src[i:i + 4])
            toks.append(Tok("CHAR", unescape_rust_str(m.group(1)), line))
            i += len(m.group(0))
        elif c == "'" and re.match(r"'[a-z_]+", src[i:]):
            m = re.match(r"'[a-z_]+", src[i:])
            toks.append(Tok("LIFETIME", m.group(0), line))
            i += len(m.group(0))
        elif c.isalpha() or c == "_":
            m = re.match(r"[A-Za-z_][A-Za-z0-9_]*", src[i:])
            toks.append(Tok("ID", m.group(0), line))
            i += len(m.group(0))
        elif c.isdigit():
            m = re.match(r"[0-9]+", src[i:])
            toks.append(Tok("NUM", int(m.group(0)), line))
            i += len(m.group(0))
        else:
            for p in PUNCT:
                if src.startswith(p, i):
                    toks.append(Tok("P", p, line))
                    i += len(p)
                    break
            else:
                raise TranslateError("%s:%d: unexpected character %r" % (SRC, line, c))
    toks.append(Tok("EOF", None, line))
    return toks


# ============================================================================ parser

class Parser:
    def __init__(self, toks, srcname=None):
        self.t, self.i = toks, 0
        self.src = srcname or SRC
        self.enums = {}          # name -> [variants]  (field-less enums; used by t_prep)
        self.aliases = {}        # `type X<..> = Y;` items: name -> tokens of Y (used by t_parser)

    def peek(self, k=0):
        return self.t[min(self.i + k, len(self.t) - 1)]

    def err(self, msg):
        tk = self.peek()
        raise TranslateError("%s:%d: %s (at %r)" % (self.src, tk.line, msg, tk.val))

    def isp(self, v, k=0):
        tk = self.peek(k)
        return tk.kind == "P" and tk.val == v

    def isid(self, v=None, k=0):
        tk = self.peek(k)
        return tk.kind == "ID" and (v is None or tk.val == v)

    def eat(self):
        tk = self.t[self.i]
        self.i += 1
        return tk

    def expect_p(self, v):
        if not self.isp(v):
            self.err("expected %r" % v)
        return self.eat()

    def expect_id(self, v=None):
        if not self.isid(v):
            self.err("expected identifier %s" % (v or ""))
        return self.eat().val

    # ---- items
    def skip_attr(self):
        while self.isp("#"):
            self.eat()
            self.expect_p("[")
            depth = 1
            while depth:
                tk = self.eat()
                if tk.kind == "EOF":
                    self.err("unterminated attribute")
                if tk.kind == "P" and tk.val == "[":
                    depth += 1
                elif tk.kind == "P" and tk.val == "]":
                    depth -= 1

    def vis(self):
        if self.isid("pub"):
            self.eat()
            if self.isp("("):
                self.eat()
                self.expect_id()
                self.expect_p(")")
            return True
        return False

    def items(self):
        fns, structs = [], {}
        while self.peek().kind != "EOF":
            self.skip_attr()
            top_pub = self.vis()
            if self.isid("use"):
                while not self.isp(";"):
                    if self.eat().kind == "EOF":
                        self.err("unterminated use")
                self.eat()
            elif self.isid("struct"):
                self.eat()
                name = self.expect_id()
                while not self.isp("{"):
                    self.eat()
                self.eat()
                fields = []
                while not self.isp("}"):
                    self.vis()
                    f = self.expect_id()
                    self.expect_p(":")
                    ty = self.type_()
                    fields.append((f, ty))
                    if self.isp(","):
                        self.eat()
                self.eat()
                structs[name] = fields
            elif self.isid("type"):
                self.eat()
                name = self.expect_id()
                while not self.isp("="):
                    if self.eat().kind == "EOF":
                        self.err("bad type alias")
                self.eat()
                rhs = []
                while not self.isp(";"):
                    tk = self.eat()
                    if tk.kind == "EOF":
                        self.err("bad type alias")
                    rhs.append(str(tk.val))
                self.eat()
                self.aliases[name] = " ".join(rhs)
            elif self.isid("enum"):
                self.eat()
                name = self.expect_id()
                self.expect_p("{")
                variants = []
                while not self.isp("}"):
                    variants.append(self.expect_id())
                    if self.isp(","):
                        self.eat()
                    elif not self.isp("}"):
                        self.err("only field-less enum variants are inside the subset")
                self.eat()
                self.enums[name] = variants
            elif self.isid("impl"):
                self.eat()
                hdr = []
                while not self.isp("{"):
                    tk = self.eat()
                    if tk.kind == "EOF":
                        self.err("bad impl header")
                    hdr.append(str(tk.val))
                self.eat()
                owner = " ".join(hdr)
                while not self.isp("}"):
                    self.skip_attr()
                    pub = self.vis()
                    fn = self.fn()
                    fn["pub"] = pub
                    fn["impl"] = owner
                    fns.append(fn)
                self.eat()
            elif self.isid("fn"):
                fn = self.fn()
                fn["pub"] = top_pub
                fn["impl"] = None
                fns.append(fn)
            else:
                self.err("unsupported item")
        return fns, structs

    def fn(self):
        line = self.peek().line
        self.expect_id("fn")
        name = self.expect_id()
        if self.isp("<"):
            self.err("generic functions are outside the subset")
        self.expect_p("(")
        params, selfk = [], None
        while not self.isp(")"):
            if self.isp("&"):
                self.eat()
                if self.peek().kind == "LIFETIME":
                    self.eat()
                mut = False
                if self.isid("mut"):
                    self.eat()
                    mut = True
                self.expect_id("self")
                selfk = "mut" if mut else "ref"
            elif self.isid("self") and (self.isp(",", 1) or self.isp(")", 1)):
                self.eat()
                selfk = "val"                              # `self` by value (t_parser; t_lexer / t_prep refuse it)
            else:
                if self.isid("mut"):
                    self.eat()
                pname = self.expect_id()
                self.expect_p(":")
                params.append((pname, self.type_()))
            if self.isp(","):
                self.eat()
        self.expect_p(")")
        ret = None
        if self.isp("->"):
            self.eat()
            ret = self.type_()
        body = self.block()
        return {"name": name, "params": params, "self": selfk, "ret": ret, "body": body, "line": line}

    def type_(self):
        out, depth = [], 0
        while True:
            tk = self.peek()
            if tk.kind == "P" and tk.val in ("<", "("):
                depth += 1
            elif tk.kind == "P" and tk.val in (">", ")"):
                if depth == 0:
                    break
                depth -= 1
            elif tk.kind == "P" and tk.val in (",", "{", "=", ";", "}") and depth == 0:
                break
            elif tk.kind == "EOF":
                self.err("bad type")
            tk = self.eat()
            if tk.kind == "LIFETIME" or (tk.kind == "P" and tk.val == "&"):
                continue
            out.append(str(tk.val))
        return "".join(out)

    # ---- statements
    def block(self):
        self.expect_p("{")
        stmts = []
        while not self.isp("}"):
            stmts.append(self.stmt())
        self.expect_p("}")
        return ("block", stmts)

    def stmt(self):
        line = self.peek().line
        if self.isid("let"):
            self.eat()
            mut = False
            if self.isid("mut"):
                self.eat()
                mut = True
            x = self.expect_id()
            self.expect_p("=")
            e = self.expr()
            self.expect_p(";")
            return ("let", x, mut, e, line)
        if self.isid("return"):
            self.eat()
            e = None if self.isp(";") else self.expr()
            self.expect_p(";")
            return ("return", e, line)
        if self.isid("break"):
            self.eat()
            self.expect_p(";")
            return ("break", line)
        if self.isid("while"):
            self.eat()
            if self.isid("let"):
                self.err("`while let` is outside the subset")
            c = self.expr(no_struct=True)
            return ("while", c, self.block(), line)
        if self.isid("loop"):
            self.eat()
            return ("loop", self.block(), line)
        e = self.expr()
        for op in ("=", "+=", "-="):
            if self.isp(op):
                self.eat()
                r = self.expr()
                self.expect_p(";")
                return ("assign", e, op, r, line)
        semi = False
        if self.isp(";"):
            self.eat()
            semi = True
        elif e[0] not in ("if", "match", "block") and not self.isp("}"):
            self.err("expected ';'")
        return ("expr", e, semi, line)

    # ---- expressions (precedence: range < || < && < comparison < additive < cast < unary < postfix)
    def expr(self, no_struct=False):
        self.no_struct = no_struct
        a = self.or_()
        if self.isp(".."):
            self.eat()
            b = self.or_()
            return ("range", a, b)
        return a

    def or_(self):
        a = self.and_()
        while self.isp("||"):
            self.eat()
            a = ("or", a, self.and_())
        return a

    def and_(self):
        a = self.cmp_()
        while self.isp("&&"):
            self.eat()
            a = ("and", a, self.cmp_())
        return a

    def cmp_(self):
        a = self.add_()
        for op in ("==", "!=", "<=", ">=", "<", ">"):
            if self.isp(op):
                self.eat()
                return ("cmp", op, a, self.add_())
        return a

    def add_(self):
        a = self.cast_()
        while self.isp("+") or self.isp("-"):
            op = self.eat().val
            a = ("arith", op, a, self.cast_())
        return a

    def cast_(self):
        a = self.unary()
        while self.isid("as"):
            self.eat()
            a = ("cast", a, self.type_())
        return a

    def unary(self):
        if self.isp("!"):
            self.eat()
            return ("not", self.unary())
        if self.isp("*"):
            self.err("references / dereferences are outside the subset")
        if self.isp("&"):
            line = self.eat().line
            if self.isid("mut"):
                self.eat()
                return ("refmut", self.unary(), line)
            return ("ref", self.unary(), line)
        return self.postfix()

    def postfix(self):
        e = self.primary()
        while True:
            if self.isp("."):
                self.eat()
                m = self.expect_id()
                fish = None
                if self.isp("::"):
                    self.eat()
                    self.expect_p("<")
                    fish = self.type_()
                    self.expect_p(">")
                if self.isp("("):
                    self.eat()
                    e = ("method", e, m, fish, self.args(), self.peek().line)
                else:
                    e = ("field", e, m)
            elif self.isp("("):
                self.eat()
                e = ("call", e, self.args(), self.peek().line)
            else:
                return e

    def args(self):
        a = []
        saved = self.no_struct
        while not self.isp(")"):
            a.append(self.expr())
            if self.isp(","):
                self.eat()
        self.no_struct = saved
        self.expect_p(")")
        return a

    def primary(self):
        tk = self.peek()
        if tk.kind == "TMAC":
            self.eat()
            return ("tmac", tk.val, tk.line)
        if tk.kind == "STR":
            self.eat()
            return ("str", tk.val)
        if tk.kind == "CHAR":
            self.eat()
            return ("char", tk.val)
        if tk.kind == "NUM":
            self.eat()
            return ("num", tk.val)
        if tk.kind == "ID":
            if tk.val == "if":
                return self.if_()
            if tk.val == "match":
                return self.match_()
            if tk.val in ("true", "false"):
                self.eat()
                return ("bool", tk.val == "true")
            path = [self.eat().val]
            while self.isp("::"):
                self.eat()
                path.append(self.expect_id())
            if self.isp("!"):                    # macro
                self.eat()
                return self.macro(path, tk.line)
            if self.isp("{") and not self.no_struct and path[0][0].isupper():
                self.eat()
                fields = []
                while not self.isp("}"):
                    f = self.expect_id()
                    if self.isp(":"):
                        self.eat()
                        fields.append((f, self.expr()))
                    else:                                  # shorthand `Self { x, .. }` = `x: x`
                        fields.append((f, ("path", [f], tk.line)))
                    if self.isp(","):
                        self.eat()
                self.eat()
                return ("struct", path, fields, tk.line)
            return ("path", path, tk.line)
        if tk.kind == "P" and tk.val == "(":
            self.eat()
            saved = self.no_struct
            e = self.expr()
            if self.isp(","):                              # tuple value (a, b, ..)
                es = [e]
                while self.isp(","):
                    self.eat()
                    if self.isp(")"):
                        break
                    es.append(self.expr())
                e = ("tuple", es, tk.line)
            self.no_struct = saved
            self.expect_p(")")
            return e
        if tk.kind == "P" and tk.val == "|":
            self.eat()
            ps = []
            while not self.isp("|"):
                ps.append(self.expect_id())
                if self.isp(":"):
                    self.eat()
                    while not (self.isp(",") or self.isp("|")):
                        if self.eat().kind == "EOF":
                            self.err("bad closure parameter")
                if self.isp(","):
                    self.eat()
            self.eat()
            if self.isp("{"):
                self.err("closures with block bodies are outside the subset")
            return ("closure", ps, self.expr())
        if tk.kind == "P" and tk.val == "{":
            return self.block()
        self.err("unsupported expression")

    def macro(self, path, line):
        name = "::".join(path)
        self.expect_p("(")
        if name == "unreachable":
            self.expect_p(")")
            return ("unreachable", line)
        if name == "matches":
            e = self.expr()
            self.expect_p(",")
            pats = [self.pattern()]
            while self.isp("|"):
                self.eat()
                pats.append(self.pattern())
            guard = None
            if self.isid("if"):
                self.eat()
                guard = self.expr()
            self.expect_p(")")
            return ("matches", e, pats, guard, line)
        if name == "assert":
            e = self.expr()
            self.expect_p(")")
            return ("assert", e, line)
        if name in ("format", "eco_format"):
            tk = self.eat()
            if tk.kind != "STR":
                self.err("%s! needs a literal format string" % name)
            self.expect_p(")")
            return ("format", tk.val, line)
        self.err("macro %s! is outside the subset" % name)

    def if_(self):
        line = self.peek().line
        self.expect_id("if")
        if self.isid("let"):
            self.eat()
            pat = self.pattern()
            if self.isp("|"):
                pats = [pat]
                while self.isp("|"):
                    self.eat()
                    pats.append(self.pattern())
                pat = ("or", pats)
            self.expect_p("=")
            c = ("iflet", pat, self.expr(no_struct=True))
        else:
            c = self.expr(no_struct=True)
        self.no_struct = False
        a = self.block()
        b = None
        if self.isid("else"):
            self.eat()
            if self.isid("if"):
                b = ("block", [("expr", self.if_(), False, line)])
            else:
                b = self.block()
        return ("if", c, a, b, line)

    def match_(self):
        line = self.peek().line
        self.expect_id("match")
        scrut = self.expr(no_struct=True)
        self.no_struct = False
        self.expect_p("{")
        arms = []
        while not self.isp("}"):
            pats = [self.pattern()]
            while self.isp("|"):
                self.eat()
                pats.append(self.pattern())
            guard = None
            if self.isid("if"):
                self.eat()
                guard = self.expr()
            self.expect_p("=>")
            aline = self.peek().line
            if self.isp("{"):
                body = self.block()
                if self.isp(","):
                    self.eat()
            elif self.isid("return"):
                self.eat()
                e = None if (self.isp(",") or self.isp("}")) else self.expr()
                body = ("block", [("return", e, aline)])
                if self.isp(","):
                    self.eat()
            elif self.isid("break"):
                self.eat()
                body = ("block", [("break", aline)])
                if self.isp(","):
                    self.eat()
            else:
                e = self.expr()
                st = None
                for op in ("=", "+=", "-="):
                    if self.isp(op):
                        self.eat()
                        st = ("assign", e, op, self.expr(), aline)
                body = ("block", [st if st else ("expr", e, False, aline)])
                if self.isp(","):
                    self.eat()
                elif not self.isp("}"):
                    self.err("expected ',' after match arm")
            arms.append((pats, guard, body, aline))
        self.expect_p("}")
        return ("match", scrut, arms, line)

    def pattern(self):
        tk = self.peek()
        if tk.kind == "TMAC":
            self.eat()
            return ("tmac", tk.val, tk.line)
        if tk.kind == "P" and tk.val == "(":
            self.eat()
            ps = []
            while not self.isp(")"):
                ps.append(self.pattern())
                if self.isp(","):
                    self.eat()
                elif not self.isp(")"):
                    self.err("unsupported pattern")
            self.eat()
            if len(ps) < 2:
                self.err("unsupported pattern")
            return ("tuple", ps)
        if tk.kind == "CHAR":
            self.eat()
            return ("char", tk.val)
        if tk.kind == "NUM":
            self.eat()
            return ("num", tk.val)
        if tk.kind == "STR":
            self.eat()
            return ("str", tk.val)
        if tk.kind == "ID":
            name = self.eat().val
            if name == "_":
                return ("wild",)
            if name == "None":
                return ("none",)
            if name == "Some":
                self.expect_p("(")
                p = self.pattern()
                self.expect_p(")")
                return ("some", p)
            if name in ("true", "false"):
                return ("bool", name == "true")
            if self.isp("::"):
                path = [name]
                while self.isp("::"):
                    self.eat()
                    path.append(self.expect_id())
                if self.isp("(") or self.isp("{"):
                    self.err("unsupported pattern")
                return ("path", path, tk.line)
            if self.isp("("):
                self.err("unsupported pattern")
            return ("bind", name)
        self.err("unsupported pattern")


# ============================================================================ generator

CHAR_PRED_PATHS = {
    ("char", "is_ascii_whitespace"): "is_ascii_whitespace", ("char", "is_ascii_digit"): "is_ascii_digit",
    ("char", "is_ascii_hexdigit"): "is_ascii_hexdigit", ("char", "is_ascii_alphabetic"): "is_ascii_alphabetic",
    ("char", "is_alphabetic"): "is_alphabetic", ("char", "is_whitespace"): "is_whitespace",
    ("char", "is_ascii_alphanumeric"): "is_ascii_alphanumeric",
}
CHAR_METHODS = {"is_whitespace": "is_whitespace", "is_ascii_digit": "is_ascii_digit", "is_ascii_alphabetic": "is_ascii_alphabetic",
                "is_ascii_alphanumeric": "is_ascii_alphanumeric", "is_ascii_hexdigit": "is_ascii_hexdigit",
                "is_alphabetic": "is_alphabetic", "is_ascii_whitespace": "is_ascii_whitespace"}
TYPES = {"usize": "N", "char": "N", "str": "text", "TokenKind": "TokenKind", "bool": "bool", "Self": "lx",
         "Option<EcoString>": "(option string)", "Option<i64>": "(option Z)", "Range<usize>": "(N * N)%type",
         "implInto<EcoString>": "string", "i64": "Z", "u64": "N"}
COQ_KEYWORDS = {"end", "in", "at", "as", "fun", "match", "with", "let", "if", "then", "else", "return", "Type", "Set", "Prop",
                "fix", "forall", "exists", "where", "using"}


def cps(s):
    return "[" + "; ".join(str(ord(c)) for c in s) + "]"


class Gen:
    # vocabulary of the embedding (coq/model/ScanMonad.v); t_prep.py renders into coq/model/PrepMonad.v instead
    RET, EARLY, UNREACH, LOOP, FUEL = "ret", "early", "m_unreachable", "m_loop", "loop_fuel"
    SRC = SRC

    def __init__(self, repo):
        self.T = t_tokens.parse(repo)["T"]
        self.tks = set(t_tokens.parse(repo)["tks"])
        src = cut_tests(strip_comments(read(repo, SRC)))
        self.fns, self.structs = Parser(tokenize(src)).items()
        if self.structs.get("Lexer") is None or [f for f, _ in self.structs["Lexer"]] != ["s", "error"]:
            raise TranslateError("%s: struct Lexer must have exactly the fields `s`, `error`" % SRC)
        self.by_name = {}
        for f in self.fns:
            if f["name"] in self.by_name:
                raise TranslateError("%s:%d: two functions named %s" % (SRC, f["line"], f["name"]))
            self.by_name[f["name"]] = f
        self.tmp = 0
        self.canonicalize()

    # canonical names of the PRIVATE functions, in the order in which a depth-first walk of the call graph from the
    # API functions (trait impl + pub, in file order) discovers them: renaming a private fn does not change the output
    CANON_PRIVATE = ["next_token", "whitespace", "line_comment", "is_newline", "block_comment", "number",
                     "is_identifier_start", "identifier", "is_identifier_continue", "error", "string", "var_name",
                     "code_fragment", "bangoperator", "preprocessor"]

    def canonicalize(self):
        self.canon = {}
        api = [f["name"] for f in self.fns if f.get("pub") or (f["impl"] and " for " in " " + f["impl"] + " ")]
        order, seen = [], set()

        def refs(node, acc):
            if isinstance(node, tuple):
                if node and node[0] == "method" and self.is_self(node[1]) and node[2] in self.by_name:
                    acc.append(node[2])
                if node and node[0] == "path" and len(node[1]) == 1 and node[1][0] in self.by_name:
                    acc.append(node[1][0])
                for x in node:
                    refs(x, acc)
            elif isinstance(node, list):
                for x in node:
                    refs(x, acc)
            return acc

        def visit(n):
            if n in seen:
                return
            seen.add(n)
            order.append(n)
            for r in refs(self.by_name[n]["body"], []):
                visit(r)
        for n in api:
            visit(n)
        private = [n for n in order if n not in api]
        unreached = [f["name"] for f in self.fns if f["name"] not in seen]
        if len(private) == len(self.CANON_PRIVATE) and not unreached and not (set(self.CANON_PRIVATE) & set(api)):
            self.canon = dict(zip(private, self.CANON_PRIVATE))
        self.discovery = private

    def cn(self, name):
        return getattr(self, "canon", {}).get(name, name)

    def fail(self, line, msg):
        raise TranslateError("%s:%d: %s" % (self.SRC, line, msg))

    def fresh(self, base="t"):
        self.tmp += 1
        return "%s_%d" % (base, self.tmp)

    def var(self, x):
        return x + "_" if x in COQ_KEYWORDS else x

    def ty(self, t, line):
        if t not in TYPES:
            self.fail(line, "type %s is outside the subset" % t)
        return TYPES[t]

    # ------------------------------------------------------------------ helpers on monadic terms
    def as_m(self, kt):
        k, t = kt
        return t if k == "m" else "%s (%s)" % (self.RET, t)

    def bind(self, x, kt, body):
        """x <- kt ;; body   (let when kt is pure)"""
        k, t = kt
        if k == "p":
            return "(let %s := %s in %s)" % (x, t, body)
        return "(%s <- %s ;; %s)" % (x, t, body)

    def lift(self, es, ctx, f):
        names, binds = [], []
        for e in es:
            k, t = self.E(e, ctx)
            if k == "p":
                names.append(t)
            else:
                v = self.fresh()
                binds.append((v, t))
                names.append(v)
        k, t = f(names)
        if not binds:
            return (k, t)
        body = t if k == "m" else "%s (%s)" % (self.RET, t)
        for v, m in reversed(binds):
            body = "(%s <- %s ;; %s)" % (v, m, body)
        return ("m", body)

    # ------------------------------------------------------------------ constants
    def kind(self, name, line):
        if name not in self.tks:
            self.fail(line, "unknown TokenKind::%s" % name)
        return "T_" + name

    def pred(self, e, ctx):
        """a `Pattern` argument that is a predicate on chars"""
        if e[0] == "path":
            p = tuple(e[1])
            if p in CHAR_PRED_PATHS:
                return CHAR_PRED_PATHS[p]
            if len(p) == 1 and p[0] in self.by_name and self.by_name[p[0]]["self"] is None:
                return "g_" + self.cn(p[0])
            self.fail(e[2], "unsupported predicate %s" % "::".join(p))
        if e[0] == "closure":
            if len(e[1]) != 1:
                self.fail(0, "closure with %d parameters" % len(e[1]))
            k, t = self.E(e[2], dict(ctx, self_ok=False, locals=ctx["locals"] | set(e[1])))
            if k != "p":
                self.fail(0, "effectful closure")
            return "(fun %s => %s)" % (self.var(e[1][0]), t)
        self.fail(0, "unsupported pattern argument %r" % (e[0],))

    # ------------------------------------------------------------------ patterns -> (test on v, bindings)
    def pat_test(self, p, v, line):
        if p[0] == "wild":
            return "true", []
        if p[0] == "bind":
            return "true", [(self.var(p[1]), v)]
        if p[0] == "char":
            return "(%s =? %d)" % (v, ord(p[1])), []
        if p[0] == "num":
            return "(%s =? %d)" % (v, p[1]), []
        if p[0] == "none":
            return "opt_none %s" % v, []
        if p[0] == "some":
            q = p[1]
            if q[0] == "char":
                return "opt_is %s %d" % (v, ord(q[1])), []
            if q[0] == "bind":
                return "opt_some %s" % v, [(self.var(q[1]), "opt_get %s" % v)]
            if q[0] == "wild":
                return "opt_some %s" % v, []
        self.fail(line, "unsupported pattern %r" % (p,))

    def pats_test(self, pats, v, line):
        tests, binds = [], []
        for p in pats:
            t, b = self.pat_test(p, v, line)
            tests.append(t)
            binds += b
        if len(pats) > 1 and binds:
            self.fail(line, "bindings in an or-pattern")
        if "true" in tests:
            return "true", binds
        return (tests[0] if len(tests) == 1 else "(" + " || ".join(tests) + ")"), binds

    # ------------------------------------------------------------------ expressions: ("p", term) pure | ("m", term) : M _
    def E(self, e, ctx):
        t = e[0]
        if t == "num":
            return ("p", str(e[1]))
        if t == "char":
            return ("p", str(ord(e[1])))
        if t == "bool":
            return ("p", "true" if e[1] else "false")
        if t == "str":
            return ("p", cps(e[1]) if ctx.get("str_as") != "string" else coq_string_lit(e[1]) + "%string")
        if t == "tmac":
            if e[1] not in self.T:
                self.fail(e[2], "T![%s] unknown" % e[1])
            return ("p", "T_" + self.T[e[1]])
        if t == "unreachable":
            return ("m", self.UNREACH)
        if t == "path":
            p = e[1]
            if len(p) == 2 and p[0] == "TokenKind":
                return ("p", self.kind(p[1], e[2]))
            if p == ["None"]:
                return ("p", "None")
            if len(p) == 1:
                if p[0] in ctx["locals"]:
                    return ("p", self.var(p[0]))
                self.fail(e[2], "unknown name %s" % p[0])
            self.fail(e[2], "unsupported path %s" % "::".join(p))
        if t == "not":
            return self.lift([e[1]], ctx, lambda a: ("p", "negb (%s)" % a[0]))
        if t in ("and", "or"):
            ka, ta = self.E(e[1], ctx)
            kb, tb = self.E(e[2], ctx)
            op = "&&" if t == "and" else "||"
            if kb == "p":
                return self.lift([e[1]], ctx, lambda a: ("p", "(%s %s %s)" % (a[0], op, tb)))
            x = self.fresh("c")
            short = "%s false" % self.RET if t == "and" else "%s true" % self.RET
            body = "(if %s then %s else %s)" % ((x, tb, short) if t == "and" else (x, short, tb))
            return ("m", self.bind(x, (ka, ta), body))
        if t == "cmp":
            op = e[1]

            def f(a):
                x, y = a
                return ("p", {"==": "(%s =? %s)", "!=": "negb (%s =? %s)", "<": "(%s <? %s)", "<=": "(%s <=? %s)",
                              ">": "(%s <? %s)", ">=": "(%s <=? %s)"}[op] % ((y, x) if op in (">", ">=") else (x, y)))
            return self.lift([e[2], e[3]], ctx, f)
        if t == "arith":
            return self.lift([e[2], e[3]], ctx, lambda a: ("p", "(%s %s %s)" % (a[0], e[1], a[1])))
        if t == "range":
            return self.lift([e[1], e[2]], ctx, lambda a: ("p", "(%s, %s)" % (a[0], a[1])))
        if t == "cast":
            if e[2] != "i64":
                self.fail(0, "cast to %s is outside the subset" % e[2])
            return self.lift([e[1]], ctx, lambda a: ("p", "u64_as_i64 %s" % a[0]))
        if t == "closure":
            return ("p", self.pred(e, ctx))
        if t == "matches":
            def f(a):
                test, binds = self.pats_test(e[2], a[0], e[4])
                if e[3] is None:
                    return ("p", test)
                c2 = dict(ctx, locals=ctx["locals"] | {b[0] for b in binds})
                kg, tg = self.E(e[3], c2)
                if kg != "p":
                    self.fail(e[4], "effectful guard in matches!")
                for x, d in reversed(binds):
                    tg = "(let %s := %s in %s)" % (x, d, tg)
                return ("p", "(%s && %s)" % (test, tg))
            return self.lift([e[1]], ctx, f)
        if t in ("ref", "refmut"):
            self.fail(e[2], "references / dereferences are outside the subset")
        if t in ("assert", "format"):
            self.fail(e[2], "macro %s! is outside the subset" % t)
        if t == "field":
            if e[1] == ("path", ["self"], e[1][2] if len(e[1]) > 2 else 0) or (e[1][0] == "path" and e[1][1] == ["self"]):
                self.fail(0, "bare field access self.%s" % e[2])
            self.fail(0, "field access .%s is outside the subset" % e[2])
        if t == "struct":
            if e[1] != ["Self"] or [f for f, _ in e[2]] != ["s", "error"]:
                self.fail(e[3], "only `Self { s: .., error: .. }` is supported")
            return self.lift([x for _, x in e[2]], ctx, lambda a: ("p", "mk_lx (%s) (%s)" % (a[0], a[1])))
        if t == "call":
            return self.call(e, ctx)
        if t == "method":
            return self.method(e, ctx)
        if t == "if":
            return self.if_expr(e, ctx)
        if t == "match":
            return ("m", self.match_m(e, ctx, ("value",)))
        if t == "block":
            return ("m", self.stmts(e[1], 0, ctx, ("value",)))
        self.fail(0, "unsupported expression %r" % (t,))

    def call(self, e, ctx):
        f, args, line = e[1], e[2], e[3]
        if f[0] != "path":
            self.fail(line, "unsupported call")
        p = f[1]
        if p == ["Some"]:
            return self.lift(args, ctx, lambda a: ("p", "Some (%s)" % a[0]))
        if p == ["Scanner", "new"]:
            return self.lift(args, ctx, lambda a: ("p", "scanner_new %s" % a[0]))
        if p == ["u64", "from_str_radix"]:
            return self.lift(args, ctx, lambda a: ("p", "u64_from_str_radix %s %s" % (a[0], a[1])))
        if len(p) == 1 and p[0] in self.by_name and self.by_name[p[0]]["self"] is None:
            return self.lift(args, ctx, lambda a: ("p", "(g_%s %s)" % (self.cn(p[0]), " ".join("(%s)" % x for x in a))))
        self.fail(line, "call of %s is outside the subset" % "::".join(p))

    def is_self(self, e):
        return e[0] == "path" and e[1] == ["self"]

    def method(self, e, ctx):
        recv, m, fish, args, line = e[1], e[2], e[3], e[4], e[5]
        # self.<fn>(..)
        if self.is_self(recv):
            if not ctx["self_ok"]:
                self.fail(line, "self used in a pure context")
            if m not in self.by_name or self.by_name[m]["self"] is None:
                self.fail(line, "unknown method self.%s" % m)
            c2 = dict(ctx, str_as="string") if m == "error" else ctx
            return self.lift(args, c2, lambda a: ("m", "g_%s%s" % (self.cn(m), "".join(" (%s)" % x for x in a))))
        # self.s.<prim>(..)
        if recv[0] == "field" and self.is_self(recv[1]) and recv[2] == "s":
            if not ctx["self_ok"]:
                self.fail(line, "self used in a pure context")
            return self.scanner(m, args, ctx, line)
        # self.error.take()
        if recv[0] == "field" and self.is_self(recv[1]) and recv[2] == "error":
            if m == "take" and not args:
                return ("m", "take_error_field")
            self.fail(line, "self.error.%s is outside the subset" % m)
        # methods on values
        if m in CHAR_METHODS and not args:
            return self.lift([recv], ctx, lambda a: ("p", "%s %s" % (CHAR_METHODS[m], a[0])))
        if m == "into" and not args:
            return self.E(recv, ctx)
        if m == "is_none" and not args:
            return self.lift([recv], ctx, lambda a: ("p", "opt_none (%s)" % a[0]))
        if m == "ok" and not args:
            return self.E(recv, ctx)
        if m == "map" and len(args) == 1 and args[0][0] == "closure":
            fn = self.pred(args[0], ctx)
            return self.lift([recv], ctx, lambda a: ("p", "option_map %s (%s)" % (fn, a[0])))
        if m == "strip_prefix" and len(args) == 1 and args[0][0] == "str":
            return self.lift([recv], ctx, lambda a: ("p", "strip_prefix %s %s" % (cps(args[0][1]), a[0])))
        if m == "starts_with" and len(args) == 1 and args[0][0] == "char":
            return self.lift([recv], ctx, lambda a: ("p", "str_starts_with_char %d %s" % (ord(args[0][1]), a[0])))
        if m == "parse" and not args and fish in ("i64", "u64"):
            return self.lift([recv], ctx, lambda a: ("p", "parse_%s %s" % (fish, a[0])))
        self.fail(line, "method .%s() is outside the subset" % m)

    def scanner(self, m, args, ctx, line):
        def one(kind):
            if len(args) != 1:
                self.fail(line, "s.%s expects one argument" % m)
            a = args[0]
            if a[0] == "char":
                if kind == "eat_if":
                    return ("m", "s_eat_if_char %d" % ord(a[1]))
                # a char used as a Pattern matches exactly that char
                return ("m", {"eat_while": "s_eat_while (N.eqb %d)", "eat_until": "s_eat_until_pred (N.eqb %d)",
                              "at": "s_at_pred (N.eqb %d)"}[kind] % ord(a[1]))
            if a[0] == "str":
                if kind in ("eat_if", "eat_until"):
                    return ("m", "s_%s_str %s" % (kind, cps(a[1])))
                self.fail(line, "s.%s(&str) is outside the subset" % m)
            p = self.pred(a, ctx)
            return ("m", {"eat_if": "s_eat_if_pred %s", "eat_while": "s_eat_while %s", "eat_until": "s_eat_until_pred %s",
                          "at": "s_at_pred %s"}[kind] % p)
        if m in ("cursor", "done", "peek", "eat") and not args:
            return ("m", "s_" + m)
        if m in ("eat_if", "eat_while", "eat_until", "at"):
            return one(m)
        if m == "from" and len(args) == 1:
            return self.lift(args, ctx, lambda a: ("m", "s_from %s" % a[0]))
        if m == "jump" and len(args) == 1:
            return self.lift(args, ctx, lambda a: ("m", "s_jump %s" % a[0]))
        if m == "get" and len(args) == 1:
            if args[0][0] == "range":
                return self.lift([args[0][1], args[0][2]], ctx, lambda a: ("m", "s_get %s %s" % (a[0], a[1])))
            return self.lift(args, ctx, lambda a: ("m", "s_get (fst %s) (snd %s)" % (a[0], a[0])))
        self.fail(line, "Scanner::%s is outside the subset" % m)

    # ------------------------------------------------------------------ if / match as expressions or statements
    def cond(self, c, ctx):
        """-> (kt of the boolean, None) or for `if let Some(x) = e`: (kt of the option, binder)"""
        if c[0] == "iflet":
            pat = c[1]
            if pat[0] != "some" or pat[1][0] != "bind":
                self.fail(0, "only `if let Some(x) = ..` is supported")
            return self.E(c[2], ctx), self.var(pat[1][1])
        return self.E(c, ctx), None

    def if_expr(self, e, ctx):
        c, a, b = e[1], e[2], e[3]
        if b is None:
            self.fail(e[4], "`if` without `else` used as a value")
        ckt, binder = self.cond(c, ctx)
        ctx_a = dict(ctx, locals=ctx["locals"] | ({binder} if binder else set()))
        ka, ta = self.block_value(a, ctx_a)
        kb, tb = self.block_value(b, ctx)
        pure = ka == "p" and kb == "p" and ckt[0] == "p"
        if pure:
            if binder:
                return ("p", "(match %s with Some %s => %s | None => %s end)" % (ckt[1], binder, ta, tb))
            return ("p", "(if %s then %s else %s)" % (ckt[1], ta, tb))
        x = self.fresh("c")
        if binder:
            body = "(match %s with Some %s => %s | None => %s end)" % (x, binder, self.as_m((ka, ta)), self.as_m((kb, tb)))
        else:
            body = "(if %s then %s else %s)" % (x, self.as_m((ka, ta)), self.as_m((kb, tb)))
        return ("m", self.bind(x, ckt, body))

    def block_value(self, b, ctx):
        """a block used as a value; pure when it is a single pure expression"""
        st = b[1]
        if len(st) == 1 and st[0][0] == "expr" and not st[0][2]:
            return self.E(st[0][1], ctx)
        return ("m", self.stmts(st, 0, ctx, ("value",)))

    def str_table(self, e, ctx):
        """match on a string whose non-wild arms are  "lit" => <TokenKind constant>"""
        arms = e[2]
        if len(arms) < 2 or arms[-1][0] != [("wild",)] or arms[-1][1] is not None:
            return None
        rows = []
        for pats, guard, body, line in arms[:-1]:
            if guard is not None or len(pats) != 1 or pats[0][0] != "str":
                return None
            st = body[1]
            if len(st) != 1 or st[0][0] != "expr":
                return None
            k, t = self.E(st[0][1], ctx)
            if k != "p" or not t.startswith("T_"):
                return None
            rows.append((pats[0][1], t))
        return rows

    def match_m(self, e, ctx, tail):
        """match as a monadic term; arm bodies are translated with [tail]"""
        scrut, arms, line = e[1], e[2], e[3]
        rows = self.str_table(e, ctx)
        ks, ts = self.E(scrut, ctx)
        v = self.fresh("v")
        if rows is not None:
            seen = set()
            for k_, _ in rows:
                if k_ in seen:
                    self.fail(line, "duplicate string pattern %r" % k_)
                seen.add(k_)
            tbl = "[" + "; ".join("(%s, %s)" % (cps(k_), t_) for k_, t_ in rows) + "]"
            default = self.stmts(arms[-1][2][1], 0, ctx, tail)
            hit = self.tail_value("k", tail, ctx)
            body = "(match str_lookup %s %s with Some k => %s | None => %s end)" % (tbl, v, hit, default)
            return self.bind(v, (ks, ts), body)
        # general chain, built from the last arm backwards
        k_next = self.UNREACH
        for pats, guard, body, aline in reversed(arms):
            test, binds = self.pats_test(pats, v, aline)
            c2 = dict(ctx, locals=ctx["locals"] | {b[0] for b in binds})
            bt = self.stmts(body[1], 0, c2, tail)

            def wrap(t_):
                for x, d in reversed(binds):
                    t_ = "(let %s := %s in %s)" % (x, d, t_)
                return t_
            if guard is None:
                k_next = wrap(bt) if test == "true" else "(if %s then %s else %s)" % (test, wrap(bt), k_next)
                continue
            kg, tg = self.E(guard, c2)
            if kg == "p":
                gt = wrap(tg)
                cnd = gt if test == "true" else "(%s && %s)" % (test, gt)
                k_next = "(if %s then %s else %s)" % (cnd, wrap(bt), k_next)
            else:
                kn = self.fresh("k")
                g = self.fresh("g")
                inner = wrap("(%s <- %s ;; if %s then %s else %s)" % (g, tg, g, bt, kn))
                body_t = inner if test == "true" else "(if %s then %s else %s)" % (test, inner, kn)
                k_next = "(let %s := %s in %s)" % (kn, k_next, body_t)
        return self.bind(v, (ks, ts), k_next)

    def tail_value(self, x, tail, ctx):
        """the term for `a block whose value is the pure term x` under [tail]"""
        if tail[0] == "value":
            return "%s (%s)" % (self.RET, x)
        return tail[1]

    # ------------------------------------------------------------------ statements
    def assigned(self, node, acc):
        """local variables assigned somewhere inside a statement / expression tree"""
        if isinstance(node, tuple):
            if node and node[0] == "assign" and node[1][0] == "path" and len(node[1][1]) == 1:
                acc.add(node[1][1][0])
            for x in node:
                self.assigned(x, acc)
        elif isinstance(node, list):
            for x in node:
                self.assigned(x, acc)
        return acc

    def has(self, node, tag):
        if isinstance(node, tuple):
            if node and node[0] == tag:
                return True
            return any(self.has(x, tag) for x in node)
        if isinstance(node, list):
            return any(self.has(x, tag) for x in node)
        return False

    def tup(self, vs):
        vs = [self.var(v) for v in vs]
        if not vs:
            return "tt", "_"
        if len(vs) == 1:
            return vs[0], vs[0]
        return "(" + ", ".join(vs) + ")", "'(" + ", ".join(vs) + ")"

    def assign_field(self, field, op, e, ctx, line):
        """`self.<field> <op> e;` as a monadic term ("m", t), or None when it is not a field this embedding knows"""
        if field == "error" and op == "=":
            return self.lift([e], ctx, lambda a: ("m", "set_error (%s)" % a[0]))
        return None

    def stmts(self, sts, i, ctx, tail):
        """statements sts[i:] as a term of type M _ ; tail = ("value",) | ("then", term)"""
        if i == len(sts):
            if tail[0] == "value":
                return "%s tt" % self.RET
            return tail[1]
        s = sts[i]
        last = i == len(sts) - 1
        k = s[0]
        if k == "let":
            _, x, mut, e, line = s
            c2 = dict(ctx, locals=ctx["locals"] | {x}, muts=ctx["muts"] | ({x} if mut else set()))
            return self.bind(self.var(x), self.E(e, ctx), self.stmts(sts, i + 1, c2, tail))
        if k == "assign":
            _, lhs, op, e, line = s
            if lhs[0] == "field" and self.is_self(lhs[1]):
                kt = self.assign_field(lhs[2], op, e, ctx, line)
                if kt is not None:
                    return "(%s ;;; %s)" % (kt[1], self.stmts(sts, i + 1, ctx, tail))
            if lhs[0] != "path" or len(lhs[1]) != 1 or lhs[1][0] not in ctx["muts"]:
                self.fail(line, "assignment to something that is not a `let mut` local")
            x = lhs[1][0]
            rhs = e if op == "=" else ("arith", op[0], lhs, e)
            return self.bind(self.var(x), self.E(rhs, ctx), self.stmts(sts, i + 1, ctx, tail))
        if k == "return":
            _, e, line = s
            if not last:
                self.fail(line, "statements after `return`")
            if not ctx["can_return"]:
                self.fail(line, "`return` in a function whose result is not TokenKind")
            if e is None:
                self.fail(line, "`return;` without a value is outside the subset")
            x = self.fresh("r")
            return self.bind(x, self.E(e, ctx), "%s %s" % (self.EARLY, x))
        if k == "break":
            if not last or ctx.get("loop") is None:
                self.fail(s[1], "`break` outside the tail position of a loop body")
            return "%s (Break %s)" % (self.RET, self.tup(ctx["loop"])[0])
        if k in ("loop", "while"):
            body = s[1] if k == "loop" else s[2]
            line = s[-1]
            if self.has(body, "loop") or self.has(body, "while"):
                self.fail(line, "nested loops are outside the subset")
            vs = sorted(self.assigned(body, set()) & ctx["muts"])
            val, pat = self.tup(vs)
            lctx = dict(ctx, loop=vs)
            cont = "%s (Continue %s)" % (self.RET, val)
            inner = self.stmts(body[1], 0, lctx, ("then", cont))
            if k == "while":
                c = self.fresh("c")
                inner = self.bind(c, self.E(s[1], ctx), "(if %s then %s else %s (Break %s))" % (c, inner, self.RET, val))
            n = self.fresh("n")
            loop = "(%s <- %s ;; %s %s (fun %s => %s) %s)" % (n, self.FUEL, self.LOOP, n, pat, inner, val)
            return "(%s <- %s ;; %s)" % (pat, loop, self.stmts(sts, i + 1, ctx, tail))
        if k == "expr":
            _, e, semi, line = s
            if last and not semi and tail[0] == "value":
                return self.as_m(self.E(e, ctx))
            if e[0] in ("if", "match"):
                if last:
                    # tail position: the branches continue with the same tail (break / continue allowed inside)
                    return self.branchy(e, ctx, tail if (semi or tail[0] != "value") else tail)
                if self.has(e, "break"):
                    self.fail(line, "`break` in a statement that is not the last of the loop body")
                vs = sorted(self.assigned(e, set()) & ctx["muts"])
                val, pat = self.tup(vs)
                t = self.branchy(e, ctx, ("then", "%s %s" % (self.RET, val)))
                return "(%s <- %s ;; %s)" % (pat, t, self.stmts(sts, i + 1, ctx, tail))
            if e[0] == "block":
                self.fail(line, "nested blocks are outside the subset")
            kt = self.E(e, ctx)
            if kt[1] == self.UNREACH:
                return self.UNREACH
            if kt[0] == "p":
                if last and tail[0] == "then":
                    return tail[1]
                self.fail(line, "expression statement without effect")
            return "(%s ;;; %s)" % (kt[1], self.stmts(sts, i + 1, ctx, tail))
        self.fail(0, "unsupported statement %r" % (k,))

    def branchy(self, e, ctx, tail):
        """an if / match STATEMENT whose branches end with [tail]"""
        tl = tail if tail[0] == "then" else ("then", "%s tt" % self.RET)
        if e[0] == "match":
            return self.match_m(e, ctx, tl)
        c, a, b, line = e[1], e[2], e[3], e[4]
        ckt, binder = self.cond(c, ctx)
        ctx_a = dict(ctx, locals=ctx["locals"] | ({binder} if binder else set()))
        ta = self.stmts(a[1], 0, ctx_a, tl)
        tb = self.stmts(b[1], 0, ctx, tl) if b is not None else tl[1]
        x = self.fresh("c")
        if binder:
            return self.bind(x, ckt, "(match %s with Some %s => %s | None => %s end)" % (x, binder, ta, tb))
        if ckt[0] == "p":
            return "(if %s then %s else %s)" % (ckt[1], ta, tb)
        return self.bind(x, ckt, "(if %s then %s else %s)" % (x, ta, tb))

    # ------------------------------------------------------------------ functions
    def order(self):
        deps = {f["name"]: set() for f in self.fns}

        def walk(node, me):
            if isinstance(node, tuple):
                if node and node[0] == "method" and self.is_self(node[1]) and node[2] in deps:
                    deps[me].add(node[2])
                if node and node[0] == "path" and len(node[1]) == 1 and node[1][0] in deps and node[1][0] != me:
                    deps[me].add(node[1][0])
                for x in node:
                    walk(x, me)
            elif isinstance(node, list):
                for x in node:
                    walk(x, me)
        for f in self.fns:
            walk(f["body"], f["name"])
        out, state = [], {}

        def visit(n):
            if state.get(n) == 2:
                return
            if state.get(n) == 1:
                raise TranslateError("%s: recursion through %s is outside the subset" % (SRC, n))
            state[n] = 1
            for d in sorted(deps[n], key=self.cn):
                visit(d)
            state[n] = 2
            out.append(n)
        for f in self.fns:
            visit(f["name"])
        return out

    def function(self, f):
        self.tmp = 0
        name, line = f["name"], f["line"]
        params = [(self.var(p), self.ty(t, line)) for p, t in f["params"]]
        ps = "".join(" (%s : %s)" % p for p in params)
        ret = self.ty(f["ret"], line) if f["ret"] else "unit"
        if f["self"] == "val":
            self.fail(line, "`self` by value is outside the subset")
        ctx = {"locals": {p for p, _ in f["params"]}, "muts": set(), "self_ok": f["self"] is not None,
               "can_return": f["self"] is not None and f["ret"] == "TokenKind", "loop": None}
        if f["self"] is None:
            if f["ret"] == "Self":
                ctx["self_ok"] = False
            k, t = self.block_value(f["body"], ctx)
            if k != "p":
                self.fail(line, "free function %s is not a pure expression" % name)
            return "Definition g_%s%s : %s :=\n  %s." % (self.cn(name), ps, ret, t)
        body = self.stmts(f["body"][1], 0, ctx, ("value",))
        if ctx["can_return"]:
            body = "fn_body %s" % body
        return "Definition g_%s%s : M %s :=\n  %s." % (self.cn(name), ps, ret, body)


def pretty(term, width=118):
    """break long one-line terms at ` ;; ` / ` else ` outside string literals (purely cosmetic)"""
    out, depth, cur, instr = [], 0, "", False
    i = 0
    while i < len(term):
        c = term[i]
        if c == '"':
            instr = not instr
        if not instr:
            for sep in (" ;; ", " ;;; ", " else "):
                if term.startswith(sep, i) and len(cur) > 60:
                    out.append(cur + sep.rstrip())
                    cur = "  " * min(depth, 12)
                    i += len(sep)
                    break
            else:
                if c == "(":
                    depth += 1
                elif c == ")":
                    depth -= 1
                cur += c
                i += 1
            continue
        cur += c
        i += 1
    out.append(cur)
    return "\n  ".join(out)


def translate(repo):
    g = Gen(repo)
    o = ["(* GENERATED by tools/translate/t_lexer.py from crates/syntax/src/lexer.rs -- do not edit *)",
         "From Coq Require Import List NArith ZArith Bool String.",
         "From TG.Gen Require Import GenTokens.",
         "From TG.Model Require Import Chars ScanMonad.",
         "Import ListNotations.", "Open Scope N_scope.", "Open Scope m_scope.", ""]
    names = g.order()
    for n in names:
        f = g.by_name[n]
        o.append("(* fn %s%s *)" % (g.cn(n), "  [impl %s]" % f["impl"] if f["impl"] else ""))
        o.append(pretty(g.function(f)))
        o.append("")
    o.append("Definition gen_lexer_functions : list string :=\n  [ %s ]%%string." % "; ".join('"%s"' % g.cn(n) for n in names))
    return {"GenLexer.v": "\n".join(o) + "\n"}


if __name__ == "__main__":
    import sys
    print(translate(sys.argv[1] if len(sys.argv) > 1 else "/repo")["GenLexer.v"])
