"""T-server: crates/lsp/src/server.rs + from_proto.rs (+ shape checks on to_proto.rs, vfs.rs, ide analysis.rs)
-> GenServerSkel.v

For every LanguageServer handler and for Server::{set_file_content, update_diagnostics, spawn_with_snapshot} the
ORDERED sequence of synchronisation operations, as lists of the `mact` / `wact` constructors of TG.Model.Sched:
  main loop   host.wait_for_snapshots() -> MBar; self.vfs.write() -> MVW; host.set_file_content -> MQW QContent;
              host.set_root_file -> inner k ++ [MQW QRoot]; drop of the write guard -> MVWu; spawn_with_snapshot ->
              MSpawn <skeleton of the closure>; the hook points that are not lock operations -> MNote
  task        start of the closure -> WStart; snap.vfs.read() (directly or through from_proto::{file_pos,file,
              file_range} and their private helpers) -> WReqV <site>; WAcqV; drop of the guard (explicit drop / end of
              the block it is bound in) -> WRelV; published_files.lock() -> WReqP; WAcqP; its drop -> WRelP; a
              statement calling an analysis query -> WCompute; client.publish_diagnostics -> WPub; end of the
              closure -> WDrop (the snapshot is the closure's parameter), WEnd
The hook points of H2 (statements under #[cfg(tablegen_lsp_verif)]) are translated too and must sit exactly where
the model's observed actions are: `task.vfs_read.<site>` immediately before a vfs.read(), `task.vfs_acquired`
immediately after it, `main.barrier.after` immediately after wait_for_snapshots(), ...

Rigid subset; everything else is a TranslateError (= broken tie, never silently ignored): a lock taken in an
expression that is not `let <name> = <lock>().unwrap();`, in a condition / match / nested closure, in a loop other
than the publish loop of the diagnostics task, a guard stored or returned by anything but a private helper, the
snapshot moved out of the closure (returned, destructured, stored), break/continue/return inside the publish loop, a
request future that is not `Box::pin(async move { task.await.unwrap() })`, a critical section of published_files
that is not the canonical difference-then-replace, any synchronisation token left unclassified in the four files."""
import re
from rsutil import TranslateError, read, strip_comments, matching_brace

GUARD = "tablegen_lsp_verif"
SITES = {"file_pos": "SFilePos", "file": "SFile", "file_range": "SFileRange", "definition": "SDefinition",
         "references": "SReferences", "document_link": "SDocumentLink", "diagnostics": "SDiagnostics"}
MNOTES = {"main.barrier.before": "PBarrierBefore", "main.vfs_write.before": "PVfsWriteBefore",
          "main.host_set_file_content.before": "PSetContentBefore", "main.vfs_write.released": "PVfsWriteReleased",
          "main.update_diagnostics": "PUpdateDiagnostics"}
# hook that must immediately follow an operation
AFTER = {"MBar": "main.barrier.after", "MVW": "main.vfs_write.acquired", "MQW QContent": "main.host_set_file_content.after",
         "MQW QRoot": "main.host_set_root_file.after"}
REQUEST_HANDLERS = ["hover", "definition", "references", "document_symbol", "inlay_hint", "completion", "document_link",
                    "folding_range"]
SYNC_TOKEN = re.compile(r"\.read\(\)|\.write\(\)|\.lock\(\)|\.try_read\(\)|\.try_write\(\)|\.try_lock\(\)|wait_for_snapshots|"
                        r"host\s*\.\s*set_file_content|host\s*\.\s*set_root_file|host\s*\.\s*analysis\(\)|spawn_blocking|"
                        r"\bspawn\(|block_on|Condvar|\.recv\(\)|\.join\(\)")
CANONICAL_SECTION = [
    "for file_id in published_files.difference(&current_files) { diagnostic_map.entry(*file_id).or_default(); }",
    "*published_files = current_files",
]


def norm(s):
    return re.sub(r"\s+", " ", s).strip()


# ------------------------------------------------------------------------------------------------ Rust text

def skip_string(src, i):
    """src[i] == '"' ; index after the closing quote"""
    j = i + 1
    while j < len(src) and src[j] != '"':
        j += 2 if src[j] == "\\" else 1
    return j + 1


def split_statements(block):
    """top-level statements of a block body: list of (attrs, text, terminated_by_semicolon)"""
    out, i, n = [], 0, len(block)
    start = 0
    depth = 0
    while i < n:
        c = block[i]
        if c == '"':
            i = skip_string(block, i)
            continue
        if c == "'":
            m = re.match(r"'(\\.|[^\\'])'", block[i:i + 4])
            i += len(m.group(0)) if m else 1
            continue
        if c in "([{":
            depth += 1
        elif c in ")]}":
            depth -= 1
            if depth == 0 and c == "}":
                head = block[start:i + 1].lstrip()
                head_noattr = re.sub(r"^(#\[[^\]]*\]\s*)+", "", head)
                rest = block[i + 1:].lstrip()
                if re.match(r"(for|if|while|loop|match|unsafe)\b|\{", head_noattr) and not re.match(r"else\b|\.|\?|;|\)", rest):
                    out.append((block[start:i + 1], False))
                    start = i + 1
        elif c == ";" and depth == 0:
            out.append((block[start:i], True))
            start = i + 1
        i += 1
    tail = block[start:].strip()
    if tail:
        out.append((block[start:], False))
    res = []
    for text, semi in out:
        t = text.strip()
        attrs = []
        while True:
            m = re.match(r"#\[", t)
            if not m:
                break
            j = matching_brace(t, 1, "[", "]")
            attrs.append(norm(t[:j + 1]))
            t = t[j + 1:].strip()
        if t:
            res.append((attrs, t, semi))
    return res


class Fn:
    def __init__(self, name, pub, params, ret, body, where):
        self.name, self.pub, self.params, self.ret, self.body, self.where = name, pub, params, ret, body, where


def all_fns(src, where):
    """every `fn` item of the file (any nesting), name -> Fn; duplicates are an error for the names we use"""
    fns = {}
    for m in re.finditer(r"(\bpub(\([a-z]+\))?\s+)?\bfn\s+([A-Za-z_][A-Za-z0-9_]*)\s*(<[^>(]*>)?\s*\(", src):
        name = m.group(3)
        p0 = m.end() - 1
        p1 = matching_brace(src, p0, "(", ")")
        k = p1 + 1
        while k < len(src) and src[k] not in "{;":
            k += 1
        if k >= len(src) or src[k] == ";":
            continue                                          # trait method declaration
        ret = norm(src[p1 + 1:k])
        b1 = matching_brace(src, k)
        params = []
        ptxt = src[p0 + 1:p1]
        depth, cur = 0, ""
        for ch in ptxt + ",":
            if ch in "(<[{":
                depth += 1
            elif ch in ")>]}":
                depth -= 1
            if ch == "," and depth == 0:
                c2 = re.sub(r"#\[[^\]]*\]", "", cur).strip()
                if c2:
                    mm = re.match(r"(&\s*(mut\s+)?self|mut\s+self|self)\b|(mut\s+)?([A-Za-z_][A-Za-z0-9_]*)\s*:", c2)
                    if not mm:
                        raise TranslateError("%s: fn %s: unsupported parameter %r" % (where, name, c2))
                    params.append("self" if mm.group(1) else mm.group(4))
                cur = ""
            else:
                cur += ch
        f = Fn(name, bool(m.group(1)), params, ret, src[k + 1:b1], where)
        fns.setdefault(name, []).append(f)
    return fns


def cut_module(src, name):
    """remove `mod name { ... }` (the hook module itself)"""
    m = re.search(r"\bmod\s+%s\s*\{" % name, src)
    if not m:
        return src
    j = matching_brace(src, m.end() - 1)
    return src[:m.start()] + src[j + 1:]


def split_args(s):
    args, depth, cur = [], 0, ""
    i = 0
    while i < len(s):
        ch = s[i]
        if ch == '"':
            j = skip_string(s, i)
            cur += s[i:j]
            i = j
            continue
        if ch in "([{":
            depth += 1
        elif ch in ")]}":
            depth -= 1
        if ch == "," and depth == 0:
            args.append(cur.strip())
            cur = ""
        else:
            cur += ch
        i += 1
    if cur.strip():
        args.append(cur.strip())
    return args


# ------------------------------------------------------------------------------------------------ translation

class Tr:
    def __init__(self, repo):
        self.srv = cut_module(strip_comments(read(repo, "crates/lsp/src/server.rs")), "verif")
        self.fp = strip_comments(read(repo, "crates/lsp/src/from_proto.rs"))
        self.fns = {}
        for where, src in (("server.rs", self.srv), ("from_proto.rs", self.fp)):
            for name, lst in all_fns(src, where).items():
                for f in lst:
                    self.fns.setdefault((where, name), []).append(f)
        self.consumed = 0          # synchronisation tokens classified so far
        self.notes = []

    def fn(self, where, name):
        lst = self.fns.get((where, name))
        if not lst:
            raise TranslateError("%s: fn %s not found" % (where, name))
        if len(lst) != 1:
            raise TranslateError("%s: fn %s defined %d times" % (where, name, len(lst)))
        return lst[0]

    # ---- which functions carry synchronisation (transitively)
    def effectful(self, where, name, seen=()):
        key = (where, name)
        if key in seen or key not in self.fns:
            return False
        for f in self.fns[key]:
            b = f.body
            if SYNC_TOKEN.search(b) or "verif_sync" in b or re.search(r"\banalysis\s*\.\s*[a-z_]+\s*\(", b) or "publish_diagnostics" in b:
                return True
            for (w2, n2) in self.calls(b, where):
                if self.effectful(w2, n2, seen + (key,)):
                    return True
        return False

    def calls(self, text, where):
        """calls to functions defined in the two files: [(where, name)]"""
        res = []
        for m in re.finditer(r"(from_proto\s*::\s*|self\s*\.\s*|Self\s*::\s*|crate\s*::\s*from_proto\s*::\s*)?\b([a-z_][A-Za-z0-9_]*)\s*\(", text):
            pre, name = (m.group(1) or ""), m.group(2)
            before = text[:m.start()].rstrip()
            if not pre and (before.endswith(".") or before.endswith("::") or before.endswith("fn")):
                continue                                    # method / path of another module
            w = "from_proto.rs" if "from_proto" in pre else ("server.rs" if pre else where)
            if (w, name) in self.fns:
                res.append((w, name))
        return res

    def call_match(self, text, where):
        """outermost calls to effectful functions of the two files"""
        last_end = 0
        for m in re.finditer(r"(from_proto\s*::\s*|self\s*\.\s*|Self\s*::\s*|crate\s*::\s*from_proto\s*::\s*)?\b([a-z_][A-Za-z0-9_]*)\s*\(", text):
            if m.start() < last_end:
                continue
            pre, name = (m.group(1) or ""), m.group(2)
            before = text[:m.start()].rstrip()
            if not pre and (before.endswith(".") or before.endswith("::") or before.endswith("fn")):
                continue
            w = "from_proto.rs" if "from_proto" in pre else ("server.rs" if pre else where)
            if (w, name) in self.fns and self.effectful(w, name):
                j = matching_brace(text, m.end() - 1, "(", ")")
                last_end = j + 1
                yield w, name, split_args(text[m.end():j]), m.start(), j + 1

    # ---- one block -> IR.  IR items: ("a", coq) | ("hook", name) | ("loop", ir) | ("exit",) | ("acq", kind, name) markers
    def block(self, body, where, owner, env, depth, role, in_loop=False, returns_guard=False, owns_snap=False):
        """env: parameter name -> string literal (for hook names passed down); role: 'main' | 'task'.
        Returns (ir, returned_guard_kind or None)."""
        if depth > 4:
            raise TranslateError("%s: %s: helper calls nested too deeply" % (where, owner))
        ir = []
        guards = []                     # (name, kind) live, bound in THIS block, in declaration order
        stmts = split_statements(body)
        returned = None
        for idx, (attrs, text, semi) in enumerate(stmts):
            last = idx == len(stmts) - 1
            cfg = [a for a in attrs if "cfg" in a]
            hookonly = False
            if cfg:
                if cfg != ["#[cfg(%s)]" % GUARD]:
                    raise TranslateError("%s: %s: unsupported cfg attribute %s" % (where, owner, cfg))
                hookonly = True
            t = norm(text)
            # -- hook point
            m = re.fullmatch(r"(?:crate\s*::\s*server\s*::\s*)?verif\s*::\s*verif_sync\s*\(\s*(\"[^\"]*\"|[A-Za-z_][A-Za-z0-9_]*)\s*\)", t)
            if m:
                if not hookonly:
                    raise TranslateError("%s: %s: verif_sync outside #[cfg(%s)]" % (where, owner, GUARD))
                arg = m.group(1)
                if not arg.startswith('"'):
                    if arg not in env:
                        raise TranslateError("%s: %s: hook point name %r is not a literal" % (where, owner, arg))
                    arg = env[arg]
                ir.append(("hook", arg.strip('"')))
                continue
            # -- explicit drop of a guard
            m = re.fullmatch(r"drop\s*\(\s*([A-Za-z_][A-Za-z0-9_]*)\s*\)", t)
            if m and any(g[0] == m.group(1) for g in guards):
                g = [g for g in guards if g[0] == m.group(1)][-1]
                guards.remove(g)
                if hookonly:
                    # the hook build drops explicitly where the other build drops at the end of the block: only
                    # hook points may follow
                    for a2, t2, _s2 in stmts[idx + 1:]:
                        if not (any(GUARD in a for a in a2) and "verif_sync" in t2):
                            raise TranslateError("%s: %s: #[cfg] drop(%s) is not at the end of its block" % (where, owner, g[0]))
                ir.append(("rel", g[1]))
                continue
            if m and m.group(1) == "snap":
                raise TranslateError("%s: %s: the snapshot is dropped explicitly" % (where, owner))
            if hookonly:
                raise TranslateError("%s: %s: unsupported statement under #[cfg(%s)]: %s" % (where, owner, GUARD, t[:80]))
            if owns_snap:
                self.check_snapshot_not_moved(t, where, owner, role)
            # -- lock acquisitions
            m = re.fullmatch(r"let\s+(mut\s+)?([A-Za-z_][A-Za-z0-9_]*)\s*=\s*(snap|self)\s*\.\s*vfs\s*\.\s*(read|write)\s*\(\s*\)\s*\.\s*unwrap\s*\(\s*\)", t)
            if m and semi:
                kind = "V" + m.group(4)
                if (kind == "Vwrite") != (role == "main" and m.group(3) == "self"):
                    raise TranslateError("%s: %s: %s lock of the vfs in a %s" % (where, owner, m.group(4), role))
                self.consumed += 1
                guards.append((m.group(2), kind))
                ir.append(("acq", kind))
                continue
            m = re.fullmatch(r"let\s+(mut\s+)?([A-Za-z_][A-Za-z0-9_]*)\s*=\s*published_files\s*\.\s*lock\s*\(\s*\)\s*\.\s*unwrap\s*\(\s*\)", t)
            if m and semi:
                if role != "task":
                    raise TranslateError("%s: %s: published_files locked on the main loop" % (where, owner))
                self.consumed += 1
                guards.append((m.group(2), "P"))
                ir.append(("acq", "P"))
                continue
            # -- main-loop operations
            if role == "main":
                if re.fullmatch(r"self\s*\.\s*host\s*\.\s*wait_for_snapshots\s*\(\s*\)", t):
                    self.consumed += 1
                    ir.append(("a", "MBar"))
                    continue
                if re.fullmatch(r"self\s*\.\s*host\s*\.\s*set_file_content\s*\(.*\)", t):
                    self.consumed += 1
                    ir.append(("a", "MQW QContent"))
                    continue
                if re.fullmatch(r"self\s*\.\s*host\s*\.\s*set_root_file\s*\(.*\)", t):
                    self.consumed += 1
                    ir.append(("inner",))
                    ir.append(("a", "MQW QRoot"))
                    continue
            # -- control flow
            m = re.match(r"let\s+Some\s*\(.*?\)\s*=\s*(.*?)\s*else\s*\{\s*return\s+Ok\s*\(\s*None\s*\)\s*;?\s*\}$", t)
            if m and role == "task":
                if in_loop:
                    raise TranslateError("%s: %s: early return inside the publish loop" % (where, owner))
                ir += self.expr(m.group(1), where, owner, env, depth, role)
                ir.append(("exit", [g[1] for g in reversed(guards)]))
                continue
            m = re.match(r"for\s+(.+?)\s+in\s+(.+?)\s*\{", t)
            if m and t.endswith("}"):
                i0, d = None, 0
                for k in range(len(text) - 1, -1, -1):      # the loop body is the LAST brace group
                    if text[k] == "}":
                        d += 1
                    elif text[k] == "{":
                        d -= 1
                        if d == 0:
                            i0 = k
                            break
                if i0 is None:
                    raise TranslateError("%s: %s: malformed loop" % (where, owner))
                lbody = text[i0 + 1:len(text) - 1]
                head = text[:i0]
                if self.has_sync(head):
                    raise TranslateError("%s: %s: synchronisation in a loop header: %s" % (where, owner, norm(head)[:80]))
                if not self.has_sync(lbody):
                    continue
                if in_loop or role != "task":
                    raise TranslateError("%s: %s: synchronisation inside a loop" % (where, owner))
                if re.search(r"\b(break|continue|return)\b", lbody):
                    raise TranslateError("%s: %s: break/continue/return inside the publish loop" % (where, owner))
                sub, _r = self.block(lbody, where, owner, env, depth, role, in_loop=True, owns_snap=owns_snap)
                ir.append(("loop", sub))
                continue
            m = re.match(r"if\s+let\s+Some\s*\(\s*[a-z_]+\s*\)\s*=\s*params\s*\.\s*content_changes\s*\.\s*first\s*\(\s*\)\s*\{", t)
            if m and role == "main" and t.endswith("}"):
                i0 = text.index("{")
                j0 = matching_brace(text, i0)
                if text[j0 + 1:].strip():
                    raise TranslateError("%s: %s: else branch on the content-change test" % (where, owner))
                sub, _r = self.block(text[i0 + 1:j0], where, owner, env, depth, role)
                self.notes.append("%s: the body runs only when the notification carries a content change" % owner)
                ir += sub
                continue
            if re.match(r"(if|match|while|loop|unsafe)\b|\{", t):
                if self.has_sync(t):
                    raise TranslateError("%s: %s: synchronisation under a condition / in a nested block: %s" % (where, owner, t[:100]))
                continue
            # -- publish
            if "publish_diagnostics" in t and role == "task":
                if not in_loop:
                    raise TranslateError("%s: %s: publish outside the publish loop" % (where, owner))
                ir.append(("a", "WPub p"))
                continue
            # -- the returned guard of a private helper
            if last and not semi and returns_guard and re.fullmatch(r"[A-Za-z_][A-Za-z0-9_]*", t) and any(g[0] == t for g in guards):
                g = [g for g in guards if g[0] == t][-1]
                guards.remove(g)
                returned = g[1]
                continue
            # -- a binding that receives the guard returned by a private helper
            m = re.fullmatch(r"let\s+(mut\s+)?([A-Za-z_][A-Za-z0-9_]*)\s*=\s*(.*)", t)
            sub = self.expr(m.group(3) if m else t, where, owner, env, depth, role, want_guard=bool(m and semi))
            if sub and sub[-1][0] == "ret":
                kind = sub[-1][1]
                sub = sub[:-1]
                guards.append((m.group(2), kind))
            ir += sub
        # end of the block: guards bound here are dropped in reverse order of declaration
        for g in reversed(guards):
            ir.append(("rel", g[1]))
        return ir, returned

    def has_sync(self, t):
        if SYNC_TOKEN.search(t) or "verif_sync" in t or "publish_diagnostics" in t:
            return True
        return False

    def check_snapshot_not_moved(self, t, where, owner, role):
        if role != "task":
            return
        for m in re.finditer(r"\bsnap\b", t):
            before = t[:m.start()].rstrip()
            after = t[m.end():].lstrip()
            if after.startswith("."):
                continue                                    # field / method access
            if before.endswith("&"):
                continue                                    # borrowed
            raise TranslateError("%s: %s: the snapshot is moved out of the task (%s)" % (where, owner, t[:100]))

    def expr(self, t, where, owner, env, depth, role, want_guard=False):
        """IR of an expression: at most one call to an effectful function of the two files, or analysis queries"""
        calls = list(self.call_match(t, where))
        rest = t
        for _w, _n, _a, s, e in reversed(calls):
            rest = rest[:s] + rest[e:]
        has_query = bool(re.search(r"\banalysis\s*\.\s*[a-z_]+\s*\(", rest))
        if SYNC_TOKEN.search(rest) or "verif_sync" in rest:
            raise TranslateError("%s: %s: unclassified synchronisation operation: %s" % (where, owner, norm(t)[:120]))
        if not calls:
            return [("a", "WCompute")] if has_query and role == "task" else []
        if len(calls) > 1 or has_query:
            raise TranslateError("%s: %s: several synchronising calls in one statement: %s" % (where, owner, norm(t)[:120]))
        w, name, args, _s, _e = calls[0]
        f = self.fn(w, name)
        if w == "server.rs" and name == "spawn_with_snapshot":
            return self.spawn(args, where, owner, env, depth, t)
        params = [p for p in f.params if p != "self"]
        env2 = {}
        for p, a in zip(params, args):
            if re.fullmatch(r'"[^"]*"', a):
                env2[p] = a
            elif a in env:
                env2[p] = env[a]
        rg = "Guard" in f.ret
        if rg and f.pub:
            raise TranslateError("%s: fn %s: a public function returns a lock guard" % (w, name))
        if rg and not want_guard:
            raise TranslateError("%s: %s: the guard returned by %s is not bound by a let" % (where, owner, name))
        site_owner = owner if not f.pub and w == where else name
        sub, returned = self.block(f.body, w, site_owner, env2, depth + 1, role, returns_guard=rg)
        if rg:
            if returned is None:
                raise TranslateError("%s: fn %s: returns a guard that is not bound in its body" % (w, name))
            sub = sub + [("ret", returned)]
        return sub

    # ---- spawn_with_snapshot(params, move |snap, ..| { body })
    def spawn(self, args, where, owner, env, depth, t):
        if len(args) >= 2:
            args = [args[0], ", ".join(args[1:])]          # the commas between the closure's parameters
        if len(args) != 2:
            raise TranslateError("%s: %s: spawn_with_snapshot with %d arguments" % (where, owner, len(args)))
        m = re.match(r"move\s*\|\s*snap\s*,\s*(params|_)\s*\|\s*\{", args[1])
        if not m or not args[1].endswith("}"):
            raise TranslateError("%s: %s: the task is not a `move |snap, ..| { .. }` closure" % (where, owner))
        body = args[1][m.end():-1]
        wir, _r = self.block(body, where, owner, env, depth + 1, "task", owns_snap=True)
        skel = self.task_skeleton(wir, owner)
        # the wrapper: snapshot, hook, spawn_blocking
        f = self.fn("server.rs", "spawn_with_snapshot")
        b = norm(f.body)
        pat = (r"let snap = ServerSnapshot \{ analysis: self\.host\.analysis\(\), vfs: Arc::clone\(&self\.vfs\), \};\s*"
               r"#\[cfg\(%s\)\] verif::verif_sync\(\"main\.spawn\"\);\s*"
               r"#\[cfg\(%s\)\] let f = move \|snap: ServerSnapshot, params: P\| \{ verif::verif_sync\(\"task\.start\"\); "
               r"let result = f\(snap, params\); verif::verif_sync\(\"task\.end\"\); result \};\s*"
               r"task::spawn_blocking\(move \|\| f\(snap, params\)\)") % (GUARD, GUARD)
        if not re.fullmatch(pat, b):
            raise TranslateError("server.rs: spawn_with_snapshot does not have the expected shape "
                                 "(snapshot, main.spawn, task.start / task.end wrapper, spawn_blocking): %s" % b[:300])
        if not getattr(self, "_spawn_counted", False):
            self.consumed += 2                              # host.analysis(), spawn_blocking
            self._spawn_counted = True
        return [("spawn", skel)]

    # ---- IR of a task -> segments
    def task_skeleton(self, ir, owner):
        """returns dict(pre, post, exit_rel, loop) of Coq action lists"""
        def conv(items, allow_loop):
            out, i = [], 0
            loop = None
            while i < len(items):
                it = items[i]
                if it[0] == "hook":
                    name = it[1]
                    if name.startswith("task.vfs_read."):
                        site = name[len("task.vfs_read."):]
                        if site not in SITES:
                            raise TranslateError("%s: unknown vfs.read() site %r" % (owner, site))
                        if not (i + 2 < len(items) and items[i + 1] == ("acq", "Vread") and items[i + 2] == ("hook", "task.vfs_acquired")):
                            raise TranslateError("%s: hook %s is not followed by vfs.read() and task.vfs_acquired" % (owner, name))
                        out += ["WReqV " + SITES[site], "WAcqV"]
                        i += 3
                        continue
                    if name == "task.published_files.lock":
                        if not (i + 1 < len(items) and items[i + 1] == ("acq", "P")):
                            raise TranslateError("%s: hook %s is not followed by published_files.lock()" % (owner, name))
                        out += ["WReqP", "WAcqP"]
                        i += 2
                        continue
                    raise TranslateError("%s: hook point %s at an unexpected place" % (owner, name))
                if it[0] == "acq":
                    raise TranslateError("%s: a lock is taken without its hook point (%s)" % (owner, it[1]))
                if it[0] == "rel":
                    if it[1] not in ("Vread", "P"):
                        raise TranslateError("%s: guard %s released in a task" % (owner, it[1]))
                    out.append({"Vread": "WRelV", "P": "WRelP"}[it[1]])
                elif it[0] == "a":
                    out.append(it[1])
                elif it[0] == "loop":
                    if not allow_loop or loop is not None:
                        raise TranslateError("%s: more than one synchronising loop" % owner)
                    body, l2 = conv(it[1], False)
                    if body.count("WPub p") != 1:
                        raise TranslateError("%s: the publish loop does not publish exactly once per iteration" % owner)
                    loop = (len(out), body)
                elif it[0] == "exit":
                    out.append(it)
                else:
                    raise TranslateError("%s: unexpected item %r in a task" % (owner, it))
                i += 1
            return out, loop
        acts, loop = conv(ir, True)
        exits = [k for k, a in enumerate(acts) if isinstance(a, tuple)]
        if len(exits) > 1:
            raise TranslateError("%s: more than one early return" % owner)
        if "WPub p" in acts:
            raise TranslateError("%s: publish outside a loop" % owner)
        return {"acts": acts, "loop": loop, "exit": exits[0] if exits else None}

    # ---- main handler -> list of segments
    def main_script(self, where, name):
        f = self.fn(where, name)
        ir, _r = self.block(f.body, where, name, {}, 0, "main")
        out = []
        i = 0
        while i < len(ir):
            it = ir[i]
            if it[0] == "hook":
                n = it[1]
                if n in MNOTES:
                    out.append("MNote " + MNOTES[n])
                elif n in AFTER.values():
                    raise TranslateError("%s: hook %s does not follow its operation" % (name, n))
                else:
                    raise TranslateError("%s: hook point %s at an unexpected place" % (name, n))
            elif it[0] == "a":
                out.append(it[1])
                if it[1] in AFTER:
                    if not (i + 1 < len(ir) and ir[i + 1] == ("hook", AFTER[it[1]])):
                        raise TranslateError("%s: %s is not followed by hook %s" % (name, it[1], AFTER[it[1]]))
                    i += 1
            elif it[0] == "acq":
                if it[1] != "Vwrite":
                    raise TranslateError("%s: lock %s on the main loop" % (name, it[1]))
                out.append("MVW")
                if not (i + 1 < len(ir) and ir[i + 1] == ("hook", AFTER["MVW"])):
                    raise TranslateError("%s: vfs.write() is not followed by hook %s" % (name, AFTER["MVW"]))
                i += 1
            elif it[0] == "rel":
                out.append("MVWu")
            elif it[0] == "inner":
                out.append(("inner",))
            elif it[0] == "spawn":
                out.append(("spawn", it[1]))
            else:
                raise TranslateError("%s: unexpected item %r on the main loop" % (name, it))
            i += 1
        return out


# ------------------------------------------------------------------------------------------------ rendering

def coq_list(acts):
    return "[" + "; ".join(acts) + "]"


def render_task(name, sk):
    acts, loop, ex = sk["acts"], sk["loop"], sk["exit"]
    if loop is not None:
        if ex is not None:
            raise TranslateError("%s: early return in a task with a publish loop" % name)
        k, body = loop
        return ("Definition gen_%s_pre : list (wact P) := %s.\n"
                "Definition gen_%s_body (p : P) : list (wact P) := %s.\n"
                "Definition gen_%s_post : list (wact P) := %s.\n"
                "Definition gen_%s (pubs : list P) : list (wact P) :=\n"
                "  gen_%s_pre ++ flat_map gen_%s_body pubs ++ gen_%s_post.\n") % (
            name, coq_list(["WStart"] + acts[:k]), name, coq_list(body), name, coq_list(acts[k:] + ["WDrop", "WEnd"]),
            name, name, name, name)
    if ex is None:
        return "Definition gen_%s (found : bool) : list (wact P) := %s.\n" % (name, coq_list(["WStart"] + acts + ["WDrop", "WEnd"]))
    pre, post = acts[:ex], acts[ex + 1:]
    rel_exit = [{"Vread": "WRelV", "P": "WRelP"}[g] for g in acts[ex][1]]
    return ("Definition gen_%s (found : bool) : list (wact P) :=\n  %s ++ (if found then %s else %s) ++ [WDrop; WEnd].\n" % (
        name, coq_list(["WStart"] + pre), coq_list(post), coq_list(rel_exit)))


def render_main(name, script, task_name, task_is_loop, extra_params):
    segs, cur = [], []
    for a in script:
        if isinstance(a, tuple):
            if cur:
                segs.append(coq_list(cur))
                cur = []
            if a[0] == "inner":
                segs.append("inner k")
            else:
                segs.append("[MSpawn (gen_%s %s)]" % (task_name, "pubs" if task_is_loop else "found"))
        else:
            cur.append(a)
    if cur:
        segs.append(coq_list(cur))
    return "Definition gen_main_%s %s : list (mact P) :=\n  %s.\n" % (name, extra_params, " ++ ".join(segs))


def translate(repo):
    tr = Tr(repo)
    out = ["(** GENERATED by tools/translate/t_server.py from crates/lsp/src/server.rs and from_proto.rs - do not edit.",
           "    The ordered synchronisation operations of every handler, as actions of TG.Model.Sched. *)",
           "From Coq Require Import List Bool.", "From TG.Model Require Import Sched.", "Import ListNotations.", "",
           "Section Gen.", "Context {P : Type}.", ""]
    # request handlers
    for h in REQUEST_HANDLERS:
        f = tr.fn("server.rs", h)
        stmts = split_statements(f.body)
        spawn = [s for s in stmts if "spawn_with_snapshot" in s[1]]
        if len(spawn) != 1 or not re.match(r"let\s+task\s*=\s*self\s*\.\s*spawn_with_snapshot\s*\(", norm(spawn[0][1])):
            raise TranslateError("server.rs: %s: expected exactly one `let task = self.spawn_with_snapshot(..)`" % h)
        tail = stmts[-1]
        if tail[2] or norm(tail[1]) != "Box::pin(async move { task.await.unwrap() })":
            raise TranslateError("server.rs: %s: the response future is not `Box::pin(async move { task.await.unwrap() })`: %s" % (h, norm(tail[1])[:120]))
        for a, t, s in stmts:
            if s and "spawn_with_snapshot" not in t and tr.has_sync(t):
                raise TranslateError("server.rs: %s: synchronisation outside the task: %s" % (h, norm(t)[:100]))
        script = tr.main_script("server.rs", h)
        sp = [a for a in script if isinstance(a, tuple) and a[0] == "spawn"]
        if len(sp) != 1 or len(script) != 1:
            raise TranslateError("server.rs: %s: the handler does more than spawning its task: %r" % (h, script))
        if sp[0][1]["loop"] is not None:
            raise TranslateError("server.rs: %s: a request task with a publish loop" % h)
        out.append(render_task(h, sp[0][1]))
        out.append(render_main(h, script, h, False, "(found : bool)"))
    # notifications
    diag_done = False
    for h in ("did_open", "did_change"):
        script = tr.main_script("server.rs", h)
        sp = [a for a in script if isinstance(a, tuple) and a[0] == "spawn"]
        if len(sp) != 1 or sp[0][1]["loop"] is None:
            raise TranslateError("server.rs: %s: expected exactly one spawned diagnostics task with a publish loop" % h)
        if not diag_done:
            out.append(render_task("diag", sp[0][1]))
            first = sp[0][1]
            diag_done = True
        elif sp[0][1] != first:
            raise TranslateError("server.rs: did_open and did_change spawn different diagnostics tasks")
        if sum(1 for a in script if a == ("inner",)) != 1:
            raise TranslateError("server.rs: %s: expected exactly one host.set_root_file" % h)
        out.append(render_main(h, script, "diag", True, "(k : nat) (pubs : list P)"))
    out += ["End Gen.", ""]
    # the critical section of published_files: canonical difference-then-replace (ServerProto.task_pubs)
    ud = tr.fn("server.rs", "update_diagnostics").body
    m = re.search(r"let\s+mut\s+published_files\s*=\s*published_files\s*\.\s*lock\s*\(\s*\)\s*\.\s*unwrap\s*\(\s*\)\s*;", ud)
    e = re.search(r"drop\s*\(\s*published_files\s*\)\s*;", ud)
    if not m or not e or e.start() < m.end():
        raise TranslateError("server.rs: update_diagnostics: critical section of published_files not found")
    section = [norm(t) for _a, t, _s in split_statements(ud[m.end():e.start()])]
    if section != CANONICAL_SECTION:
        raise TranslateError("server.rs: update_diagnostics: the critical section of published_files is not the canonical "
                             "difference-then-replace: %r" % section)
    before = norm(ud[:m.start()])
    if not re.search(r"let current_files: HashSet<FileId> = diagnostic_map\.keys\(\)\.copied\(\)\.collect\(\);", before):
        raise TranslateError("server.rs: update_diagnostics: current_files is not the key set of the diagnostic map")
    if not re.search(r"let diag_version = self\.bump_diagnostic_version\(\);", norm(ud)) or \
            not re.search(r"PublishDiagnosticsParams::new\(file_uri, lsp_diags, Some\(diag_version\)\)", norm(ud)):
        raise TranslateError("server.rs: update_diagnostics: the version of a task is not the value of bump_diagnostic_version()")
    bd = norm(tr.fn("server.rs", "bump_diagnostic_version").body)
    if bd != "let version = self.diagnostic_version; self.diagnostic_version += 1; version":
        raise TranslateError("server.rs: bump_diagnostic_version is not read-then-increment: %s" % bd)
    # the ide side of the salsa writes
    an = strip_comments(read(repo, "crates/ide/src/analysis.rs"))
    afn = all_fns(an, "analysis.rs")
    for name, pat in (("wait_for_snapshots", r"synthetic_write\s*\("),
                      ("set_file_content", r"self\s*\.\s*db\s*\.\s*set_file_content\s*\("),
                      ("set_root_file", r"collect_sources\s*\(.*self\s*\.\s*db\s*\.\s*set_source_root\s*\(")):
        fs = afn.get(name)
        if not fs or len(fs) != 1 or not re.search(pat, fs[0].body, re.S):
            raise TranslateError("analysis.rs: AnalysisHost::%s does not have the expected shape" % name)
        if re.search(r"\b(if|match|while|loop)\b", fs[0].body):
            raise TranslateError("analysis.rs: AnalysisHost::%s: conditional salsa write" % name)
    fa = afn.get("analysis")
    if not fa or "snapshot()" not in fa[0].body:
        raise TranslateError("analysis.rs: AnalysisHost::analysis does not take a salsa snapshot")
    # every synchronisation token of the files is accounted for
    total = len(SYNC_TOKEN.findall(tr.srv)) + len(SYNC_TOKEN.findall(tr.fp))
    # handlers are translated once each; the shared callees (from_proto lookups, set_file_content, update_diagnostics) are
    # inlined at every call: count the distinct source occurrences instead
    seen = count_source_tokens(tr)
    if seen != total:
        raise TranslateError("unclassified synchronisation operation(s): %d in the sources, %d classified" % (total, seen))
    for rel in ("crates/lsp/src/to_proto.rs", "crates/lsp/src/vfs.rs"):
        s2 = strip_comments(read(repo, rel))
        mm = SYNC_TOKEN.search(s2)
        if mm:
            raise TranslateError("%s: unexpected synchronisation operation %r" % (rel, mm.group(0)))
    # the optional hook H2b
    drop_hook = bool(re.search(r"impl\s+Drop\s+for\s+ServerSnapshot", tr.srv))
    out.append("Definition gen_snapshot_drop_hook : bool := %s." % ("true" if drop_hook else "false"))
    out.append("(* notes: %s *)" % "; ".join(sorted(set(tr.notes))))
    return {"GenServerSkel.v": "\n".join(out) + "\n"}


def count_source_tokens(tr):
    """synchronisation tokens that lie inside the bodies of the functions reachable from the handlers"""
    reach = set()
    work = [("server.rs", h) for h in REQUEST_HANDLERS + ["did_open", "did_change"]]
    while work:
        key = work.pop()
        if key in reach or key not in tr.fns:
            continue
        reach.add(key)
        for f in tr.fns[key]:
            for c in tr.calls(f.body, key[0]):
                work.append(c)
    n = 0
    for key in reach:
        for f in tr.fns[key]:
            n += len(SYNC_TOKEN.findall(f.body))
    return n
