"""T-host: crates/ide/src/file_system.rs (FilePath / FileSet / SourceRoot methods, collect_sources,
resolve_include_file; list_includes by shape), crates/ide/src/analysis.rs (AnalysisHost::set_file_content,
set_root_file) and crates/lsp/src/vfs.rs (struct Vfs, set_open_document, assign_or_get_file_id, path_for_file,
read_content and their private helpers)  ->  coq/gen/GenFileSystem.v

The Rust text is read with a hand-written tokenizer + recursive-descent parser (tokenizer and the expression
grammar are copied from t_lineindex.py and extended: generics, `&mut`, `if let`, `let .. else`, `while let`,
`continue`, tuple fields, trait impls, cfg-attributed statements) and rendered one-to-one in Gallina over the
contracts of coq/model/FsOps.v: every mutable place (locals, `&mut` parameters, `self`) is threaded by
shadowing lets, calls with `&mut` arguments return the new values, panicking operations are `bind`s in Rust's
evaluation order, `for` / `while let Some(x) = q.pop_front()` become the loop combinators over the tuple of the
enclosing variables the body assigns.  Comments, formatting, names of locals / parameters / private helper fns,
log macros and the texts of expect("..") are normalised away.  Anything outside the subset raises
TranslateError naming file and line: a broken tie, never silently skipped.
TG.Proofs.GenFileSystemEq proves the rendering equal to the hand model (Includes.v / Host.v) for all arguments."""
import re
from rsutil import TranslateError, read, strip_comments, cut_tests

FILE_SYSTEM = "crates/ide/src/file_system.rs"
ANALYSIS = "crates/ide/src/analysis.rs"
VFS = "crates/lsp/src/vfs.rs"

# ----------------------------------------------------------------------------- tokenizer (after t_lineindex.py)

PUNCT = ["..=", "::", "->", "=>", "&&", "||", "==", "!=", "<=", ">=", "+=", "-=", "*=", "/=", "|=", "&=", "^=",
         "..", "(", ")", "{", "}", "[", "]", "<", ">", ",", ";", ":", ".", "=", "!", "&", "*", "|", "#", "+", "-",
         "/", "%", "^", "?", "@"]


class Tok:
    def __init__(self, kind, val, line):
        self.kind, self.val, self.line = kind, val, line

    def __repr__(self):
        return "%s:%r@%d" % (self.kind, self.val, self.line)


def tokenize(src, fname, line0=1):
    toks, i, n, line = [], 0, len(src), line0
    while i < n:
        c = src[i]
        if c == "\n":
            line += 1
            i += 1
        elif c.isspace():
            i += 1
        elif c == '"':
            j = i + 1
            while src[j] != '"':
                j += 2 if src[j] == "\\" else 1
            toks.append(Tok("STR", src[i + 1:j], line))
            line += src.count("\n", i, j)
            i = j + 1
        elif c == "'" and re.match(r"'(\\.|[^\\'])'", src[i:i + 4]):
            m = re.match(r"'(\\.|[^\\'])'", src[i:i + 4])
            toks.append(Tok("CHAR", m.group(1), line))
            i += len(m.group(0))
        elif c == "'" and re.match(r"'[A-Za-z_]+", src[i:]):
            m = re.match(r"'[A-Za-z_]+", src[i:])
            toks.append(Tok("LIFETIME", m.group(0), line))
            i += len(m.group(0))
        elif c == "r" and src.startswith("r#", i) and re.match(r"r#[A-Za-z_]", src[i:]):
            m = re.match(r"r#([A-Za-z_][A-Za-z0-9_]*)", src[i:])
            toks.append(Tok("ID", m.group(1), line))
            i += len(m.group(0))
        elif c.isalpha() or c == "_":
            m = re.match(r"[A-Za-z_][A-Za-z0-9_]*", src[i:])
            toks.append(Tok("ID", m.group(0), line))
            i += len(m.group(0))
        elif c.isdigit():
            m = re.match(r"([0-9][0-9_]*)(usize|u32|u8|u64|i32|i64)?", src[i:])
            toks.append(Tok("NUM", int(m.group(1).replace("_", "")), line))
            i += len(m.group(0))
        else:
            for p in PUNCT:
                if src.startswith(p, i):
                    toks.append(Tok("P", p, line))
                    i += len(p)
                    break
            else:
                raise TranslateError("%s:%d: unexpected character %r" % (fname, line, c))
    toks.append(Tok("EOF", None, line))
    return toks


# ----------------------------------------------------------------------------- parser (Rust subset -> AST tuples)

BINOPS = [["||"], ["&&"], ["==", "!=", "<", ">", "<=", ">="], ["+", "-"], ["*", "/", "%"]]
ASSIGN_OPS = ["=", "+=", "-="]
VERIF_CFG = "tablegen_lsp_verif"


class P:
    def __init__(self, toks, fname):
        self.t, self.i, self.f = toks, 0, fname

    def peek(self, k=0):
        return self.t[min(self.i + k, len(self.t) - 1)]

    def err(self, msg):
        tk = self.peek()
        raise TranslateError("%s:%d: %s (at %r)" % (self.f, tk.line, msg, tk.val))

    def isp(self, v, k=0):
        tk = self.peek(k)
        return tk.kind == "P" and tk.val == v

    def isid(self, v=None, k=0):
        tk = self.peek(k)
        return tk.kind == "ID" and (v is None or tk.val == v)

    def eat(self):
        tk = self.t[self.i]
        self.i += 1
        return tk

    def expect_p(self, v):
        if not self.isp(v):
            self.err("expected %r" % v)
        return self.eat()

    def expect_id(self, v=None):
        if not self.isid(v):
            self.err("expected identifier %s" % (v or ""))
        return self.eat().val

    # ---- items
    def attrs(self):
        """returns the list of attribute texts"""
        out = []
        while self.isp("#"):
            self.eat()
            if self.isp("!"):
                self.eat()
            self.expect_p("[")
            depth, txt = 1, []
            while depth:
                tk = self.eat()
                if tk.kind == "EOF":
                    self.err("unterminated attribute")
                if tk.kind == "P" and tk.val == "[":
                    depth += 1
                elif tk.kind == "P" and tk.val == "]":
                    depth -= 1
                if depth:
                    txt.append(str(tk.val))
            out.append("".join(txt))
        return out

    def vis(self):
        if self.isid("pub"):
            self.eat()
            if self.isp("("):
                self.eat()
                self.expect_id()
                self.expect_p(")")
            return True
        return False

    def skip_balanced_to(self, stop):
        depth = 0
        while True:
            tk = self.peek()
            if tk.kind == "EOF":
                self.err("unterminated item")
            if tk.kind == "P" and tk.val in ("{", "(", "["):
                depth += 1
            if tk.kind == "P" and tk.val in ("}", ")", "]"):
                depth -= 1
            self.eat()
            if tk.kind == "P" and tk.val == stop and depth == 0:
                return

    def skip_braced(self):
        self.expect_p("{")
        depth = 1
        while depth:
            tk = self.eat()
            if tk.kind == "EOF":
                self.err("unterminated block")
            if tk.kind == "P" and tk.val == "{":
                depth += 1
            if tk.kind == "P" and tk.val == "}":
                depth -= 1

    def generics(self):
        """<FS: FileSystem, ..> -> {name: bound}"""
        g = {}
        if self.isp("<"):
            self.eat()
            while not self.isp(">"):
                n = self.expect_id()
                b = None
                if self.isp(":"):
                    self.eat()
                    b = self.type_()[0]
                g[n] = b
                if self.isp(","):
                    self.eat()
            self.expect_p(">")
        return g

    def file_items(self):
        """-> dict: structs {name: {fields, tuple, derives}}, impls [{self, trait, fns}], fns {name: fn},
        traits {name: [sigs]}, other [names of unsupported items that were skipped: use / mod / const]"""
        out = {"structs": {}, "impls": [], "fns": {}, "traits": {}}
        while self.peek().kind != "EOF":
            attrs = self.attrs()
            pub = self.vis()
            if self.isid("use") or self.isid("mod") or self.isid("const") or self.isid("static") or self.isid("type"):
                self.skip_balanced_to(";")
            elif self.isid("struct"):
                self.eat()
                name = self.expect_id()
                derives = []
                for a in attrs:
                    m = re.match(r"derive\((.*)\)$", a)
                    if m:
                        derives += [x.strip() for x in m.group(1).split(",") if x.strip()]
                if self.isp("("):
                    self.eat()
                    fields = []
                    while not self.isp(")"):
                        self.vis()
                        fields.append((str(len(fields)), self.type_()[0]))
                        if self.isp(","):
                            self.eat()
                    self.expect_p(")")
                    self.expect_p(";")
                    out["structs"][name] = {"fields": fields, "tuple": True, "derives": derives}
                else:
                    self.expect_p("{")
                    fields = []
                    while not self.isp("}"):
                        self.attrs()
                        self.vis()
                        f = self.expect_id()
                        self.expect_p(":")
                        fields.append((f, self.type_()[0]))
                        if self.isp(","):
                            self.eat()
                    self.expect_p("}")
                    out["structs"][name] = {"fields": fields, "tuple": False, "derives": derives}
            elif self.isid("impl"):
                self.eat()
                self.generics()
                first = self.type_()[0]
                trait = None
                if self.isid("for"):
                    self.eat()
                    trait, first = first, self.type_()[0]
                self.expect_p("{")
                fns = []
                while not self.isp("}"):
                    self.attrs()
                    fpub = self.vis()
                    if self.isid("type") or self.isid("const"):
                        self.skip_balanced_to(";")
                        continue
                    if not self.isid("fn"):
                        self.err("only fn items are supported inside impl")
                    fn = self.fn()
                    fn["pub"] = fpub
                    fns.append(fn)
                self.expect_p("}")
                out["impls"].append({"self": first, "trait": trait, "fns": fns})
            elif self.isid("trait"):
                self.eat()
                name = self.expect_id()
                while not self.isp("{"):
                    self.eat()
                self.expect_p("{")
                sigs = []
                while not self.isp("}"):
                    self.attrs()
                    if self.isid("type") or self.isid("const"):
                        self.skip_balanced_to(";")
                        continue
                    sigs.append(self.fn(sig_only=True))
                self.expect_p("}")
                out["traits"][name] = sigs
            elif self.isid("fn"):
                fn = self.fn()
                fn["pub"] = pub
                out["fns"][fn["name"]] = fn
            elif self.isid("enum"):
                self.eat()
                self.expect_id()
                self.skip_braced()
            else:
                self.err("unsupported item")
        return out

    def fn(self, sig_only=False):
        line = self.peek().line
        self.expect_id("fn")
        name = self.expect_id()
        generics = self.generics()
        self.expect_p("(")
        params = []
        while not self.isp(")"):
            if self.isp("&") and (self.isid("self", 1) or (self.isid("mut", 1) and self.isid("self", 2))):
                self.eat()
                m = False
                if self.isid("mut"):
                    self.eat()
                    m = True
                self.eat()
                params.append(("self", "Self", m))
            elif self.isid("self"):
                self.err("by-value self receiver")
            else:
                if self.isid("mut"):
                    self.err("mut parameter")
                pname = self.expect_id()
                self.expect_p(":")
                ty, m = self.type_()
                params.append((pname, ty, m))
            if self.isp(","):
                self.eat()
        self.expect_p(")")
        ret = None
        if self.isp("->"):
            self.eat()
            ret = self.type_()[0]
        if self.isid("where"):
            self.err("where clause")
        if sig_only and self.isp(";"):
            self.eat()
            return {"name": name, "params": params, "ret": ret, "generics": generics, "line": line}
        i0 = self.i                          # the body is parsed on demand (fns that are not translated may use
        self.skip_braced()                   # constructs outside the subset)
        return {"name": name, "params": params, "ret": ret, "body_toks": self.t[i0:self.i], "generics": generics,
                "line": line, "file": self.f}

    def type_(self):
        """-> (normalised type text without & / mut / dyn / impl / lifetimes, is `&mut`)"""
        out, depth, is_mut = [], 0, False
        first = True
        while True:
            tk = self.peek()
            if tk.kind == "P" and tk.val in ("<", "(", "["):
                depth += 1
            elif tk.kind == "P" and tk.val in (">", ")", "]"):
                if depth == 0:
                    break
                depth -= 1
            elif tk.kind == "P" and tk.val in (",", "{", "}", "=", ";") and depth == 0:
                break
            elif tk.kind == "ID" and tk.val in ("for", "where") and depth == 0:
                break
            elif tk.kind == "EOF":
                self.err("bad type")
            tk = self.eat()
            if tk.kind == "P" and tk.val == "&":
                if first and self.isid("mut"):
                    is_mut = True
                first = False
                continue
            first = False
            if tk.kind == "LIFETIME" or (tk.kind == "ID" and tk.val in ("mut", "dyn", "impl")):
                continue
            out.append(str(tk.val))
        return "".join(out), is_mut

    # ---- blocks and statements
    def block(self):
        self.expect_p("{")
        stmts, tail = [], None
        while not self.isp("}"):
            attrs = self.attrs()
            s = self.stmt()
            if any(VERIF_CFG in a for a in attrs):
                continue                       # verification hook statement: compiled out of the product
            if attrs:
                self.err("attribute on a statement")
            if s[0] == "tail":
                tail = s[1]
                if not self.isp("}"):
                    self.err("expected '}' after the tail expression")
            else:
                stmts.append(s)
        self.expect_p("}")
        return ("block", stmts, tail)

    def stmt(self):
        line = self.peek().line
        if self.isid("let"):
            self.eat()
            pat = self.pattern()
            if self.isp(":"):
                self.eat()
                self.type_()
            self.expect_p("=")
            e = self.expr()
            els = None
            if self.isid("else"):
                self.eat()
                els = self.block()
            self.expect_p(";")
            return ("let", pat, e, els, line)
        if self.isid("return"):
            self.eat()
            e = None if self.isp(";") else self.expr()
            self.expect_p(";")
            return ("return", e, line)
        if self.isid("continue"):
            self.eat()
            self.expect_p(";")
            return ("continue", line)
        if self.isid("break"):
            self.err("break")
        if self.isid("while"):
            self.eat()
            if not self.isid("let"):
                self.err("only `while let Some(x) = q.pop_front()` loops are supported")
            self.eat()
            pat = self.pattern()
            self.expect_p("=")
            e = self.expr(no_struct=True)
            return ("whilelet", pat, e, self.block(), line)
        if self.isid("for"):
            self.eat()
            pat = self.pattern()
            self.expect_id("in")
            it = self.expr(no_struct=True)
            return ("for", pat, it, self.block(), line)
        if self.isid("loop"):
            self.err("loop")
        if self.isid("if") or self.isid("match"):
            e = self.if_() if self.isid("if") else self.match_()
            if self.isp("}"):
                return ("tail", e)
            if self.isp(";"):
                self.eat()
            return ("expr", e, line)
        e = self.expr()
        for op in ASSIGN_OPS:
            if self.isp(op):
                self.eat()
                rhs = self.expr()
                self.expect_p(";")
                return ("assign", op, e, rhs, line)
        if self.isp(";"):
            self.eat()
            return ("expr", e, line)
        if self.isp("}"):
            return ("tail", e)
        self.err("expected ';'")

    def pattern(self):
        tk = self.peek()
        if self.isp("&"):
            self.eat()
            return self.pattern()
        if self.isp("("):
            self.eat()
            ps = []
            while not self.isp(")"):
                ps.append(self.pattern())
                if self.isp(","):
                    self.eat()
            self.expect_p(")")
            return ("ptuple", ps)
        if tk.kind == "ID":
            if tk.val == "mut":
                self.eat()
                return ("pbind", self.expect_id())
            name = self.eat().val
            if name == "_":
                return ("pwild",)
            if name in ("Some", "Ok"):
                self.expect_p("(")
                inner = self.pattern()
                self.expect_p(")")
                return ("pctor", name, inner)
            if name == "None":
                return ("pnone",)
            if self.isp("::") or self.isp("(") or self.isp("{"):
                self.err("unsupported pattern")
            return ("pbind", name)
        self.err("unsupported pattern")

    # ---- expressions
    def expr(self, no_struct=False):
        return self.binary(0, no_struct)

    def binary(self, level, ns):
        if level == len(BINOPS):
            return self.unary(ns)
        a = self.binary(level + 1, ns)
        while any(self.isp(op) for op in BINOPS[level]):
            op = self.eat().val
            b = self.binary(level + 1, ns)
            a = ("bin", op, a, b, self.peek().line)
        return a

    def unary(self, ns):
        if self.isp("!"):
            self.eat()
            return ("not", self.unary(ns), self.peek().line)
        if self.isp("*"):
            self.eat()
            return self.unary(ns)                 # deref: identity
        if self.isp("&"):
            self.eat()
            if self.isid("mut"):
                self.eat()
                return ("mutref", self.unary(ns))
            return self.unary(ns)                 # shared borrow: identity
        if self.isp("&&") or self.isp("-"):
            self.err("unsupported unary operator")
        return self.postfix(ns)

    def postfix(self, ns):
        e = self.primary(ns)
        while True:
            line = self.peek().line
            if self.isp("."):
                self.eat()
                if self.peek().kind == "NUM":
                    e = ("tfield", e, self.eat().val, line)
                    continue
                m = self.expect_id()
                if self.isp("::"):
                    self.err("turbofish")
                if self.isp("("):
                    self.eat()
                    e = ("mcall", e, m, self.args(), line)
                else:
                    e = ("field", e, m, line)
            elif self.isp("("):
                self.eat()
                e = ("call", e, self.args(), line)
            elif self.isp("["):
                self.eat()
                idx = self.expr()
                self.expect_p("]")
                e = ("index", e, idx, line)
            elif self.isp("?"):
                self.eat()
                e = ("try", e, line)
            else:
                return e

    def args(self):
        a = []
        while not self.isp(")"):
            a.append(self.expr())
            if self.isp(","):
                self.eat()
            elif not self.isp(")"):
                self.err("expected ',' or ')'")
        self.expect_p(")")
        return a

    def primary(self, ns):
        tk = self.peek()
        if tk.kind == "NUM":
            self.eat()
            return ("num", tk.val)
        if tk.kind == "STR":
            self.eat()
            return ("str", tk.val)
        if tk.kind == "ID":
            if tk.val == "if":
                return self.if_()
            if tk.val == "match":
                return self.match_()
            if tk.val in ("true", "false"):
                self.eat()
                return ("bool", tk.val == "true")
            if tk.val in ("unsafe", "loop", "while", "for", "move", "async", "await", "let", "return", "break"):
                self.err("unsupported expression keyword")
            path = [self.eat().val]
            while self.isp("::"):
                self.eat()
                if self.isp("<"):
                    self.err("turbofish")
                path.append(self.expect_id())
            if self.isp("!"):
                if not (self.isp("(", 1) or self.isp("[", 1)):
                    self.err("macro form")
                self.eat()
                opener = self.eat().val
                close = ")" if opener == "(" else "]"
                if path[0] == "tracing" or path[-1] in ("debug", "info", "warn", "error", "trace"):
                    depth = 1                      # log macro: no effect on the modelled state
                    while depth:
                        t2 = self.eat()
                        if t2.kind == "EOF":
                            self.err("unterminated macro")
                        if t2.kind == "P" and t2.val in ("(", "[", "{"):
                            depth += 1
                        if t2.kind == "P" and t2.val in (")", "]", "}"):
                            depth -= 1
                    return ("logmacro", tk.line)
                args = []
                while not self.isp(close):
                    args.append(self.expr())
                    if self.isp(","):
                        self.eat()
                    elif self.isp(";"):
                        self.err("vec![x; n]")
                self.expect_p(close)
                return ("macro", path, args, tk.line)
            if self.isp("{") and not ns and path[-1][0].isupper():
                self.eat()
                fields = []
                while not self.isp("}"):
                    if self.isp(".."):
                        self.err("struct update syntax")
                    f = self.expect_id()
                    if self.isp(":"):
                        self.eat()
                        fields.append((f, self.expr()))
                    else:
                        fields.append((f, ("path", [f], tk.line)))
                    if self.isp(","):
                        self.eat()
                self.expect_p("}")
                return ("struct", path, fields, tk.line)
            return ("path", path, tk.line)
        if tk.kind == "P" and tk.val == "(":
            self.eat()
            if self.isp(")"):
                self.eat()
                return ("tuple", [])
            e = self.expr()
            if self.isp(","):
                es = [e]
                while self.isp(","):
                    self.eat()
                    if self.isp(")"):
                        break
                    es.append(self.expr())
                self.expect_p(")")
                return ("tuple", es)
            self.expect_p(")")
            return e
        if tk.kind == "P" and tk.val in ("|", "||"):
            self.err("closure")
        if tk.kind == "P" and tk.val == "{":
            return self.block()
        self.err("unsupported expression")

    def if_(self):
        line = self.peek().line
        self.expect_id("if")
        if self.isid("let"):
            self.eat()
            pat = self.pattern()
            self.expect_p("=")
            e = self.expr(no_struct=True)
            a = self.block()
            b = None
            if self.isid("else"):
                self.eat()
                b = self.block()
            return ("iflet", pat, e, a, b, line)
        c = self.expr(no_struct=True)
        a = self.block()
        b = None
        if self.isid("else"):
            self.eat()
            if self.isid("if"):
                b = ("block", [], self.if_())
            else:
                b = self.block()
        return ("if", c, a, b, line)

    def match_(self):
        line = self.peek().line
        self.expect_id("match")
        scrut = self.expr(no_struct=True)
        self.expect_p("{")
        arms = []
        while not self.isp("}"):
            pat = self.pattern()
            if self.isp("|") or self.isid("if"):
                self.err("or-pattern / match guard")
            self.expect_p("=>")
            if self.isp("{"):
                body = self.block()
                if self.isp(","):
                    self.eat()
            else:
                body = ("block", [], self.expr())
                if self.isp(","):
                    self.eat()
                elif not self.isp("}"):
                    self.err("expected ',' after match arm")
            arms.append((pat, body))
        self.expect_p("}")
        return ("match", scrut, arms, line)


def parse_file(repo, rel, only=None):
    """all items of a file; with `only` (names of fns / struct / impl targets) the other items are skipped
    textually (files with items outside the parser's subset, such as closures in unrelated fns)"""
    src = cut_tests(strip_comments(read(repo, rel)))
    return P(tokenize(src, rel), rel).file_items()


def body_of(fn):
    toks = fn["body_toks"] + [Tok("EOF", None, fn["body_toks"][-1].line)]
    p = P(toks, fn["file"])
    b = p.block()
    if p.peek().kind != "EOF":
        p.err("trailing tokens after the body of fn %s" % fn["name"])
    return b


# ----------------------------------------------------------------------------- types

def split_generic(t):
    """'HashMap<FilePath,Vec<X>>' -> ('HashMap', ['FilePath', 'Vec<X>'])"""
    if "<" not in t:
        return t, []
    head, rest = t.split("<", 1)
    rest = rest[:-1]
    args, depth, cur = [], 0, ""
    for ch in rest:
        if ch in "<([":
            depth += 1
        if ch in ">)]":
            depth -= 1
        if ch == "," and depth == 0:
            args.append(cur)
            cur = ""
        else:
            cur += ch
    if cur:
        args.append(cur)
    return head, args


SCALARS = {"FileId": "N", "u32": "N", "FilePath": "path", "PathBuf": "path", "Path": "path", "String": "content", "str": "content",
           "EcoString": "istr", "AsRef<Path>": "istr", "bool": "bool", "IncludeId": "rng", "SyntaxNode": "node", "Parse": "node",
           "SourceDatabase": "db", "RootDatabase": "db"}


class Types:
    def __init__(self, structs, generics=None, self_ty=None):
        self.structs, self.generics, self.self_ty = structs, generics or {}, self_ty

    def of(self, t, where):
        if t is None or t == "()":
            return "unit"
        t = t.split("::")[-1] if "<" not in t else t
        head, args = split_generic(t)
        head = head.split("::")[-1]
        if t in SCALARS:
            return SCALARS[t]
        if t.startswith("Iterator<Item=") :
            return ("list", self.of(t[len("Iterator<Item="):t.index(">")], where))
        if head == "Self" and self.self_ty:
            return SCALARS[self.self_ty] if self.self_ty in SCALARS else ("struct", self.self_ty)
        if head in self.generics:
            if self.generics[head] != "FileSystem":
                raise TranslateError("%s: type parameter %s with bound %s" % (where, head, self.generics[head]))
            return ("fs",)
        if head in SCALARS and not args:
            return SCALARS[head]
        if head == "Arc" and len(args) == 1:
            return self.of(args[0], where)
        if head == "Option" and len(args) == 1:
            return ("opt", self.of(args[0], where))
        if head == "Vec" and len(args) == 1:
            return ("list", self.of(args[0], where))
        if head == "VecDeque" and len(args) == 1:
            return ("deque", self.of(args[0], where))
        if head == "HashMap" and len(args) == 2:
            return ("hm", self.of(args[0], where), self.of(args[1], where))
        if t.startswith("[") and t.endswith("]"):
            return ("list", self.of(t[1:-1], where))
        if t.startswith("(") and t.endswith(")"):
            return ("tuple", [self.of(x, where) for x in split_generic("T<" + t[1:-1] + ">")[1]])
        if head in self.structs and not args:
            return ("struct", head)
        raise TranslateError("%s: unsupported type %r" % (where, t))


def coq_type(t):
    if isinstance(t, str):
        return {"N": "N", "path": "path", "istr": "istr", "content": "content", "bool": "bool", "unit": "unit", "db": "inputs",
                "node": "content", "rng": "rng"}[t]
    if t[0] == "opt":
        return "(option %s)" % coq_type(t[1])
    if t[0] in ("list", "deque"):
        return "(list %s)" % coq_type(t[1])
    if t[0] == "hm":
        return "(list (%s * %s))" % (coq_type(t[1]), coq_type(t[2]))
    if t[0] == "tuple":
        return "(" + " * ".join(coq_type(x) for x in t[1]) + ")"
    if t[0] == "struct":
        return "g" + t[1]
    if t[0] == "fs":
        return "FS"
    raise TranslateError("no Coq type for %r" % (t,))


def key_eqb(k, where):
    if k == "path":
        return "path_eqb"
    if k == "N":
        return "N.eqb"
    if k == "rng":
        return "rng_eqb"
    raise TranslateError("%s: HashMap lookup with key type %r" % (where, k))


def tuple_of(names):
    return names[0] if len(names) == 1 else "(" + ", ".join(names) + ")"


def lam(binders, body):
    """fun b1 b2 .. => body, where a destructuring binder '(..) becomes a fresh variable and a let (a `fun '(a, b) '(c, d)`
    would elaborate to a match that RETURNS a function, which is not convertible with the hand model's shape)"""
    names, lets = [], ""
    for i, b in enumerate(binders):
        if b.startswith("'"):
            names.append("a_%d" % i)
            lets += "let %s := a_%d in\n" % (b, i)
        else:
            names.append(b)
    return "(fun %s =>\n%s%s)" % (" ".join(names), lets, body)


def tuple_pat(names):
    return names[0] if len(names) == 1 else "'(" + ", ".join(names) + ")"


# ----------------------------------------------------------------------------- program, scans

def walk(node):
    if isinstance(node, tuple):
        yield node
        for x in node:
            for y in walk(x):
                yield y
    elif isinstance(node, list):
        for x in node:
            for y in walk(x):
                yield y


MUT_BUILTIN = {"insert", "push", "push_back", "remove", "clear", "pop_front"}
MONADIC_NAMES = {"parse", "expect", "pop_front"}


class Program:
    def __init__(self, repo):
        self.files = {rel: parse_file(repo, rel) for rel in (FILE_SYSTEM, ANALYSIS, VFS)}
        self.structs, self.methods, self.fns, self.traits = {}, {}, {}, {}
        for rel, it in self.files.items():
            for n, s in it["structs"].items():
                s["file"] = rel
                self.structs[n] = s
            for n, f in it["fns"].items():
                self.fns[n] = f
            self.traits.update(it["traits"])
            for im in it["impls"]:
                for f in im["fns"]:
                    f["self_struct"], f["trait"] = im["self"], im["trait"]
                    if (im["self"], f["name"]) in self.methods:
                        raise TranslateError("%s: duplicate fn %s::%s" % (rel, im["self"], f["name"]))
                    self.methods[(im["self"], f["name"])] = f
        self._body, self._mon, self._fuel = {}, {}, {}

    def body(self, fn):
        k = id(fn)
        if k not in self._body:
            self._body[k] = body_of(fn)
        return self._body[k]

    def callees(self, fn):
        """name-based over-approximation of the user fns a body may call"""
        out = []
        for n in walk(self.body(fn)):
            if n and n[0] == "mcall":
                out += [f for (s, m), f in self.methods.items() if m == n[2]]
            if n and n[0] == "call" and n[1][0] == "path" and n[1][1][-1] in self.fns:
                out.append(self.fns[n[1][1][-1]])
        return out

    def _scan(self, fn, memo, local):
        k = id(fn)
        if k in memo:
            return memo[k]
        memo[k] = False
        try:
            body = self.body(fn)
        except TranslateError:
            return False                    # a fn outside the subset: only matters when it is actually translated
        r = local(body) or any(self._scan(c, memo, local) for c in self.callees(fn))
        memo[k] = r
        return r

    def monadic(self, fn):
        def local(body):
            for n in walk(body):
                if n and (n[0] in ("index", "whilelet") or (n[0] == "mcall" and n[2] in MONADIC_NAMES)):
                    return True
                if n and n[0] == "mcall" and n[2] == "path_for_file" and n[1][0] == "path" and len(n[1][1]) == 1:
                    return True             # trait FileSystem::path_for_file on a variable: may panic
            return False
        return self._scan(fn, self._mon, local)

    def fuel(self, fn):
        return self._scan(fn, self._fuel, lambda body: any(n and n[0] == "whilelet" for n in walk(body)))


# ----------------------------------------------------------------------------- rendering

IDENTITY_METHODS = {"clone", "cloned", "copied", "as_str", "to_string", "as_ref", "iter", "into_iter", "collect", "to_owned",
                    "syntax_node"}
IDENTITY_CALLS = {("Arc", "new"), ("Arc", "from"), ("Arc", "clone"), ("FilePath",), ("FileId",), ("IncludeId",),
                  ("FilePath", "from"), ("PathBuf", "from")}


class Ctx:
    """control context of the statements being rendered"""
    def __init__(self, monadic, on_return, on_continue=None):
        self.monadic, self.on_return, self.on_continue = monadic, on_return, on_continue


class Gen:
    def __init__(self, prog):
        self.p = prog
        self.sigs = {}          # id(fn) -> signature dict
        self.out = {}           # section name -> list of definitions
        self.order = []         # (section, text)
        self.records = set()

    # ---- names
    def fn_coq_name(self, fn):
        if "self_struct" in fn:
            s = fn["self_struct"]
            public = fn.get("pub") or fn.get("trait")
            return "gen_%s_%s" % (s, fn["name"]) if public else "gen_%s_priv_%s" % (s, fn["name"])
        return "gen_%s" % fn["name"] if (fn.get("pub") or fn["name"] in ("resolve_include_file", "list_includes")) \
            else "gen_priv_%s" % fn["name"]

    def field_acc(self, struct, field):
        return "g%s_%s" % (struct, field)

    def where(self, fn, line=None):
        return "%s:%d" % (fn["file"], line or fn["line"])

    # ---- records
    def record(self, name):
        if name in self.records:
            return
        s = self.p.structs[name]
        if s["tuple"]:
            raise TranslateError("%s: tuple struct %s used as a state record" % (s["file"], name))
        ty = Types(self.p.structs)
        fields = [(f, ty.of(t, "%s: struct %s" % (s["file"], name))) for f, t in s["fields"]]
        for _, t in fields:
            if isinstance(t, tuple) and t[0] == "struct":
                self.record(t[1])
        self.records.add(name)
        s["ftypes"] = fields
        self.order.append(("plain", "(* %s: struct %s *)\nRecord g%s := mk_g%s { %s }." % (
            s["file"], name, name, name, "; ".join("%s : %s" % (self.field_acc(name, f), coq_type(t)) for f, t in fields))))

    def default_of(self, t, where):
        if t == "N":
            return "0"
        if isinstance(t, tuple) and t[0] in ("hm", "list", "deque"):
            return "[]"
        if isinstance(t, tuple) and t[0] == "opt":
            return "None"
        if isinstance(t, tuple) and t[0] == "struct":
            s = self.p.structs[t[1]]
            if "Default" not in s["derives"]:
                raise TranslateError("%s: %s::default() but the struct does not derive Default" % (where, t[1]))
            self.record(t[1])
            return "(mk_g%s %s)" % (t[1], " ".join(self.default_of(ft, where) for _, ft in s["ftypes"]))
        if t == "db":
            return "db_init"
        raise TranslateError("%s: no default value for %r" % (where, t))

    def with_field(self, struct, selfcode, field, newcode):
        s = self.p.structs[struct]
        return "(mk_g%s %s)" % (struct, " ".join(newcode if f == field else "(%s %s)" % (self.field_acc(struct, f), selfcode)
                                                    for f, _ in s["ftypes"]))

    # ---- function signatures
    def sig(self, fn):
        k = id(fn)
        if k in self.sigs:
            return self.sigs[k]
        self_struct = fn.get("self_struct")
        ty = Types(self.p.structs, fn["generics"], self_struct)
        params = []
        for n, t, m in fn["params"]:
            params.append((n, ty.of("Self", self.where(fn)) if n == "self" else ty.of(t, self.where(fn)), m))
        s = {"name": self.fn_coq_name(fn), "params": params, "ret": ty.of(fn["ret"], self.where(fn)),
             "monadic": self.p.monadic(fn), "fuel": self.p.fuel(fn),
             "generic": any(t == ("fs",) for _, t, _ in params), "fn": fn, "done": False}
        self.sigs[k] = s
        return s

    def ensure(self, fn):
        s = self.sig(fn)
        if not s["done"]:
            s["done"] = True
            self.translate_fn(fn)
        return s

    def result_shape(self, s):
        """names of the in-out parameters (returned first), then the value unless unit"""
        return [n for n, _, m in s["params"] if m], s["ret"] != "unit"

    # ---- environment
    def lookup(self, env, name, where):
        for n, c, t in reversed(env):
            if n == name:
                return c, t
        raise TranslateError("%s: unknown variable %s" % (where, name))

    def root_var(self, e):
        while True:
            if e[0] == "path" and len(e[1]) == 1:
                return e[1][0]
            if e[0] in ("field", "tfield", "mutref"):
                e = e[1]
            elif e[0] == "mcall" and e[2] in IDENTITY_METHODS:
                e = e[1]
            else:
                return None

    def assigned(self, node, env, where):
        """variables of env that the statements may assign (over-approximation, in env order)"""
        names = set()
        envd = {n: t for n, c, t in env}
        for n in walk(node):
            if not n:
                continue
            if n[0] == "assign":
                names.add(self.root_var(n[2]))
            elif n[0] == "mcall":
                r = self.root_var(n[1])
                user_mut = any(m == n[2] and f["params"] and f["params"][0][0] == "self" and f["params"][0][2]
                               for (s, m), f in self.p.methods.items())
                if r and (n[2] in MUT_BUILTIN or user_mut or n[2].startswith("set_")):
                    names.add(r)
                if r and envd.get(r) == ("fs",):
                    names.add(r)
                for a in n[3]:
                    if a[0] == "mutref":
                        names.add(self.root_var(a[1]))
            elif n[0] == "call":
                callee = self.p.fns.get(n[1][1][-1]) if n[1][0] == "path" else None
                for i, a in enumerate(n[2]):
                    if a[0] == "mutref":
                        names.add(self.root_var(a[1]))
                    elif callee and i < len(callee["params"]) and callee["params"][i][2]:
                        names.add(self.root_var(a))
        seen, out = set(), []
        for n, c, t in env:
            if n in names and n not in seen:
                seen.add(n)
        for n, c, t in env:                       # declaration order, innermost binding of each name
            pass
        order = []
        for n, c, t in env:
            if n in names and n not in order:
                order.append(n)
        return order

    def check_list_includes(self):
        fn = self.p.fns["list_includes"]
        got = shape_of(fn)
        if got != LIST_INCLUDES_SHAPE:
            raise TranslateError("%s:%d: list_includes no longer has the reference shape (Include descendants of the SourceFile, "
                                 "SyntaxNodePtr of the node, path()?.value()):\n  found    %s\n  expected %s"
                                 % (fn["file"], fn["line"], got, LIST_INCLUDES_SHAPE))
        if [t for _, t, _ in fn["params"]] != ["SyntaxNode"] or fn["ret"].replace(" ", "") != "Vec<(IncludeId,EcoString)>":
            raise TranslateError("%s:%d: signature of list_includes changed" % (fn["file"], fn["line"]))

    # ---- calls: one descriptor for every call-like expression
    # {"code", "monadic", "inout": [place expr], "rtype", "mutate": place expr | None (code = new value of the place)}
    def desc(self, code, rtype, monadic=False, inout=None, mutate=None):
        return {"code": code, "rtype": rtype, "monadic": monadic, "inout": inout or [], "mutate": mutate}

    def user_call(self, callee, recv, args, env, fn, line):
        s = self.ensure(callee)
        w = self.where(fn, line)
        actual = ([recv] if recv is not None else []) + list(args)
        if len(actual) != len(s["params"]):
            raise TranslateError("%s: %s expects %d arguments" % (w, s["name"], len(s["params"])))
        codes, inout = [], []
        for a, (pn, pt, pm) in zip(actual, s["params"]):
            if pm:
                place = a[1] if a[0] == "mutref" else a
                inout.append(place)
                codes.append(self.pure(place, env, fn)[0])
            else:
                codes.append(self.pure(a, env, fn)[0])
        head = s["name"] + (" fuel" if s["fuel"] else "")
        return self.desc("(%s %s)" % (head, " ".join(codes)) if codes else head, s["ret"], s["monadic"], inout)

    def call_desc(self, e, env, fn):
        """e: ("mcall", recv, name, args, line) | ("call", f, args, line) | ("index", m, k, line); None if e is no call"""
        if e[0] == "index":
            mc, mt = self.pure(e[1], env, fn)
            kc, _ = self.pure(e[2], env, fn)
            w = self.where(fn, e[3])
            if not (isinstance(mt, tuple) and mt[0] == "hm"):
                raise TranslateError("%s: indexing a %r" % (w, mt))
            return self.desc("(hm_index %s %s %s)" % (key_eqb(mt[1], w), mc, kc), mt[2], monadic=True)
        if e[0] == "call":
            if e[1][0] != "path":
                raise TranslateError("%s: call of a computed function" % self.where(fn, e[3]))
            path, args, line = tuple(e[1][1]), e[2], e[3]
            w = self.where(fn, line)
            if path in IDENTITY_CALLS or path[-2:] in IDENTITY_CALLS:
                if len(args) != 1:
                    raise TranslateError("%s: %s with %d arguments" % (w, "::".join(path), len(args)))
                return None
            if path == ("Some",):
                return None
            if path[-1] in ("new", "default") and len(path) >= 2 and not args:
                head = path[-2]
                if head == "Self":
                    head = fn.get("self_struct")
                if head in ("HashMap", "Vec", "VecDeque"):
                    return self.desc("[]", {"HashMap": ("hm", None, None), "Vec": ("list", None), "VecDeque": ("deque", None)}[head])
                if (head, path[-1]) in self.p.methods:
                    return self.user_call(self.p.methods[(head, path[-1])], None, [], env, fn, line)
                if head in self.p.structs and path[-1] == "default":
                    return self.desc(self.default_of(("struct", head), w), ("struct", head))
            if len(path) >= 2 and (path[-2], path[-1]) in self.p.methods and path[-2] in self.p.structs:
                return self.user_call(self.p.methods[(path[-2], path[-1])], None, args, env, fn, line)
            if path[-2:] == ("env", "var"):
                if args != [("str", "INCLUDE_DIR")]:
                    raise TranslateError("%s: env::var of something else than \"INCLUDE_DIR\"" % w)
                return self.desc("(env_include_dir w)", ("env",))
            if path[-2:] == ("fs", "read_to_string") and len(args) == 1:
                return self.desc("(disk_read w %s)" % self.pure(args[0], env, fn)[0], ("io",))
            if path[-2:] == ("PathBuf", "from_str") and len(args) == 1:
                c, t = self.pure(args[0], env, fn)
                return self.desc(c, ("res", "path"))
            if path[-1] == "list_includes" and len(args) == 1 and "list_includes" in self.p.fns:
                self.check_list_includes()
                return self.desc("(ast_list_includes %s)" % self.pure(args[0], env, fn)[0], ("list", ("tuple", ["rng", "istr"])))
            if path[-1] in self.p.fns and (len(path) == 1 or path[-2] in ("file_system", "crate", "self", "super")):
                return self.user_call(self.p.fns[path[-1]], None, args, env, fn, line)
            raise TranslateError("%s: call of %s is outside the translated subset" % (w, "::".join(path)))
        if e[0] != "mcall":
            return None
        recv, name, args, line = e[1], e[2], e[3], e[4]
        w = self.where(fn, line)
        if name in IDENTITY_METHODS and not args:
            return None
        rc, rt = self.pure(recv, env, fn)
        A = lambda i: self.pure(args[i], env, fn)[0]
        if name == "unwrap" and isinstance(rt, tuple) and rt[0] == "res":
            return self.desc(rc, rt[1])
        if name == "expect" and isinstance(rt, tuple) and rt[0] == "opt" and recv[0] == "mcall" and recv[2] == "parent":
            return self.desc("(expect_parent %s)" % rc, rt[1], monadic=True)
        if isinstance(rt, tuple) and rt[0] == "struct":
            if (rt[1], name) not in self.p.methods:
                raise TranslateError("%s: no fn %s::%s" % (w, rt[1], name))
            return self.user_call(self.p.methods[(rt[1], name)], recv, args, env, fn, line)
        if rt == ("fs",):
            if name == "assign_or_get_file_id" and len(args) == 1:
                return self.desc("(fs_assign fso %s %s)" % (rc, A(0)), "N", inout=[recv])
            if name == "path_for_file" and len(args) == 1:
                return self.desc("(fso_path_for_file fso %s %s)" % (rc, A(0)), "path", monadic=True)
            if name == "read_content" and len(args) == 1:
                return self.desc("(fso_read_content fso %s %s)" % (rc, A(0)), ("opt", "content"), inout=[recv])
            raise TranslateError("%s: FileSystem has no method %s" % (w, name))
        if rt == "db":
            if name == "parse" and len(args) == 1:
                return self.desc("(db_parse %s %s)" % (rc, A(0)), "node", monadic=True)
            if name == "set_file_content" and len(args) == 2:
                return self.desc("(db_set_file_content %s %s %s)" % (rc, A(0), A(1)), "unit", mutate=recv)
            if name == "set_resolved_include_map" and len(args) == 2:
                return self.desc("(db_set_resolved_include_map %s %s %s)" % (rc, A(0), A(1)), "unit", mutate=recv)
            if name == "set_source_root" and len(args) == 1:
                ac, at = self.pure(args[0], env, fn)
                if at != ("struct", "SourceRoot"):
                    raise TranslateError("%s: set_source_root of a %r" % (w, at))
                return self.desc("(set_sroot %s (source_root_value %s))" % (rc, ac), "unit", mutate=recv)
            raise TranslateError("%s: database method %s is outside the translated subset" % (w, name))
        if isinstance(rt, tuple) and rt[0] == "hm":
            if name == "insert" and len(args) == 2:
                return self.desc("(hm_insert %s %s %s)" % (rc, A(0), A(1)), "unit", mutate=recv)
            if name == "get" and len(args) == 1:
                return self.desc("(hm_get %s %s %s)" % (key_eqb(rt[1], w), rc, A(0)), ("opt", rt[2]))
            if name == "contains_key" and len(args) == 1:
                return self.desc("(hm_contains_key %s %s %s)" % (key_eqb(rt[1], w), rc, A(0)), "bool")
            if name == "remove" and len(args) == 1:
                return self.desc("(hm_remove %s %s %s)" % (key_eqb(rt[1], w), rc, A(0)), ("opt", rt[2]), inout=[recv])
            if name == "keys" and not args:
                return self.desc("(hm_keys %s)" % rc, ("list", rt[1]))
            raise TranslateError("%s: HashMap::%s is outside the translated subset" % (w, name))
        if isinstance(rt, tuple) and rt[0] in ("list", "deque"):
            if name in ("push", "push_back") and len(args) == 1:
                return self.desc("(vec_push %s %s)" % (rc, A(0)), "unit", mutate=recv)
            raise TranslateError("%s: %s::%s is outside the translated subset" % (w, rt[0], name))
        if rt == "path" and recv[0] != "tfield" and ("FilePath", name) in self.p.methods:
            return self.user_call(self.p.methods[("FilePath", name)], recv, args, env, fn, line)
        if rt == "path":
            if name == "join" and len(args) == 1:
                return self.desc("(join %s %s)" % (rc, A(0)), "path")
            if name == "parent" and not args:
                return self.desc("(parent %s)" % rc, ("opt", "path"))
        if isinstance(rt, tuple) and rt[0] == "opt":
            if name == "map" and len(args) == 1 and args[0][0] == "path" and (tuple(args[0][1]) in IDENTITY_CALLS):
                return self.desc(rc, rt)
        raise TranslateError("%s: method %s on a %r is outside the translated subset" % (w, name, rt))

    # ---- pure expressions
    def pure(self, e, env, fn):
        k = e[0]
        if k == "num":
            return str(e[1]), "N"
        if k == "bool":
            return ("true" if e[1] else "false"), "bool"
        if k == "str":
            return "tt", "unit"
        if k == "mutref":
            return self.pure(e[1], env, fn)
        if k == "path":
            if len(e[1]) == 1:
                if e[1][0] == "None":
                    return "None", ("opt", None)
                return self.lookup(env, e[1][0], self.where(fn, e[2]))
            raise TranslateError("%s: path %s used as a value" % (self.where(fn, e[2]), "::".join(e[1])))
        if k == "field":
            c, t = self.pure(e[1], env, fn)
            if not (isinstance(t, tuple) and t[0] == "struct"):
                raise TranslateError("%s: field %s of a %r" % (self.where(fn, e[3]), e[2], t))
            self.record(t[1])
            for f, ft in self.p.structs[t[1]]["ftypes"]:
                if f == e[2]:
                    return "(%s %s)" % (self.field_acc(t[1], f), c), ft
            raise TranslateError("%s: struct %s has no field %s" % (self.where(fn, e[3]), t[1], e[2]))
        if k == "tfield":
            c, t = self.pure(e[1], env, fn)
            if e[2] == 0 and t in ("path", "N", "rng"):
                return c, t
            raise TranslateError("%s: tuple field .%d of a %r" % (self.where(fn, e[3]), e[2], t))
        if k == "tuple":
            cs = [self.pure(x, env, fn) for x in e[1]]
            if not cs:
                return "tt", "unit"
            return "(" + ", ".join(c for c, _ in cs) + ")", ("tuple", [t for _, t in cs])
        if k == "macro":
            if e[1] == ["vec"]:
                cs = [self.pure(x, env, fn) for x in e[2]]
                return "[" + "; ".join(c for c, _ in cs) + "]", ("list", cs[0][1] if cs else None)
            raise TranslateError("%s: macro %s!" % (self.where(fn, e[3]), "::".join(e[1])))
        if k == "struct":
            name = e[1][-1] if e[1][-1] != "Self" else fn.get("self_struct")
            if name not in self.p.structs:
                raise TranslateError("%s: struct literal of %s" % (self.where(fn, e[3]), name))
            self.record(name)
            given = dict(e[2])
            fts = self.p.structs[name]["ftypes"]
            if sorted(given) != sorted(f for f, _ in fts):
                raise TranslateError("%s: struct literal of %s does not give exactly its fields" % (self.where(fn, e[3]), name))
            return "(mk_g%s %s)" % (name, " ".join(self.pure(given[f], env, fn)[0] for f, _ in fts)), ("struct", name)
        if k == "not":
            c, t = self.pure(e[1], env, fn)
            return "(negb %s)" % c, "bool"
        if k == "bin":
            a, ta = self.pure(e[2], env, fn)
            b, tb = self.pure(e[3], env, fn)
            if e[1] == "+" and ta == "N":
                return "(%s + %s)" % (a, b), "N"
            if e[1] == "==" and ta == "N":
                return "(%s =? %s)" % (a, b), "bool"
            if e[1] in ("&&", "||") and ta == "bool":
                return "(%s %s %s)" % (a, e[1], b), "bool"
            raise TranslateError("%s: operator %s on %r" % (self.where(fn, e[4]), e[1], ta))
        if k in ("call", "mcall", "index"):
            if k == "call" and e[1][0] == "path" and tuple(e[1][1]) == ("Some",) and len(e[2]) == 1:
                c, t = self.pure(e[2][0], env, fn)
                return "(Some %s)" % c, ("opt", t)
            d = self.call_desc(e, env, fn)
            if d is None:                       # identity wrapper
                inner = e[1] if k == "mcall" else e[2][0]
                return self.pure(inner, env, fn)
            if d["monadic"] or d["inout"] or d["mutate"] is not None:
                raise TranslateError("%s: an operation with an effect is nested inside an expression" % self.where(fn, e[-1]))
            return d["code"], d["rtype"]
        raise TranslateError("%s: expression form %s is outside the translated subset" % (self.where(fn), k))

    # ---- effects: bind the result of the operation at the root of e, then continue with k(code, type, env)
    def write_place(self, place, newcode, env, fn):
        """-> ('let .. in ' prefix) rebinding the root variable of the place"""
        if place[0] == "mutref":
            place = place[1]
        if place[0] == "path" and len(place[1]) == 1:
            c, t = self.lookup(env, place[1][0], self.where(fn))
            return "let %s := %s in\n" % (c, newcode)
        if place[0] == "field":
            bc, bt = self.pure(place[1], env, fn)
            if not (isinstance(bt, tuple) and bt[0] == "struct"):
                raise TranslateError("%s: assignment to a field of a %r" % (self.where(fn, place[3]), bt))
            self.record(bt[1])
            return self.write_place(place[1], self.with_field(bt[1], bc, place[2], newcode), env, fn)
        raise TranslateError("%s: unsupported assignment target" % self.where(fn))

    def effect(self, e, env, fn, ctx, k):
        if e[0] == "logmacro":
            return k("tt", "unit")
        d = self.call_desc(e, env, fn) if e[0] in ("call", "mcall", "index") else None
        if d is None and e[0] in ("call", "mcall"):
            inner = e[1] if e[0] == "mcall" else e[2][0]
            if not (e[0] == "call" and tuple(e[1][1]) == ("Some",)):
                return self.effect(inner, env, fn, ctx, k)       # identity wrapper around a possible effect
        if d is None:
            c, t = self.pure(e, env, fn)
            return k(c, t)
        if d["mutate"] is not None:
            if d["monadic"] or d["inout"]:
                raise TranslateError("%s: unsupported operation shape" % self.where(fn))
            return self.write_place(d["mutate"], d["code"], env, fn) + k("tt", "unit")
        if not d["monadic"] and not d["inout"]:
            return k(d["code"], d["rtype"])
        if d["monadic"] and not ctx.monadic:
            raise TranslateError("%s: a panicking operation in a fn that was classified as total" % self.where(fn))
        names = ["r_io%d" % i for i in range(len(d["inout"]))]
        has_val = d["rtype"] != "unit"
        allnames = names + (["r_val"] if has_val else [])
        rest = ""
        for n, place in zip(names, d["inout"]):
            rest += self.write_place(place, n, env, fn)
        rest += k("r_val" if has_val else "tt", d["rtype"])
        if not allnames:
            allnames = ["_"]
        if d["monadic"]:
            return "bind %s (fun %s =>\n%s)" % (d["code"], tuple_pat(allnames), rest)
        return "let %s := %s in\n%s" % (tuple_pat(allnames), d["code"], rest)

    # ---- patterns
    def bind_pat(self, pat, ty, env, fn):
        """-> (coq pattern text, extended env)"""
        if pat[0] == "pbind":
            return "v_" + pat[1], env + [(pat[1], "v_" + pat[1], ty)]
        if pat[0] == "pwild":
            return "_", env
        if pat[0] == "ptuple":
            if not (isinstance(ty, tuple) and ty[0] == "tuple" and len(ty[1]) == len(pat[1])):
                raise TranslateError("%s: tuple pattern against a %r" % (self.where(fn), ty))
            parts = []
            for p, t in zip(pat[1], ty[1]):
                c, env = self.bind_pat(p, t, env, fn)
                parts.append(c)
            return "'(" + ", ".join(parts) + ")", env
        raise TranslateError("%s: unsupported pattern" % self.where(fn))

    def option_match(self, code, ty, pat, env, fn, some_k, none_k):
        """match on Option / Result-as-option: pat is Some(p) / Ok(p)"""
        if not (pat[0] == "pctor" and isinstance(ty, tuple) and
                ((pat[1] == "Some" and ty[0] == "opt") or (pat[1] == "Ok" and ty[0] == "io"))):
            raise TranslateError("%s: pattern %r against a %r" % (self.where(fn), pat, ty))
        inner_ty = ty[1] if ty[0] == "opt" else "content"
        pc, env2 = self.bind_pat(pat[2], inner_ty, env, fn)
        if pc.startswith("'"):
            pc = pc[1:]
        return "match %s with\n| Some %s =>\n%s\n| None =>\n%s\nend" % (code, pc, some_k(env2), none_k(env))

    # ---- statements
    def contains(self, node, kinds):
        return any(n and n[0] in kinds for n in walk(node))

    def state_of(self, body, env, fn, exclude=()):
        names = [n for n in self.assigned(body, env, self.where(fn)) if n not in exclude]
        return names, [self.lookup(env, n, self.where(fn))[0] for n in names]

    def block(self, blk, env, fn, ctx, value_k, unit_k):
        """value_k(code, type, env): continuation that receives the value of the block (fn bodies, match arms in
        tail position); unit_k(env): continuation of a block used as a statement"""
        return self.stmts(blk[1], 0, blk[2], env, fn, ctx, value_k, unit_k)

    def stmts(self, sts, i, tail, env, fn, ctx, value_k, unit_k):
        if i == len(sts):
            if tail is None:
                if value_k is not None:
                    return value_k("tt", "unit", env)
                return unit_k(env)
            if value_k is not None:
                if tail[0] in ("if", "iflet") and tail[3 if tail[0] == "if" else 4] is None:
                    return self.stmt(("expr", tail, 0), env, fn, ctx, lambda env2: value_k("tt", "unit", env2))
                return self.value_expr(tail, env, fn, ctx, value_k)
            return self.stmt(("expr", tail, 0), env, fn, ctx, unit_k)
        rest = lambda env2: self.stmts(sts, i + 1, tail, env2, fn, ctx, value_k, unit_k)
        return self.stmt(sts[i], env, fn, ctx, rest)

    def value_expr(self, e, env, fn, ctx, value_k):
        """expression in value position whose branches may contain statements"""
        if e[0] == "match":
            arms = e[2]
            if len(arms) != 2:
                raise TranslateError("%s: match with %d arms" % (self.where(fn, e[3]), len(arms)))
            some = [a for a in arms if a[0][0] == "pctor"]
            none = [a for a in arms if a[0][0] in ("pnone", "pwild")]
            if len(some) != 1 or len(none) != 1:
                raise TranslateError("%s: only matches on Option (Some / None) are supported" % self.where(fn, e[3]))
            return self.effect(e[1], env, fn, ctx, lambda c, t: self.option_match(
                c, t, some[0][0], env, fn,
                lambda env2: self.block(some[0][1], env2, fn, ctx, value_k, None),
                lambda env2: self.block(none[0][1], env2, fn, ctx, value_k, None)))
        if e[0] == "iflet" and e[4] is not None:
            return self.effect(e[2], env, fn, ctx, lambda c, t: self.option_match(
                c, t, e[1], env, fn,
                lambda env2: self.block(e[3], env2, fn, ctx, value_k, None),
                lambda env2: self.block(e[4], env2, fn, ctx, value_k, None)))
        if e[0] == "if" and e[3] is not None:
            c, t = self.pure(e[1], env, fn)
            return "if %s then\n%s\nelse\n%s" % (c, self.block(e[2], env, fn, ctx, value_k, None),
                                                 self.block(e[3], env, fn, ctx, value_k, None))
        if e[0] == "block":
            return self.block(e, env, fn, ctx, value_k, None)
        return self.effect(e, env, fn, ctx, lambda c, t: value_k(c, t, env))

    def stmt(self, s, env, fn, ctx, rest):
        kind = s[0]
        if kind == "let":
            pat, e, els = s[1], s[2], s[3]
            if els is not None:
                if self.contains(els, ("continue",)) or not self.contains(els, ("return",)):
                    raise TranslateError("%s: the else block of let-else must return" % self.where(fn, s[4]))
                return self.effect(e, env, fn, ctx, lambda c, t: self.option_match(
                    c, t, pat, env, fn, rest, lambda env2: self.block(els, env2, fn, ctx, None, lambda env3: "tt")))
            def k(c, t):
                pc, env2 = self.bind_pat(pat, t, env, fn)
                return "let %s := %s in\n%s" % (pc, c, rest(env2))
            return self.effect(e, env, fn, ctx, k)
        if kind == "return":
            if s[1] is None:
                return ctx.on_return("tt", "unit", env)
            return self.value_expr(s[1], env, fn, ctx, lambda c, t, env2: ctx.on_return(c, t, env2))
        if kind == "continue":
            if ctx.on_continue is None:
                raise TranslateError("%s: continue outside a loop" % self.where(fn, s[1]))
            return ctx.on_continue(env)
        if kind == "assign":
            op, lhs, rhs = s[1], s[2], s[3]
            rc, rt = self.pure(rhs, env, fn)
            if op == "+=":
                lc, lt = self.pure(lhs, env, fn)
                if lt != "N":
                    raise TranslateError("%s: += on a %r" % (self.where(fn, s[4]), lt))
                rc = "(%s + %s)" % (lc, rc)
            elif op != "=":
                raise TranslateError("%s: assignment operator %s" % (self.where(fn, s[4]), op))
            return self.write_place(lhs, rc, env, fn) + rest(env)
        if kind == "for":
            return self.for_loop(s, env, fn, ctx, rest)
        if kind == "whilelet":
            return self.while_loop(s, env, fn, ctx, rest)
        if kind == "expr":
            e = s[1]
            if e[0] == "if":
                c, t = self.pure(e[1], env, fn)
                a = self.block(e[2], env, fn, ctx, None, rest)
                b = self.block(e[3], env, fn, ctx, None, rest) if e[3] is not None else rest(env)
                return "if %s then\n%s\nelse\n%s" % (c, a, b)
            if e[0] == "iflet":
                def k(c, t):
                    if t == ("env",):
                        return self.env_iflet(e, c, env, fn, ctx, rest)
                    return self.option_match(c, t, e[1], env, fn,
                                             lambda env2: self.block(e[3], env2, fn, ctx, None, rest),
                                             (lambda env2: self.block(e[4], env2, fn, ctx, None, rest)) if e[4] is not None else rest)
                return self.effect(e[2], env, fn, ctx, k)
            if e[0] == "match":
                return self.value_expr(e, env, fn, ctx, lambda c, t, env2: rest(env2))
            if e[0] == "block":
                return self.block(e, env, fn, ctx, None, rest)
            return self.effect(e, env, fn, ctx, lambda c, t: rest(env))
        raise TranslateError("%s: statement form %s" % (self.where(fn), kind))

    # `if let Ok(x) = env::var("INCLUDE_DIR") { body }`: the variable holds 0 or 1 directory (FsOps.env_include_dir)
    def env_iflet(self, e, code, env, fn, ctx, rest):
        pat, body, els = e[1], e[3], e[4]
        if els is not None or pat[0] != "pctor" or pat[1] != "Ok" or self.contains(body, ("return", "continue")):
            raise TranslateError("%s: unsupported use of env::var" % self.where(fn, e[5]))
        names, coqs = self.state_of(body, env, fn)
        pc, env2 = self.bind_pat(pat[2], "path", env, fn)
        inner = self.block(body, env2, fn, Ctx(False, None), None, lambda env3: tuple_of(coqs))
        return "let %s := for_each %s %s %s in\n%s" % (
            tuple_pat(coqs), code, lam([pc, tuple_pat(coqs)], inner), tuple_of(coqs), rest(env))

    def for_loop(self, s, env, fn, ctx, rest):
        pat, it, body, line = s[1], s[2], s[3], s[4]
        w = self.where(fn, line)
        ic, ity = self.pure(it, env, fn)
        if not (isinstance(ity, tuple) and ity[0] == "list"):
            raise TranslateError("%s: for over a %r" % (w, ity))
        if self.contains(body, ("continue",)):
            raise TranslateError("%s: continue inside for" % w)
        names, coqs = self.state_of(body, env, fn)
        if not coqs:
            raise TranslateError("%s: for loop without effect on the enclosing variables" % w)
        pc, env2 = self.bind_pat(pat, ity[1], env, fn)
        st, stp = tuple_of(coqs), tuple_pat(coqs)
        if self.contains(body, ("return",)):
            inner_ctx = Ctx(False, lambda c, t, env3: "Return %s %s" % (st, c))
            inner = self.block(body, env2, fn, inner_ctx, None, lambda env3: "Next %s" % st)
            if stp.startswith("'"):
                stp2 = stp[1:]
            else:
                stp2 = stp
            return "match for_find %s %s %s with\n| Return %s r_ret =>\n%s\n| Next %s =>\n%s\nend" % (
                ic, lam([pc, stp], inner), st, stp2, ctx.on_return("r_ret", None, env), stp2, rest(env))
        inner = self.block(body, env2, fn, Ctx(False, None), None, lambda env3: st)
        return "let %s := for_each %s %s %s in\n%s" % (stp, ic, lam([pc, stp], inner), st, rest(env))

    def while_loop(self, s, env, fn, ctx, rest):
        pat, e, body, line = s[1], s[2], s[3], s[4]
        w = self.where(fn, line)
        if not (pat[0] == "pctor" and pat[1] == "Some" and e[0] == "mcall" and e[2] == "pop_front" and not e[3]
                and e[1][0] == "path" and len(e[1][1]) == 1):
            raise TranslateError("%s: only `while let Some(x) = q.pop_front()` loops are supported" % w)
        if not ctx.monadic:
            raise TranslateError("%s: loop in a fn classified as total" % w)
        q = e[1][1][0]
        qc, qt = self.lookup(env, q, w)
        if not (isinstance(qt, tuple) and qt[0] == "deque"):
            raise TranslateError("%s: pop_front on a %r" % (w, qt))
        if self.contains(body, ("return",)):
            raise TranslateError("%s: return inside while let" % w)
        names, coqs = self.state_of(body, env, fn, exclude=(q,))
        st, stp = tuple_of(coqs), tuple_pat(coqs)
        pc, env2 = self.bind_pat(pat[2], qt[1] or "N", env, fn)
        done = lambda env3: "Done (%s, %s)" % (qc, st)
        inner_ctx = Ctx(True, None, on_continue=done)
        inner = self.block(body, env2, fn, inner_ctx, None, done)
        return "bind (while_pop fuel %s %s %s) (fun %s =>\n%s)" % (
            lam([pc, qc, stp], inner), qc, st, stp, rest(env))

    # ---- functions
    def translate_fn(self, fn):
        s = self.sigs[id(fn)]
        w = self.where(fn)
        body = self.p.body(fn)
        env = []
        binders = []
        if s["fuel"]:
            binders.append("(fuel : nat)")
        for n, t, m in s["params"]:
            if isinstance(t, tuple) and t[0] == "struct":
                self.record(t[1])
            env.append((n, "v_" + n, t))
            binders.append("(v_%s : %s)" % (n, coq_type(t)))
        inout, has_val = self.result_shape(s)

        def on_return(c, t, env2):
            parts = [self.lookup(env2, n, w)[0] for n in inout] + ([c] if has_val else [])
            r = tuple_of(parts) if parts else "tt"
            if not s["monadic"]:
                return r
            return "Done %s" % (r if (r.startswith("(") or " " not in r) else "(" + r + ")")
        ctx = Ctx(s["monadic"], on_return)
        code = self.block(body, env, fn, ctx, lambda c, t, env2: on_return(c, t, env2), None)
        text = "(* %s: %s%s *)\nDefinition %s %s :=\n%s." % (
            fn["file"], (fn["self_struct"] + "::") if "self_struct" in fn else "", fn["name"], s["name"], " ".join(binders), code)
        self.order.append(("generic" if s["generic"] or self.calls_generic(fn) else "plain", text))

    def calls_generic(self, fn):
        return any(self.sig(c)["generic"] for c in self.p.callees(fn) if id(c) in self.sigs)


# ----------------------------------------------------------------------------- list_includes: checked by shape

# The body of list_includes works on the rowan tree (closures, `?` in an Option closure, iterator adaptors): it is not
# rendered but compared, token by token and up to the names of its locals, with the shape whose meaning over the
# item abstraction is FsOps.ast_list_includes (Include DESCENDANTS of the SourceFile, in document order; id =
# SyntaxNodePtr of the Include node; statements without a string are dropped).
LIST_INCLUDES_SHAPE = (
    "{ ( | | -> Option < _ > { let L0 = ast :: SourceFile :: cast ( P0 ) ? ; let L1 = L0 . syntax ( ) . descendants ( ) "
    ". filter_map ( ast :: Include :: cast ) . filter_map ( | L2 | { let L3 = IncludeId ( SyntaxNodePtr :: new ( L2 . syntax ( ) ) ) ; "
    "let L4 = L2 . path ( ) ? . value ( ) ; Some ( ( L3 , L4 ) ) } ) . collect ( ) ; Some ( L1 ) } ) ( ) . unwrap_or_default ( ) }")


def shape_of(fn):
    toks = fn["body_toks"]
    names = {}
    for i, (pn, _, _) in enumerate(fn["params"]):
        names[pn] = "P%d" % i
    k = 0
    for i, t in enumerate(toks):
        if t.kind == "ID" and t.val == "let":
            j = i + 1
            if toks[j].kind == "ID" and toks[j].val == "mut":
                j += 1
            if toks[j].kind == "ID" and toks[j].val not in names:
                names[toks[j].val] = "L%d" % k
                k += 1
        if t.kind == "P" and t.val == "|" and toks[i + 1].kind == "ID" and toks[i + 2].kind == "P" and toks[i + 2].val == "|":
            if toks[i + 1].val not in names:
                names[toks[i + 1].val] = "L%d" % k
                k += 1
    out = []
    for i, t in enumerate(toks):
        after_dot = i > 0 and toks[i - 1].kind == "P" and toks[i - 1].val in (".", "::")
        if t.kind == "P" and t.val == "||":
            out += ["|", "|"]
        elif t.kind == "ID" and t.val in names and not after_dot:
            out.append(names[t.val])
        elif t.kind == "STR":
            out.append('"%s"' % t.val)
        else:
            out.append(str(t.val))
    return " ".join(out)


# ----------------------------------------------------------------------------- entry

REQUIRED = [("FilePath", "join"), ("FilePath", "parent"),
            ("FileSet", "new"), ("FileSet", "insert"), ("FileSet", "remove"), ("FileSet", "contains"),
            ("FileSet", "file_for_path"), ("FileSet", "path_for_file"), ("FileSet", "iter_files"),
            ("SourceRoot", "new"), ("SourceRoot", "root"), ("SourceRoot", "file_for_path"), ("SourceRoot", "path_for_file"),
            ("SourceRoot", "iter_files"),
            ("fn", "resolve_include_file"), ("fn", "collect_sources"),
            ("AnalysisHost", "set_file_content"), ("AnalysisHost", "set_root_file"),
            ("Vfs", "new"), ("Vfs", "file_for_path"), ("Vfs", "set_open_document"), ("Vfs", "assign_or_get_file_id"),
            ("Vfs", "path_for_file"), ("Vfs", "read_content")]

KEY_TYPES = {"FileId": ["Eq", "PartialEq", "Hash"], "FilePath": ["Eq", "PartialEq", "Hash"], "IncludeId": ["Eq", "PartialEq", "Hash"]}
EXACT_FIELDS = {"FileSet": [("path_to_id", "HashMap<FilePath,FileId>"), ("id_to_path", "HashMap<FileId,FilePath>")],
                "SourceRoot": [("file_set", "FileSet"), ("root", "FileId")],
                "AnalysisHost": [("db", "RootDatabase")]}
TRAIT_FS = [("assign_or_get_file_id", [("self", True), ("path", False)]), ("path_for_file", [("self", False), ("file_id", False)]),
            ("read_content", [("self", False), ("file_path", False)])]


def structural_checks(prog):
    for name, ders in KEY_TYPES.items():
        st = prog.structs.get(name)
        if st is None or not st["tuple"] or len(st["fields"]) != 1:
            raise TranslateError("%s: `struct %s(..)` (one field) not found" % (FILE_SYSTEM, name))
        for d in ders:
            if d not in st["derives"]:
                raise TranslateError("%s: struct %s no longer derives %s: HashMap keys are compared structurally "
                                     "(path components / id / node pointer) in the model" % (st["file"], name, d))
    for rel, it in prog.files.items():
        for im in it["impls"]:
            tr = (im["trait"] or "").split("::")[-1]
            if im["self"] in KEY_TYPES and tr.split("<")[0] in ("PartialEq", "Eq", "Hash", "Borrow"):
                raise TranslateError("%s: hand-written impl %s for %s (key equality is structural in the model)" % (rel, tr, im["self"]))
    for name, fields in EXACT_FIELDS.items():
        st = prog.structs.get(name)
        if st is None or st["tuple"] or [(f, t.replace(" ", "")) for f, t in st["fields"]] != fields:
            raise TranslateError("%s: struct %s is expected to have exactly the fields %s, found %s"
                                 % (st["file"] if st else "?", name, fields, st and st["fields"]))
    sigs = prog.traits.get("FileSystem")
    got = sigs and [(s["name"], [(n, m) for n, _, m in s["params"]]) for s in sigs]
    if got is None or [(n, [m for _, m in ps]) for n, ps in got] != [(n, [m for _, m in ps]) for n, ps in TRAIT_FS]:
        raise TranslateError("%s: trait FileSystem is expected to be assign_or_get_file_id(&mut self, path), "
                             "path_for_file(&self, id), read_content(&self, path); found %s" % (FILE_SYSTEM, got))


def translate(repo):
    prog = Program(repo)
    structural_checks(prog)
    check_shapes(repo)
    g = Gen(prog)
    for key in REQUIRED:
        fn = prog.fns.get(key[1]) if key[0] == "fn" else prog.methods.get(key)
        if fn is None:
            raise TranslateError("fn %s::%s not found" % key)
        g.ensure(fn)
    vfs_impl = [f for (s, m), f in prog.methods.items() if s == "Vfs" and f.get("trait") == "FileSystem"]
    if sorted(f["name"] for f in vfs_impl) != sorted(n for n, _ in TRAIT_FS):
        raise TranslateError("%s: impl FileSystem for Vfs not found or incomplete" % VFS)
    head = ["(* GENERATED by tools/translate/t_filesystem.py from %s, %s and %s -- do not edit *)" % (FILE_SYSTEM, ANALYSIS, VFS),
            "From Coq Require Import List NArith Bool.", "From TG.Model Require Import Includes FsOps.",
            "Import ListNotations.", "Open Scope N_scope.", "",
            "Section GenFileSystem.", "Context {path istr : Type} {PA : PathAlg path istr}.",
            "Notation content := (content istr).", "Notation inputs := (@inputs path istr).",
            "Variable w : world path istr.", ""]
    plain = [t for k, t in g.order if k == "plain"]
    generic = [t for k, t in g.order if k == "generic"]
    # the value of the SourceRoot salsa input as the model stores it: its id -> path table and the root
    srv = ("Definition source_root_value (sr : gSourceRoot) : list (N * path) * N :=\n"
           "  (gFileSet_id_to_path (gSourceRoot_file_set sr), gSourceRoot_root sr).")
    k = max(i for i, t in enumerate(plain) if "Record gSourceRoot" in t)
    plain.insert(k + 1, srv)
    body = plain + ["", "Section Generic.", "Context {FS : Type}.", "Variable fso : FileSystemOps (path := path) (istr := istr) FS."] + \
        generic + ["End Generic.", "End GenFileSystem."]
    names = [s["name"] for s in g.sigs.values() if s["done"]]
    tail = ["", "(* unfold hints: the equality proofs never mention the private helpers by name *)",
            "Global Hint Unfold %s : gensrc." % " ".join(sorted(names))]
    return {"GenFileSystem.v": "\n".join(head + body + tail) + "\n"}




# ----------------------------------------------------------------------------- further fns tied BY SHAPE (not rendered)

# These fns work on rowan trees / the symbol table / tokio locks; the hand model (Host.v: index_items, touch) abstracts them
# (handlers/document_link.rs exec is tied by translation + proof: group outline's t_handlers.py, props/HostHandlersSource.v).  They are compared token by token, up to the names of parameters and locals, comments, layout,
# log macros and `#[cfg(tablegen_lsp_verif)]` hook statements, with the shape the model was written from.  A difference
# is reported as a broken tie (the model has to be re-validated against the new text), never silently accepted.
from rsutil import matching_brace  # noqa: E402


def extract_fn_text(src, rel, anchor, name):
    """text of `fn name` (signature + body) found after the regex `anchor`"""
    m = re.search(anchor, src)
    if not m:
        raise TranslateError("%s: `%s` not found" % (rel, anchor))
    m2 = re.compile(r"\bfn\s+%s\b" % re.escape(name)).search(src, m.end() if anchor else 0)
    if not m2:
        raise TranslateError("%s: fn %s not found after `%s`" % (rel, name, anchor))
    i = src.index("(", m2.end())
    j = matching_brace(src, i, "(", ")")
    k = src.index("{", j)
    e = matching_brace(src, k)
    return src[m2.start():e + 1], 1 + src.count("\n", 0, m2.start())


def shape_of_text(text, rel, line):
    toks = tokenize(text, rel, line)[:-1]
    # drop hook statements and log macros
    out, i = [], 0
    while i < len(toks):
        t = toks[i]
        if t.kind == "P" and t.val == "#" and i + 1 < len(toks) and toks[i + 1].val == "[":
            j, depth, txt = i + 2, 1, []
            while depth:
                if toks[j].val == "[":
                    depth += 1
                elif toks[j].val == "]":
                    depth -= 1
                txt.append(str(toks[j].val))
                j += 1
            if VERIF_CFG in "".join(txt):
                depth = 0
                while not (toks[j].kind == "P" and toks[j].val == ";" and depth == 0):
                    if toks[j].kind == "P" and toks[j].val in ("(", "{", "["):
                        depth += 1
                    if toks[j].kind == "P" and toks[j].val in (")", "}", "]"):
                        depth -= 1
                    j += 1
                i = j + 1
                continue
        if t.kind == "ID" and t.val == "tracing" and toks[i + 1].val == "::" and toks[i + 3].val == "!":
            j, depth = i + 5, 1
            while depth:
                if toks[j].kind == "P" and toks[j].val in ("(", "{", "["):
                    depth += 1
                if toks[j].kind == "P" and toks[j].val in (")", "}", "]"):
                    depth -= 1
                j += 1
            if toks[j].kind == "P" and toks[j].val == ";":
                j += 1
            i = j
            continue
        out.append(t)
        i += 1
    toks = out
    names, k = {}, 0

    def bind(n):
        nonlocal k
        if n not in names and n not in ("self", "_", "mut"):
            names[n] = "L%d" % k
            k += 1
    # parameters: identifiers directly followed by ':' inside the first parenthesis group
    depth = 0
    for i, t in enumerate(toks):
        if t.kind == "P" and t.val == "(":
            depth += 1
        elif t.kind == "P" and t.val == ")":
            depth -= 1
            if depth == 0:
                break
        elif depth == 1 and t.kind == "ID" and toks[i + 1].kind == "P" and toks[i + 1].val == ":" and toks[i + 1].val != "::":
            bind(t.val)
    for i, t in enumerate(toks):
        if t.kind == "ID" and t.val == "let":
            j = i + 1
            while toks[j].kind == "ID" and toks[j].val in ("mut", "Some", "Ok") or (toks[j].kind == "P" and toks[j].val == "("):
                j += 1
            if toks[j].kind == "ID":
                bind(toks[j].val)
        if t.kind == "P" and t.val == "|" and toks[i + 1].kind == "ID" and toks[i + 2].kind == "P" and toks[i + 2].val == "|":
            bind(toks[i + 1].val)
    res = []
    for i, t in enumerate(toks):
        after_dot = i > 0 and toks[i - 1].kind == "P" and toks[i - 1].val in (".", "::")
        if t.kind == "P" and t.val == "||":
            res += ["|", "|"]
        elif t.kind == "ID" and t.val in names and not after_dot:
            res.append(names[t.val])
        elif t.kind == "STR":
            res.append('"%s"' % t.val)
        else:
            res.append(str(t.val))
    return " ".join(res)


SHAPED = [
    ("crates/ide/src/index.rs", r"impl\s+Indexable\s+for\s+ast::Include\s*\{", "index"),
    ("crates/ide/src/index/context.rs", r"impl<'a>\s+IndexCtx<'a>\s*\{", "new"),
    ("crates/ide/src/index/context.rs", r"impl<'a>\s+IndexCtx<'a>\s*\{", "current_file_id"),
    ("crates/ide/src/index/context.rs", r"impl<'a>\s+IndexCtx<'a>\s*\{", "push_file"),
    ("crates/ide/src/index/context.rs", r"impl<'a>\s+IndexCtx<'a>\s*\{", "pop_file"),
    ("crates/lsp/src/server.rs", r"impl\s+Server\s*\{", "set_file_content"),
]


EXPECTED_SHAPES = {
    ('crates/ide/src/index.rs', 'index'):
        'fn index ( & self , L0 : & mut IndexCtx ) -> Option < Self :: Output > { let L1 = L0 . current_file_id ( ) ; let L2 = L0 . db . resolved_include_map ( L1 ) ; let L3 = IncludeId ( SyntaxNodePtr :: new ( self . syntax ( ) ) ) ; let Some ( L4 ) = L2 . get ( & L3 ) . copied ( ) else { let L5 = self . path ( ) . map ( | L6 | L6 . value ( ) ) . unwrap_or_default ( ) ; L0 . error ( self . syntax ( ) . text_range ( ) , format ! ( "include file not found: {path}" ) , ) ; return None ; } ; if ! L0 . indexed_files . insert ( L4 ) { return None ; } let L7 = L0 . db . parse ( L4 ) ; let L8 = ast :: SourceFile :: cast ( L7 . syntax_node ( ) ) ? ; L0 . push_file ( L4 ) ; L8 . index ( L0 ) ; L0 . pop_file ( ) ; None }',
    ('crates/ide/src/index/context.rs', 'new'):
        "fn new ( L0 : & 'a dyn IndexDatabase , L1 : FileId ) -> Self { Self { L0 , file_trace : vec ! [ L1 ] , indexed_files : HashSet :: from ( [ L1 ] ) , symbol_map : SymbolMap :: default ( ) , diagnostics : Vec :: new ( ) , scopes : Scopes :: default ( ) , anonymous_def_index : 0 , } }",
    ('crates/ide/src/index/context.rs', 'current_file_id'):
        'fn current_file_id ( & self ) -> FileId { * self . file_trace . last ( ) . expect ( "file_trace is empty" ) }',
    ('crates/ide/src/index/context.rs', 'push_file'):
        'fn push_file ( & mut self , L0 : FileId ) { self . file_trace . push ( L0 ) ; }',
    ('crates/ide/src/index/context.rs', 'pop_file'):
        'fn pop_file ( & mut self ) { self . file_trace . pop ( ) . expect ( "file_trace is empty" ) ; }',
    ('crates/lsp/src/server.rs', 'set_file_content'):
        'fn set_file_content ( & mut self , L0 : & Url , L1 : & str ) { let L2 = UrlExt :: to_file_path ( L0 ) ; self . host . wait_for_snapshots ( ) ; let mut L3 = self . vfs . write ( ) . unwrap ( ) ; L3 . set_open_document ( L2 . clone ( ) , L1 . to_string ( ) ) ; let L4 = L3 . assign_or_get_file_id ( L2 ) ; let L1 = Arc :: from ( L1 ) ; self . host . set_file_content ( L4 , L1 ) ; self . host . set_root_file ( & mut * L3 , L4 ) ; }',
}


def check_shapes(repo):
    got = shapes(repo)
    for key, want in EXPECTED_SHAPES.items():
        if got[key] != want:
            raise TranslateError("%s: fn %s no longer has the shape the hand model (Host.v) was written from; re-validate the model.\n"
                                 "  found    %s\n  expected %s" % (key[0], key[1], got[key], want))


def shapes(repo):
    out = {}
    for rel, anchor, name in SHAPED:
        src = cut_tests(strip_comments(read(repo, rel)))
        text, line = extract_fn_text(src, rel, anchor, name)
        out[(rel, name)] = shape_of_text(text, rel, line)
    return out


if __name__ == "__main__":
    import sys
    print(translate(sys.argv[1] if len(sys.argv) > 1 else "/repo")["GenFileSystem.v"])
