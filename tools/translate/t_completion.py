"""T-completion: crates/ide/src/handlers/completion.rs -> GenCompletion.v

* the four hard-coded vocabularies (`complete_toplevel_keywords`, `complete_primitive_types`,
  `complete_primitive_values`, `complete_bang_operators`) as item lists (label, snippet, kind), in push order;
* the context dispatch of `exec`: trigger character test + `match parent_parent_node.kind()` arm table
  (the `ast::Type::can_cast` guard is expanded through the `Type` enum of ast.rs);
* the format constants of `complete_classes` (placeholder `${i+1}`, separator, angle brackets, `$0`);
* the spelling table of the `T!` macro of token_kind.rs (spelling -> TokenKind): the kind a spelling *denotes*.

Anything outside the recognised shapes raises TranslateError (a broken tie)."""
import re
from rsutil import (TranslateError, read, strip_comments, cut_tests, fn_body, matching_brace,
                    coq_str_codes, unescape_rust_str)
import t_tokens
import t_ast

SRC = "crates/ide/src/handlers/completion.rs"

# Untrusted certificate data (NOT read from the source): for every statement keyword a minimal
# well-formed statement of the documented grammar (syntax.md) that begins with it.  The theorem
# C20_keywords_start re-checks each one through the generated grammar program, the check re-parses
# each one with the real parser.  A keyword without an entry gets the keyword alone as witness.
STATEMENT_WITNESS = {
    "assert": 'assert 1, "m";',
    "class": "class A;",
    "def": "def A;",
    "dump": 'dump "m";',
    "foreach": "foreach i = [1] in def A;",
    "defm": "defm A : B;",
    "defset": "defset list<A> S = { }",
    "defvar": "defvar x = 1;",
    "if": "if 1 then def A;",
    "include": 'include "f.td"',
    "let": "let x = 1 in def A;",
    "multiclass": "multiclass M { def A; }",
}
STR = r'"((?:[^"\\]|\\.)*)"'


def _norm(s):
    return re.sub(r"\s+", "", s)


def parse_vocab_fn(src, fname):
    """body made of:  const NAME: [&str; N] = [..];   for &x in &NAME { self.items.push(CompletionItem::new_simple(x, "", CompletionItemKind::K)); }
                      self.items.push(CompletionItem::new_snippet("l", "snip", "", CompletionItemKind::K));
                      self.items.push(CompletionItem::new_simple("l", "", CompletionItemKind::K));
    returns items [(label, snippet|None, kind)] in push order"""
    body = fn_body(src, fname)
    consts = {}
    items = []
    i, n = 0, len(body)
    while True:
        while i < n and body[i].isspace():
            i += 1
        if i >= n:
            break
        m = re.compile(r"const\s+([A-Z_][A-Z0-9_]*)\s*:\s*\[\s*&str\s*;\s*([0-9]+)\s*\]\s*=\s*\[").match(body, i)
        if m:
            e = matching_brace(body, m.end() - 1, "[", "]")
            inner = body[m.end():e]
            vals = re.findall(STR, inner)
            if _norm(re.sub(STR, "", inner)).strip(",") != "" and set(_norm(re.sub(STR, "", inner))) - {","}:
                raise TranslateError("%s: const %s: unsupported element syntax" % (fname, m.group(1)))
            vals = [unescape_rust_str(v) for v in vals]
            if len(vals) != int(m.group(2)):
                raise TranslateError("%s: const %s declares %s elements, has %d" % (fname, m.group(1), m.group(2), len(vals)))
            consts[m.group(1)] = vals
            t = re.compile(r"\s*;").match(body, e + 1)
            if not t:
                raise TranslateError("%s: const %s not terminated" % (fname, m.group(1)))
            i = t.end()
            continue
        m = re.compile(r"for\s+&([a-z_][a-z0-9_]*)\s+in\s+&([A-Z_][A-Z0-9_]*)\s*\{").match(body, i)
        if m:
            var, cname = m.group(1), m.group(2)
            if cname not in consts:
                raise TranslateError("%s: loop over unknown constant %s" % (fname, cname))
            e = matching_brace(body, m.end() - 1)
            inner = _norm(body[m.end():e])
            mm = re.fullmatch(r'self\.items\.push\(CompletionItem::new_simple\(%s,"",CompletionItemKind::([A-Za-z]+),?\),?\);' % re.escape(var), inner)
            if not mm:
                raise TranslateError("%s: unsupported loop body %r" % (fname, inner[:120]))
            for v in consts[cname]:
                items.append((v, None, mm.group(1)))
            i = e + 1
            continue
        m = re.compile(r"self\s*\.\s*items\s*\.\s*push\s*\(").match(body, i)
        if m:
            e = matching_brace(body, m.end() - 1, "(", ")")
            inner = body[m.end():e]
            a = re.fullmatch(r'\s*CompletionItem::new_snippet\(\s*%s\s*,\s*%s\s*,\s*""\s*,\s*CompletionItemKind::([A-Za-z]+)\s*,?\s*\)\s*,?\s*' % (STR, STR), inner)
            b = re.fullmatch(r'\s*CompletionItem::new_simple\(\s*%s\s*,\s*""\s*,\s*CompletionItemKind::([A-Za-z]+)\s*,?\s*\)\s*,?\s*' % STR, inner)
            if a:
                items.append((unescape_rust_str(a.group(1)), unescape_rust_str(a.group(2)), a.group(3)))
            elif b:
                items.append((unescape_rust_str(b.group(1)), None, b.group(2)))
            else:
                raise TranslateError("%s: unsupported push %r" % (fname, inner[:120]))
            t = re.compile(r"\s*;").match(body, e + 1)
            if not t:
                raise TranslateError("%s: push not terminated" % fname)
            i = t.end()
            continue
        raise TranslateError("%s: unsupported statement near %r" % (fname, body[i:i + 80]))
    return items


ACTIONS = {"complete_toplevel_keywords": "ActToplevelKeywords", "complete_primitive_values": "ActPrimitiveValues",
           "complete_classes": "ActClasses", "complete_primitive_types": "ActPrimitiveTypes"}

EXEC_PRELUDE = ("letparse=db.parse(pos.file);letindex=db.index();letsymbol_map=index.symbol_map();"
                "letroot_node=parse.syntax_node();letcur_token=root_node.token_at_offset(pos.position).left_biased()?;"
                "letparent_node=cur_token.parent()?;letparent_parent_node=parent_node.parent()?;"
                "letmutctx=CompletionContext::new();")
EXEC_TRIGGER = re.compile(r'iftrigger_char==Some\("((?:[^"\\]|\\.)*)"\.into\(\)\)\{ctx\.complete_bang_operators\(\);\}')
EXEC_TAIL = "Some(ctx.finish())"


def parse_exec(src, type_kinds, sks):
    body = fn_body(src, "exec")
    nb = _norm(body)
    if not nb.startswith(EXEC_PRELUDE):
        raise TranslateError("exec: prelude changed (token_at_offset(..).left_biased / parent / parent): %r" % nb[:300])
    rest = nb[len(EXEC_PRELUDE):]
    m = EXEC_TRIGGER.match(rest)
    if not m:
        raise TranslateError("exec: trigger-character test changed: %r" % rest[:120])
    trigger = unescape_rust_str(m.group(1))
    rest = rest[m.end():]
    if not rest.startswith("matchparent_parent_node.kind(){"):
        raise TranslateError("exec: dispatch must be `match parent_parent_node.kind()`: %r" % rest[:80])
    # arms from the un-normalised body
    mm = re.search(r"match\s+parent_parent_node\s*\.\s*kind\s*\(\s*\)\s*\{", body)
    e = matching_brace(body, mm.end() - 1)
    if _norm(body[e + 1:]) != EXEC_TAIL:
        raise TranslateError("exec: unexpected code after the dispatch: %r" % _norm(body[e + 1:])[:120])
    arms_src = body[mm.end():e]
    arms = []
    i, n = 0, len(arms_src)
    default_seen = False
    while True:
        while i < n and (arms_src[i].isspace() or arms_src[i] == ","):
            i += 1
        if i >= n:
            break
        if default_seen:
            raise TranslateError("exec: arm after the `_ => {}` default")
        am = re.compile(r"(.*?)=>\s*", re.S).match(arms_src, i)
        if not am:
            raise TranslateError("exec: unsupported arm near %r" % arms_src[i:i + 60])
        pat = _norm(am.group(1))
        j = am.end()
        if arms_src[j] == "{":
            k = matching_brace(arms_src, j)
            rhs = _norm(arms_src[j + 1:k])
            i = k + 1
        else:
            k = arms_src.find(",", j)
            # a call has balanced parentheses and contains no top-level comma except inside (..)
            depth, k = 0, j
            while k < n and not (arms_src[k] == "," and depth == 0):
                depth += arms_src[k] == "("
                depth -= arms_src[k] == ")"
                k += 1
            rhs = _norm(arms_src[j:k])
            i = k + 1
        rhs = rhs.rstrip(";")
        if pat == "_":
            if rhs != "":
                raise TranslateError("exec: default arm must be empty, got %r" % rhs)
            default_seen = True
            continue
        cm = re.fullmatch(r"ctx\.(complete_[a-z_]+)\((symbol_map)?\)", rhs)
        if not cm or cm.group(1) not in ACTIONS or (cm.group(1) == "complete_classes") != bool(cm.group(2)):
            raise TranslateError("exec: unsupported arm body %r" % rhs)
        act = ACTIONS[cm.group(1)]
        if pat == "_ifast::Type::can_cast(parent_parent_node.kind())":
            kinds = list(type_kinds)
        else:
            kinds = []
            for p in pat.split("|"):
                pm = re.fullmatch(r"SyntaxKind::([A-Za-z0-9_]+)", p)
                if not pm or pm.group(1) not in sks:
                    raise TranslateError("exec: unsupported pattern %r" % p)
                kinds.append(pm.group(1))
        arms.append((kinds, act))
    if not default_seen:
        raise TranslateError("exec: no default arm")
    return trigger, arms


CLASSES_EXPECT = ('forrecord_idinsymbol_map.iter_class(){letrecord=symbol_map.record(record_id);'
                  'letarg_snippet=record.iter_template_arg().enumerate().map(|(i,_)|format!(@PH@,i+@OFF@)).collect::<Vec<_>>().join(@SEP@);'
                  'self.items.push(CompletionItem::new_snippet(record.name.clone(),format!(@FMT@,record.name,ifarg_snippet.is_empty(){"".to_string()}'
                  'else{format!(@ARGS@,arg_snippet)}),"",CompletionItemKind::Class,));}')


def parse_classes(src):
    """complete_classes: the shape is fixed, the five literals are parameters."""
    body = fn_body(src, "complete_classes")
    # pull out string literals / the integer offset, then compare the skeleton
    lits = []

    def grab(m):
        lits.append(unescape_rust_str(m.group(1)))
        return "@S%d@" % (len(lits) - 1)
    skel = _norm(re.sub(STR, grab, body))
    m = re.fullmatch(re.escape(_norm(CLASSES_EXPECT)).replace("@PH@", "@S0@").replace("@OFF@", "([0-9]+)").replace("@SEP@", "@S1@")
                     .replace("@FMT@", "@S2@").replace('""', "@S3@", 1).replace("@ARGS@", "@S4@").replace('""', "@S5@"), skel)
    if not m or len(lits) != 6 or lits[3] != "" or lits[5] != "":
        raise TranslateError("complete_classes: body changed shape: %r" % skel[:400])
    ph, sep, fmt, args = lits[0], lits[1], lits[2], lits[4]
    off = int(m.group(1))

    def split_fmt(f, nholes, what):
        # Rust format string with `{}` holes, `{{` `}}` escapes
        parts, cur, k = [], "", 0
        while k < len(f):
            if f.startswith("{{", k):
                cur += "{"
                k += 2
            elif f.startswith("}}", k):
                cur += "}"
                k += 2
            elif f.startswith("{}", k):
                parts.append(cur)
                cur = ""
                k += 2
            elif f[k] in "{}":
                raise TranslateError("complete_classes: unsupported format string %r (%s)" % (f, what))
            else:
                cur += f[k]
                k += 1
        parts.append(cur)
        if len(parts) != nholes + 1:
            raise TranslateError("complete_classes: format %r must have %d holes (%s)" % (f, nholes, what))
        return parts
    ph_pre, ph_post = split_fmt(ph, 1, "placeholder")
    f0, f1, f2 = split_fmt(fmt, 2, "item")
    a0, a1 = split_fmt(args, 1, "args")
    return {"ph_pre": ph_pre, "ph_post": ph_post, "ph_offset": off, "sep": sep,
            "item_pre": f0, "item_mid": f1, "item_post": f2, "args_open": a0, "args_close": a1}


def parse(repo):
    tok = t_tokens.parse(repo)
    ast = t_ast.parse(repo)
    if "Type" not in ast["enums"]:
        raise TranslateError("ast.rs: enum Type not found")
    src = cut_tests(strip_comments(read(repo, SRC)))
    vocab = {f: parse_vocab_fn(src, f) for f in ("complete_toplevel_keywords", "complete_primitive_types",
                                                 "complete_primitive_values", "complete_bang_operators")}
    kinds = re.search(r"pub\s+enum\s+CompletionItemKind\s*\{([^}]*)\}", src)
    if not kinds:
        raise TranslateError("enum CompletionItemKind not found")
    ikinds = [k.strip() for k in kinds.group(1).split(",") if k.strip()]
    for f, items in vocab.items():
        for (_, _, k) in items:
            if k not in ikinds:
                raise TranslateError("%s: unknown CompletionItemKind::%s" % (f, k))
    trigger, arms = parse_exec(src, ast["enums"]["Type"], set(tok["sks"]))
    # the impl block must contain exactly the functions we translated (a new complete_* would go unnoticed otherwise)
    fns = set(re.findall(r"\bfn\s+([a-z_][a-z0-9_]*)", src))
    expected = {"new_simple", "new_snippet", "exec", "new", "finish", "complete_toplevel_keywords", "complete_primitive_types",
                "complete_primitive_values", "complete_bang_operators", "complete_classes"}
    if fns != expected:
        raise TranslateError("completion.rs: function set changed: %s" % sorted(fns ^ expected))
    for f in ("new_simple", "new_snippet"):
        b = _norm(fn_body(src, f))
        want = "Self{label:label.into(),insert_text_snippet:%s,detail:detail.into(),kind,}" % (
            "None" if f == "new_simple" else "Some(insert_text_snippet.into())")
        if b != want:
            raise TranslateError("%s: body changed: %r" % (f, b))
    if _norm(fn_body(src, "finish")) != "self.items" or _norm(fn_body(src, "new")) != "Self{items:Vec::new()}":
        raise TranslateError("CompletionContext::new/finish changed")
    return {"vocab": vocab, "ikinds": ikinds, "trigger": trigger, "arms": arms, "classes": parse_classes(src),
            "T": tok["T"], "tok": tok}


def spelling_text(key):
    """key of a T! arm as written: `class`, `!add`, `'['`, `#ifdef`, `...`"""
    m = re.fullmatch(r"'(.)'", key)
    return m.group(1) if m else key.replace(" ", "")


def translate(repo):
    d = parse(repo)
    o = ["(* GENERATED by tools/translate/t_completion.py from crates/ide/src/handlers/completion.rs"
         " (+ T! macro of token_kind.rs, Type enum of ast.rs) -- do not edit *)",
         "From Coq Require Import List NArith String.", "From TG.Gen Require Import GenTokens.",
         "Import ListNotations.", "Open Scope N_scope.", "",
         "Inductive item_kind := %s." % " | ".join("IK" + k for k in d["ikinds"]),
         "Definition comp_item : Type := (list N * option (list N) * item_kind)%type.", ""]

    def items(name, its):
        o.append("Definition %s : list comp_item :=\n  [ %s ].\n" % (name, "\n  ; ".join(
            "(%s, %s, IK%s) (* %s *)" % (coq_str_codes(l), "None" if s is None else "Some " + coq_str_codes(s), k, l)
            for (l, s, k) in its)))
    items("toplevel_keyword_items", d["vocab"]["complete_toplevel_keywords"])
    items("primitive_type_items", d["vocab"]["complete_primitive_types"])
    items("primitive_value_items", d["vocab"]["complete_primitive_values"])
    items("bang_operator_items", d["vocab"]["complete_bang_operators"])
    o.append("Inductive comp_action := ActToplevelKeywords | ActPrimitiveValues | ActClasses | ActPrimitiveTypes.\n")
    o.append("(* exec: `if trigger_char == Some(bang_trigger)` adds the bang operators first; then the FIRST arm whose kind set\n"
             "   contains the grand-parent kind of the token left of the cursor fires *)")
    o.append("Definition bang_trigger : list N := %s.\n" % coq_str_codes(d["trigger"]))
    o.append("Definition dispatch_arms : list (list SyntaxKind * comp_action) :=\n  [ %s ].\n" % "\n  ; ".join(
        "([%s], %s)" % ("; ".join("S_" + k for k in ks), a) for ks, a in d["arms"]))
    c = d["classes"]
    o.append("(* complete_classes: label = name; snippet = item_pre ++ name ++ item_mid ++ ARGS ++ item_post where ARGS = \"\" when the class\n"
             "   has no template argument, else args_open ++ join sep [ph_pre ++ dec (i + ph_offset) ++ ph_post | i < n] ++ args_close *)")
    for k in ("ph_pre", "ph_post", "sep", "item_pre", "item_mid", "item_post", "args_open", "args_close"):
        o.append("Definition cls_%s : list N := %s. (* %r *)" % (k, coq_str_codes(c[k]), c[k]))
    o.append("Definition cls_ph_offset : N := %d.\n" % c["ph_offset"])
    o.append("\n(* untrusted certificates (tools/translate/t_completion.py: STATEMENT_WITNESS): offered keyword -> minimal statement *)")
    o.append("Definition stmt_witness_table : list (list N * list N) :=\n  [ %s ].\n" % "\n  ; ".join(
        "(%s, %s) (* %s *)" % (coq_str_codes(l), coq_str_codes(STATEMENT_WITNESS.get(l, l)), STATEMENT_WITNESS.get(l, l).replace("*)", "* )").replace('"', "'"))
        for (l, _, _) in d["vocab"]["complete_toplevel_keywords"]))
    o.append("(* T! macro of token_kind.rs: the token kind a spelling denotes *)")
    rows = sorted(d["T"].items(), key=lambda kv: d["tok"]["tks"].index(kv[1]))
    o.append("Definition spelling_table : list (list N * TokenKind) :=\n  [ %s ].\n" % "\n  ; ".join(
        "(%s, T_%s)%s" % (coq_str_codes(spelling_text(k)), v, " (* %s *)" % spelling_text(k) if re.fullmatch(r"[!#]?[a-z0-9]+", spelling_text(k)) else "") for k, v in rows))
    return {"GenCompletion.v": "\n".join(o)}


if __name__ == "__main__":
    import sys
    print(translate(sys.argv[1] if len(sys.argv) > 1 else "/repo")["GenCompletion.v"])
