"""T-lextables: lexer.rs -> GenLexTables.v
keyword table (fn identifier), bang-operator table (fn bangoperator), directive table
(fn preprocessor), single-character punctuation arms of next_token, every error-message literal."""
import re
from rsutil import (TranslateError, read, strip_comments, cut_tests, fn_body, matching_brace,
                    coq_str_codes, coq_string_lit, unescape_rust_str)
import t_tokens


def match_arms(body, owner, scrutinee):
    m = re.search(r"match\s+%s\s*\{" % re.escape(scrutinee), body)
    if not m:
        raise TranslateError("%s: `match %s` not found" % (owner, scrutinee))
    j = matching_brace(body, m.end() - 1)
    return body[m.end():j]


def string_table(arms, owner, T):
    """arms of the form  "kw" => T![x],   returns ([(kw, Variant)], default_text)"""
    tbl = []
    rest = arms
    pat = re.compile(r'\s*"((?:[^"\\]|\\.)*)"\s*=>\s*T!\[(.+?)\]\s*,')
    pos = 0
    while True:
        m = pat.match(rest, pos)
        if not m:
            break
        key = m.group(2).strip()
        if key not in T:
            raise TranslateError("%s: T![%s] unknown" % (owner, key))
        tbl.append((unescape_rust_str(m.group(1)), T[key]))
        pos = m.end()
    default = rest[pos:].strip()
    if not default.startswith("_ =>"):
        raise TranslateError("%s: unsupported arm near %r" % (owner, default[:60]))
    seen = set()
    for k, _ in tbl:
        if k in seen:
            raise TranslateError("%s: duplicate key %r" % (owner, k))
        seen.add(k)
    return tbl, default


def split_fns(src):
    """[(name, body text)] of every `fn` of the file (methods included), by brace matching"""
    out = []
    for m in re.finditer(r"\bfn\s+([A-Za-z_][A-Za-z0-9_]*)\s*(<[^>(]*>)?\s*\(", src):
        try:
            k = matching_brace(src, m.end() - 1, "(", ")")
            i = src.index("{", k)
            semi = src.find(";", k, i)
            if semi >= 0:               # a declaration without body (trait method)
                continue
            out.append((m.group(1), src[i + 1:matching_brace(src, i)]))
        except (TranslateError, ValueError):
            continue
    return out


def string_matches(body):
    """every `match <scrutinee> { "lit" => .. }` of a function body: [(arms text)]"""
    out = []
    for m in re.finditer(r"\bmatch\s+[^{;]+?\{\s*(?=\")", body):
        i = body.index("{", m.start())
        out.append(body[i + 1:matching_brace(body, i)])
    return out


def parse(repo):
    """Tolerant, function by function: only the functions that CONTAIN the tables must have the expected shape
    (a `match` on string literals with `T![..]` results and the expected default arm); the rest of the file is
    not looked at, and neither function names nor the names of locals matter."""
    tok = t_tokens.parse(repo)
    T = tok["T"]
    src = cut_tests(strip_comments(read(repo, "crates/syntax/src/lexer.rs")))
    found = {"kw": [], "bang": [], "pp": []}
    directive_kinds = {"Ifdef", "Ifndef", "Else", "Endif", "Define"}
    for name, body in split_fns(src):
        for arms in string_matches(body):
            try:
                tbl, default = string_table(arms, name, T)
            except TranslateError:
                continue
            if not tbl:
                continue
            kinds = {v for _k, v in tbl}
            if kinds <= directive_kinds:
                found["pp"].append((name, tbl, default))
            elif all(v.startswith("X") for v in kinds):
                found["bang"].append((name, tbl, default))
            else:
                found["kw"].append((name, tbl, default))
    for what, lst in found.items():
        if len(lst) != 1:
            raise TranslateError("lexer.rs: expected exactly one %s table (match on string literals), found %d"
                                 % ({"kw": "keyword", "bang": "bang-operator", "pp": "directive"}[what], len(lst)))
    (n1, kw, d1), (n2, bang, d2), (n3, pp, d3) = found["kw"][0], found["bang"][0], found["pp"][0]
    if not re.fullmatch(r"_ =>\s*TokenKind::Id\s*,?", d1):
        raise TranslateError("%s: default arm of the keyword table must be TokenKind::Id, got %r" % (n1, d1))
    if not re.fullmatch(r'_ =>\s*self\.error\("Unknown operator"\)\s*,?', d2):
        raise TranslateError("%s: unexpected default arm of the operator table %r" % (n2, d2))
    if not re.fullmatch(r"_ =>\s*\{\s*self\.s\.jump\([A-Za-z_][A-Za-z0-9_]*\);\s*T!\[#\]\s*\}\s*,?", d3):
        raise TranslateError("%s: unexpected default arm of the directive table %r" % (n3, d3))
    # single-char punctuation arms (no guard):  Some('x') => T![..],
    punct, seen = [], set()
    for m in re.finditer(r"Some\('(\\.|[^\\'])'\)\s*=>\s*T!\[(.+?)\]\s*,", src):
        ch = unescape_rust_str(m.group(1))
        key = m.group(2).strip()
        if key not in T:
            raise TranslateError("punctuation arm: T![%s] unknown" % key)
        if ch in seen:
            raise TranslateError("punctuation arm for %r occurs twice" % ch)
        seen.add(ch)
        punct.append((ch, T[key]))
    msgs = sorted(set(unescape_rust_str(x) for x in re.findall(r'self\.error\(\s*"((?:[^"\\]|\\.)*)"\s*\)', src)))
    return {"kw": kw, "bang": bang, "pp": pp, "punct": punct, "msgs": msgs, "tok": tok}


def translate(repo):
    d = parse(repo)
    o = ["(* GENERATED by tools/translate/t_lextables.py from crates/syntax/src/lexer.rs -- do not edit *)",
         "From Coq Require Import List NArith String.", "From TG.Gen Require Import GenTokens.",
         "Import ListNotations.", "Open Scope N_scope.", ""]

    def table(name, rows):
        o.append("Definition %s : list (list N * TokenKind) :=\n  [ %s ].\n" % (
            name, "\n  ; ".join("(%s, T_%s) (* %s *)" % (coq_str_codes(k), v, k) for k, v in rows)))
    table("keyword_table", d["kw"])
    table("bangop_table", d["bang"])
    table("directive_table", d["pp"])
    o.append("Definition punct_table : list (N * TokenKind) :=\n  [ %s ].\n" % (
        "\n  ; ".join("(%d, T_%s) (* %s *)" % (ord(c), v, c if c != ')' else 'rparen') for c, v in d["punct"])))
    o.append("Definition lexer_messages : list string :=\n  [ %s ]%%string.\n" % "; ".join(coq_string_lit(m) for m in d["msgs"]))
    return {"GenLexTables.v": "\n".join(o)}
