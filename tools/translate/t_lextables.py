"""T-lextables: lexer.rs -> GenLexTables.v
keyword table (fn identifier), bang-operator table (fn bangoperator), directive table
(fn preprocessor), single-character punctuation arms of next_token, every error-message literal."""
import re
from rsutil import (TranslateError, read, strip_comments, cut_tests, fn_body, matching_brace,
                    coq_str_codes, coq_string_lit, unescape_rust_str)
import t_tokens


def match_arms(body, owner, scrutinee):
    m = re.search(r"match\s+%s\s*\{" % re.escape(scrutinee), body)
    if not m:
        raise TranslateError("%s: `match %s` not found" % (owner, scrutinee))
    j = matching_brace(body, m.end() - 1)
    return body[m.end():j]


def string_table(arms, owner, T):
    """arms of the form  "kw" => T![x],   returns ([(kw, Variant)], default_text)"""
    tbl = []
    rest = arms
    pat = re.compile(r'\s*"((?:[^"\\]|\\.)*)"\s*=>\s*T!\[(.+?)\]\s*,')
    pos = 0
    while True:
        m = pat.match(rest, pos)
        if not m:
            break
        key = m.group(2).strip()
        if key not in T:
            raise TranslateError("%s: T![%s] unknown" % (owner, key))
        tbl.append((unescape_rust_str(m.group(1)), T[key]))
        pos = m.end()
    default = rest[pos:].strip()
    if not default.startswith("_ =>"):
        raise TranslateError("%s: unsupported arm near %r" % (owner, default[:60]))
    seen = set()
    for k, _ in tbl:
        if k in seen:
            raise TranslateError("%s: duplicate key %r" % (owner, k))
        seen.add(k)
    return tbl, default


def _walk(node, f):
    if isinstance(node, tuple):
        f(node)
        for x in node:
            _walk(x, f)
    elif isinstance(node, list):
        for x in node:
            _walk(x, f)


def _string_match(fn, owner, T):
    """the unique `match <expr> { "lit" => T![..], ..., _ => default }` of a function (t_lexer AST);
    returns ([(lit, Variant)], default arm body)"""
    found = []

    def visit(n):
        if n and n[0] == "match" and any(p[0] == "str" for pats, _g, _b, _l in n[2] for p in pats):
            found.append(n)
    _walk(fn["body"], visit)
    if len(found) != 1:
        raise TranslateError("%s: expected exactly one match on string literals, found %d" % (owner, len(found)))
    arms = found[0][2]
    if arms[-1][0] != [("wild",)] or arms[-1][1] is not None:
        raise TranslateError("%s: the last arm of the string match must be `_ =>`" % owner)
    tbl, seen = [], set()
    for pats, guard, body, line in arms[:-1]:
        st = body[1]
        if guard is not None or len(pats) != 1 or pats[0][0] != "str" or len(st) != 1 or st[0][0] != "expr" \
                or st[0][1][0] != "tmac":
            raise TranslateError("%s:%d: unsupported arm (want \"lit\" => T![..])" % (owner, line))
        key = st[0][1][1]
        if key not in T:
            raise TranslateError("%s: T![%s] unknown" % (owner, key))
        if pats[0][1] in seen:
            raise TranslateError("%s: duplicate key %r" % (owner, pats[0][1]))
        seen.add(pats[0][1])
        tbl.append((pats[0][1], T[key]))
    return tbl, arms[-1][2][1]


def parse(repo):
    """robust against renaming of locals: works on the AST of tools/translate/t_lexer.py"""
    import t_lexer
    tok = t_tokens.parse(repo)
    T = tok["T"]
    src = cut_tests(strip_comments(read(repo, "crates/syntax/src/lexer.rs")))
    fns, _structs = t_lexer.Parser(t_lexer.tokenize(src)).items()
    by = {f["name"]: f for f in fns}
    for need in ("identifier", "bangoperator", "preprocessor", "next_token"):
        if need not in by:
            raise TranslateError("fn %s not found" % need)
    kw, d1 = _string_match(by["identifier"], "identifier", T)
    if not (len(d1) == 1 and d1[0][0] == "expr" and d1[0][1][0] == "path" and d1[0][1][1] == ["TokenKind", "Id"]):
        raise TranslateError("identifier: default arm must be TokenKind::Id")
    bang, d2 = _string_match(by["bangoperator"], "bangoperator", T)
    ok2 = (len(d2) == 1 and d2[0][0] == "expr" and d2[0][1][0] == "method" and d2[0][1][2] == "error"
           and d2[0][1][4] == [("str", "Unknown operator")])
    if not ok2:
        raise TranslateError("bangoperator: unexpected default arm")
    pp, d3 = _string_match(by["preprocessor"], "preprocessor", T)
    ok3 = (len(d3) == 2 and d3[0][0] == "expr" and d3[0][1][0] == "method" and d3[0][1][2] == "jump"
           and d3[1][0] == "expr" and d3[1][1][0] == "tmac" and d3[1][1][1] == "#")
    if not ok3:
        raise TranslateError("preprocessor: unexpected default arm (want `{ self.s.jump(..); T![#] }`)")
    # single-char punctuation arms of next_token:  Some('x') => T![..]   (no guard)
    punct = []

    def visit(n):
        if n and n[0] == "match":
            for pats, guard, body, line in n[2]:
                st = body[1]
                if guard is None and len(pats) == 1 and pats[0][0] == "some" and pats[0][1][0] == "char" \
                        and len(st) == 1 and st[0][0] == "expr" and st[0][1][0] == "tmac":
                    key = st[0][1][1]
                    if key not in T:
                        raise TranslateError("next_token: T![%s] unknown" % key)
                    punct.append((pats[0][1][1], T[key]))
    _walk(by["next_token"]["body"], visit)
    msgs = set()

    def visit_err(n):
        if n and n[0] == "method" and n[2] == "error" and len(n[4]) == 1 and n[4][0][0] == "str":
            msgs.add(n[4][0][1])
    for f in fns:
        _walk(f["body"], visit_err)
    return {"kw": kw, "bang": bang, "pp": pp, "punct": punct, "msgs": sorted(msgs), "tok": tok}


def translate(repo):
    d = parse(repo)
    o = ["(* GENERATED by tools/translate/t_lextables.py from crates/syntax/src/lexer.rs -- do not edit *)",
         "From Coq Require Import List NArith String.", "From TG.Gen Require Import GenTokens.",
         "Import ListNotations.", "Open Scope N_scope.", ""]

    def table(name, rows):
        o.append("Definition %s : list (list N * TokenKind) :=\n  [ %s ].\n" % (
            name, "\n  ; ".join("(%s, T_%s) (* %s *)" % (coq_str_codes(k), v, k) for k, v in rows)))
    table("keyword_table", d["kw"])
    table("bangop_table", d["bang"])
    table("directive_table", d["pp"])
    o.append("Definition punct_table : list (N * TokenKind) :=\n  [ %s ].\n" % (
        "\n  ; ".join("(%d, T_%s) (* %s *)" % (ord(c), v, c if c != ')' else 'rparen') for c, v in d["punct"])))
    o.append("Definition lexer_messages : list string :=\n  [ %s ]%%string.\n" % "; ".join(coq_string_lit(m) for m in d["msgs"]))
    return {"GenLexTables.v": "\n".join(o)}
