"""T-grammarcert: runs tools/cert_grammar.py on the freshly translated grammar -> GenGrammarCert.v
(untrusted certificate for coq/proofs/LookProg.v; Coq re-checks it with chk_all on every run)."""
import os
import sys

sys.path.insert(0, os.path.join(os.path.dirname(os.path.dirname(os.path.abspath(__file__)))))
import t_grammar
import t_tokens
import cert_grammar


def translate(repo):
    gen = t_grammar.translate(repo)["GenGrammar.v"]
    d = t_tokens.parse(repo)
    text, _problems, _cycles, _a = cert_grammar.generate(gen, d["tks"], d["bang"], d["cond"])
    return {"GenGrammarCert.v": text}
