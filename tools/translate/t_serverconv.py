"""T-serverconv: crates/lsp/src/server.rs + to_proto.rs + from_proto.rs -> GenServerConv.v

The DATA-FLOW facts property C09 rests on, re-derived from the current sources and rendered as Gallina functions in
the vocabulary of TG.Model.ServerProto part 2:
  per handler   which file's LineIndex converts each location / range of the response or publication
                (the requesting document's index returned by from_proto::{file_pos,file,file_range}, or
                `snap.analysis.line_index(<value>.file)` of the very value being converted, or the loop key of the
                publish loop), which file the URI is made from, which to_proto function converts it, scalar or
                element-wise;
  per to_proto wrapper (location, diagnostic, document_symbol, inlay_hint, document_link)
                which position-mapping primitive (range / position; themselves translated by t_lineindex.py) is
                applied to which field with the LineIndex PARAMETER, and which field the URI / target is made from.
Rigid subset, everything else is a TranslateError (broken tie): an index bound anywhere else (cached across
iterations, taken from a server-side table, computed from another value than the one converted), a conversion in a
block-bodied closure, a second conversion primitive in a wrapper, a primitive applied to an unknown field, any
occurrence of line_index / to_proto:: / path_for_file / from_file_path in the handlers that the facts do not account for."""
import re
from rsutil import TranslateError, read, strip_comments, matching_brace
import t_server
from t_server import norm, split_statements, split_args, all_fns, cut_module

HANDLERS = ["definition", "references", "document_symbol", "inlay_hint", "document_link", "folding_range"]
NO_RANGE_HANDLERS = {"hover": "hover", "completion": "completion_item"}
# field of the ide-level value -> projection of the model's representation of that value
FIELDS = {
    "location": {"file_range.range": "snd fr", "file_range.file": "fst fr"},
    "diagnostic": {"diag.location.range": "fst d", "diag.message": "snd d"},
    "document_link": {"link.range": "fst l", "link.target": "snd l"},
    "inlay_hint": {"inlay_hint.position": "o"},
    "document_symbol": {"symbol.range": "r"},
}
PRIM = {"range": "to_proto_range", "position": "to_proto_position"}


def closure_of(tr, handler):
    f = tr.fn("server.rs", handler)
    for _a, t, _s in split_statements(f.body):
        if "spawn_with_snapshot" in t:
            i = t.index("spawn_with_snapshot")
            p0 = t.index("(", i)
            p1 = matching_brace(t, p0, "(", ")")
            args = split_args(t[p0 + 1:p1])
            clo = ", ".join(args[1:])
            m = re.match(r"move\s*\|\s*snap\s*,\s*(params|_)\s*\|\s*\{", clo)
            if not m:
                raise TranslateError("server.rs: %s: task closure not found" % handler)
            return clo[m.end():clo.rindex("}")]
    raise TranslateError("server.rs: %s: no spawn_with_snapshot" % handler)


def real_statements(body):
    """statements that are not under #[cfg(tablegen_lsp_verif)]"""
    return [(norm(t), s) for a, t, s in split_statements(body) if not any("cfg" in x for x in a)]


# ------------------------------------------------------------------------------------------------ from_proto

def request_index_fact(tr, fname):
    """from_proto::<fname> returns the LineIndex of the document named by the request (checked through its private
    helpers); returns the position of the index in the returned tuple"""
    f = tr.fn("from_proto.rs", fname)
    text, seen, work = "", set(), [fname]
    while work:
        n = work.pop()
        if n in seen:
            continue
        seen.add(n)
        g = tr.fn("from_proto.rs", n)
        text += " " + norm(g.body)
        for (w, c) in tr.calls(g.body, "from_proto.rs"):
            if w == "from_proto.rs" and not tr.fn(w, c).pub:
                work.append(c)
    uri = {"file_pos": r"&doc\.text_document\.uri", "file": r"&doc\.uri", "file_range": r"&doc\.uri"}[fname]
    if len(re.findall(r"line_index\s*\(", text)) != 1 or not re.search(r"let line_index = snap\.analysis\.line_index\(file_id\);", text):
        raise TranslateError("from_proto.rs: %s: the index is not `snap.analysis.line_index(file_id)` (exactly once)" % fname)
    if len(re.findall(r"file_for_path", text)) != 1 or not re.search(r"let file_id = vfs\.file_for_path\(&path\)\.unwrap\(\);", text):
        raise TranslateError("from_proto.rs: %s: file_id is not `vfs.file_for_path(&path).unwrap()`" % fname)
    direct = re.search(r"let path = UrlExt::to_file_path\(%s\);" % uri, text)
    via = re.search(r"let path = UrlExt::to_file_path\(uri\);", text) and re.search(r"\(snap, &vfs, %s\)" % uri, text)
    if len(re.findall(r"to_file_path", text)) != 1 or not (direct or via):
        raise TranslateError("from_proto.rs: %s: the path is not made from the request's document uri" % fname)
    tail = norm(split_statements(f.body)[-1][1])
    if not (re.fullmatch(r"\([a-z_]+, line_index\)", tail) or re.fullmatch(r"resolve_document\(snap, &vfs, %s\)" % uri, tail)):
        raise TranslateError("from_proto.rs: %s: does not return (.., line_index): %s" % (fname, tail))
    return True


# ------------------------------------------------------------------------------------------------ handlers

def handler_facts(tr, h):
    body = closure_of(tr, h)
    st = real_statements(body)
    facts = {"handler": h}
    used = 0
    # 1. the request lookup
    m = re.fullmatch(r"let \(([a-z_]+), ([a-z_]+)\) = from_proto::(file_pos|file|file_range)\(&snap, .*\)", st[0][0])
    if not m:
        raise TranslateError("server.rs: %s: the task does not start with a from_proto lookup: %s" % (h, st[0][0][:100]))
    request_index_fact(tr, m.group(3))
    facts["req_index_name"] = None if m.group(2) == "_" else m.group(2)
    # 2. the query
    m = re.fullmatch(r"let Some\(([a-z_]+)\) = snap\.analysis\.([a-z_]+)\(.*\) else \{ return Ok\(None\); \}", st[1][0])
    if not m:
        raise TranslateError("server.rs: %s: second statement is not `let Some(x) = snap.analysis.<query>(..) else { return Ok(None); }`" % h)
    res = m.group(1)
    facts["query"] = m.group(2)
    rest = st[2:]
    index_names = {}
    conv = None
    out_name = None
    for t, semi in rest:
        if re.fullmatch(r"let vfs = snap\.vfs\.read\(\)\.unwrap\(\)", t):
            continue
        m = re.fullmatch(r"let ([a-z_]+) = snap\.analysis\.line_index\((.+)\)", t)
        if m:
            index_names[m.group(1)] = m.group(2)
            used += 1
            continue
        m = re.fullmatch(r"let ([a-z_]+) = (.+)", t)
        if m and "to_proto::" in t:
            if conv is not None:
                raise TranslateError("server.rs: %s: more than one conversion statement" % h)
            out_name, conv = m.group(1), m.group(2)
            continue
        if not semi:
            if out_name is None or not re.search(r"\b%s\b" % out_name, t) or not re.fullmatch(r"Ok\(Some\(.*\)\)", t):
                raise TranslateError("server.rs: %s: the converted value is not what the task returns: %s" % (h, t))
            continue
        if re.search(r"line_index|to_proto::|path_for_file|from_file_path", t):
            raise TranslateError("server.rs: %s: unclassified statement touching the conversion: %s" % (h, t[:120]))
        raise TranslateError("server.rs: %s: unexpected statement in a request task: %s" % (h, t[:120]))
    if conv is None:
        raise TranslateError("server.rs: %s: no conversion statement" % h)
    m = re.fullmatch(r"to_proto::([a-z_]+)\((.*)\)", conv)
    if m:
        facts["shape"], val = "scalar", res
    else:
        m = re.fullmatch(r"%s \.?into_iter\(\) ?\.map\(\|it\| to_proto::([a-z_]+)\((.*)\)\) ?\.collect\(\)" % res, conv.replace(" .", ".").replace(". ", "."))
        if not m:
            m = re.fullmatch(r"%s\.into_iter\(\)\.map\(\|it\| to_proto::([a-z_]+)\((.*)\)\)\.collect\(\)" % res, re.sub(r"\s*\.\s*", ".", conv))
        if not m:
            raise TranslateError("server.rs: %s: conversion is neither `to_proto::f(..)` nor `x.into_iter().map(|it| to_proto::f(..)).collect()`: %s" % (h, conv[:160]))
        facts["shape"], val = "list", "it"
    facts["to_proto"] = m.group(1)
    args = split_args(m.group(2))
    facts["uses_vfs"] = bool(args and args[0] == "&vfs")
    if facts["uses_vfs"]:
        args = args[1:]
    if len(args) != 2 or args[1] != val:
        raise TranslateError("server.rs: %s: to_proto::%s is not applied to (index, %s): %r" % (h, facts["to_proto"], val, args))
    ia = args[0]
    if facts["req_index_name"] and ia == "&" + facts["req_index_name"]:
        facts["index"] = "request"
    elif ia.startswith("&") and ia[1:] in index_names and index_names[ia[1:]] == val + ".file" and facts["shape"] == "scalar":
        facts["index"] = "value"
        used -= 1
    elif ia == "&snap.analysis.line_index(%s.file)" % val:
        facts["index"] = "value"
    else:
        raise TranslateError("server.rs: %s: the LineIndex passed to to_proto::%s is neither the requesting document's nor "
                             "`snap.analysis.line_index(%s.file)` of the converted value: %s" % (h, facts["to_proto"], val, ia))
    if used != 0:
        raise TranslateError("server.rs: %s: a line index is computed but not used for the conversion" % h)
    n_li = len(re.findall(r"line_index\s*\(", norm(body)))
    if n_li != (1 if facts["index"] == "value" else 0):
        raise TranslateError("server.rs: %s: %d line_index computations in the task" % (h, n_li))
    if len(re.findall(r"to_proto::", body)) != 1:
        raise TranslateError("server.rs: %s: several to_proto calls" % h)
    return facts


def diagnostics_facts(tr):
    f = tr.fn("server.rs", "update_diagnostics")
    body = closure_of(tr, "update_diagnostics")
    m = re.search(r"for\s*\(\s*([a-z_]+)\s*,\s*([a-z_]+)\s*\)\s+in\s+diagnostic_map\s*\{", body)
    if not m:
        raise TranslateError("server.rs: update_diagnostics: publish loop `for (file_id, diagnostics) in diagnostic_map` not found")
    key, val = m.group(1), m.group(2)
    j = matching_brace(body, m.end() - 1)
    st = [t for t, _s in real_statements(body[m.end():j])]
    want = [
        r"let line_index = snap\.analysis\.line_index\(%s\)" % key,
        r"let lsp_diags = %s\.into_iter\(\)\.map\(\|diag\| to_proto::diagnostic\(&line_index, diag\)\)\.collect\(\)" % val,
        r"let vfs = snap\.vfs\.read\(\)\.unwrap\(\)",
        r"let file_path = vfs\.path_for_file\(&%s\)" % key,
        r"let file_uri = UrlExt::from_file_path\(file_path\)",
        r"let params = PublishDiagnosticsParams::new\(file_uri, lsp_diags, Some\(diag_version\)\)",
        r"client\.publish_diagnostics\(params\)\.expect\(\"failed to publish diagnostics\"\)",
    ]
    got = [re.sub(r"\s*\.\s*", ".", t) for t in st]
    if len(got) != len(want) or not all(re.fullmatch(w, g) for w, g in zip(want, got)):
        raise TranslateError("server.rs: update_diagnostics: the publish loop is not index-of-the-key / convert / uri-of-the-key / publish: %r" % got)
    outside = body[:m.start()] + body[j + 1:]
    if re.search(r"line_index|to_proto::|path_for_file|from_file_path", outside):
        raise TranslateError("server.rs: update_diagnostics: conversion outside the publish loop")
    return {"index": "key", "uri": "key", "to_proto": "diagnostic"}


# ------------------------------------------------------------------------------------------------ to_proto wrappers

def wrapper_facts(tp_fns, name):
    fs = tp_fns.get(name)
    if not fs or len(fs) != 1:
        raise TranslateError("to_proto.rs: fn %s not found" % name)
    f = fs[0]
    body = norm(f.body)
    params = f.params
    if "line_index" not in params:
        raise TranslateError("to_proto.rs: %s: no line_index parameter" % name)
    facts = {"name": name, "uses_vfs": "vfs" in params, "conv": [], "uri": None, "rec": 0}
    for m in re.finditer(r"(?<![A-Za-z0-9_.:])(range|position|document_symbol|folding_range|location|diagnostic|inlay_hint|document_link)\s*\(", body):
        j = matching_brace(body, m.end() - 1, "(", ")")
        args = split_args(body[m.end():j])
        if m.group(1) == name and name == "document_symbol":
            if args != ["line_index", "it"]:
                raise TranslateError("to_proto.rs: document_symbol: recursive call not (line_index, it)")
            facts["rec"] += 1
            continue
        if m.group(1) not in PRIM:
            raise TranslateError("to_proto.rs: %s: calls wrapper %s" % (name, m.group(1)))
        if len(args) != 2 or args[0] != "line_index":
            raise TranslateError("to_proto.rs: %s: %s is not applied to the LineIndex parameter: %r" % (name, m.group(1), args))
        facts["conv"].append((m.group(1), args[1]))
    if re.search(r"pos_to_line|utf16_col|line_to_pos|offset_at", body):
        raise TranslateError("to_proto.rs: %s: uses a LineIndex method directly" % name)
    uris = re.findall(r"path_for_file\(&([a-z_.]+)\)", body)
    if len(uris) != len(re.findall(r"path_for_file", body)) or len(re.findall(r"from_file_path", body)) != len(uris):
        raise TranslateError("to_proto.rs: %s: unclassified URI construction" % name)
    if len(uris) > 1:
        raise TranslateError("to_proto.rs: %s: several URIs" % name)
    facts["uri"] = uris[0] if uris else None
    for _p, fld in facts["conv"]:
        if fld not in FIELDS[name]:
            raise TranslateError("to_proto.rs: %s: conversion of an unknown field %s" % (name, fld))
    if facts["uri"] and facts["uri"] not in FIELDS[name]:
        raise TranslateError("to_proto.rs: %s: URI of an unknown field %s" % (name, facts["uri"]))
    return facts


def render_wrappers(tp_fns, src):
    out = []
    w = wrapper_facts(tp_fns, "location")
    if len(w["conv"]) != 1 or w["conv"][0][0] != "range" or not w["uri"]:
        raise TranslateError("to_proto.rs: location: expected one range conversion and one URI")
    if not re.search(r"let path = vfs\.path_for_file\(&file_range\.file\); lsp_types::Location::new\( ?UrlExt::from_file_path\(path\), range\(line_index, file_range\.range\), ?\)", norm(tp_fns["location"][0].body)):
        raise TranslateError("to_proto.rs: location: not Location::new(uri of the path of the file, range)")
    out.append("Definition gen_location (li : LineIndex) (fr : file * rng) : res (file * lrange) :=\n"
               "  r <- %s li (%s) ;; Ok (%s, r)." % (PRIM["range"], FIELDS["location"][w["conv"][0][1]], FIELDS["location"][w["uri"]]))
    w = wrapper_facts(tp_fns, "diagnostic")
    if len(w["conv"]) != 1 or w["conv"][0][0] != "range" or w["uri"]:
        raise TranslateError("to_proto.rs: diagnostic: expected exactly one range conversion")
    if not re.fullmatch(r"lsp_types::Diagnostic::new_simple\(range\(line_index, diag\.location\.range\), diag\.message\)", norm(tp_fns["diagnostic"][0].body)):
        raise TranslateError("to_proto.rs: diagnostic: not Diagnostic::new_simple(range, message)")
    out.append("Definition gen_diagnostic {M : Type} (li : LineIndex) (d : rng * M) : res (lrange * M) :=\n"
               "  r <- %s li (%s) ;; Ok (r, snd d)." % (PRIM["range"], FIELDS["diagnostic"][w["conv"][0][1]]))
    w = wrapper_facts(tp_fns, "document_link")
    if len(w["conv"]) != 1 or w["conv"][0][0] != "range" or not w["uri"]:
        raise TranslateError("to_proto.rs: document_link: expected one range conversion and one target URI")
    b = norm(tp_fns["document_link"][0].body)
    if not re.search(r"range: range\(line_index, link\.range\), target: Some\(UrlExt::from_file_path\(vfs\.path_for_file\(&link\.target\)\)\),", b):
        raise TranslateError("to_proto.rs: document_link: fields range / target not as expected")
    out.append("Definition gen_document_link (li : LineIndex) (l : rng * file) : res (lrange * file) :=\n"
               "  r <- %s li (%s) ;; Ok (r, %s)." % (PRIM["range"], FIELDS["document_link"][w["conv"][0][1]], FIELDS["document_link"][w["uri"]]))
    w = wrapper_facts(tp_fns, "inlay_hint")
    if len(w["conv"]) != 1 or w["conv"][0][0] != "position" or w["uri"]:
        raise TranslateError("to_proto.rs: inlay_hint: expected exactly one position conversion")
    if not re.search(r"position: position\(line_index, inlay_hint\.position\),", norm(tp_fns["inlay_hint"][0].body)):
        raise TranslateError("to_proto.rs: inlay_hint: field position not as expected")
    out.append("Definition gen_inlay_hint (li : LineIndex) (o : N) : res lpos := %s li %s." % (PRIM["position"], FIELDS["inlay_hint"][w["conv"][0][1]]))
    w = wrapper_facts(tp_fns, "document_symbol")
    b = norm(tp_fns["document_symbol"][0].body)
    if len(w["conv"]) != 1 or w["conv"][0] != ("range", "symbol.range") or w["rec"] != 1 or w["uri"]:
        raise TranslateError("to_proto.rs: document_symbol: expected one range conversion of symbol.range and one recursive call")
    if not re.match(r"let range = range\(line_index, symbol\.range\);", b) or \
            not re.search(r"symbol ?\.children ?\.into_iter\(\) ?\.map\(\|it\| document_symbol\(line_index, it\)\) ?\.collect\(\)", b) or \
            not re.search(r"deprecated: None, range, selection_range: range, children, \}$", b):
        raise TranslateError("to_proto.rs: document_symbol: range / selection_range / children not as expected")
    out.append("Fixpoint gen_document_symbol (li : LineIndex) (s : dsym) : res lsym :=\n"
               "  match s with\n  | DSym r ch =>\n    lr <- %s li r ;;\n"
               "    ch' <- (fix go (l : list dsym) : res (list lsym) :=\n"
               "              match l with\n              | [] => Ok []\n"
               "              | x :: xs => y <- gen_document_symbol li x ;; ys <- go xs ;; Ok (y :: ys)\n"
               "              end) ch ;;\n    Ok (LSym lr lr ch')\n  end." % PRIM["range"])
    # folding_range is rendered by t_lineindex.py (src_to_proto_folding_range); hover / completion_item carry no range
    for nm in ("hover", "completion_item"):
        fs = tp_fns.get(nm)
        if not fs or re.search(r"line_index|\brange\s*\(|\bposition\s*\(|path_for_file|from_file_path", fs[0].body):
            raise TranslateError("to_proto.rs: %s converts a position" % nm)
    out.append("Definition gen_folding_range (li : LineIndex) (r : rng) : res (N * N) := to_proto_folding_range li r.")
    known = {"position", "range", "location", "diagnostic", "document_symbol", "hover", "inlay_hint", "completion_item",
             "document_link", "folding_range"}
    extra = set(tp_fns) - known
    if extra:
        raise TranslateError("to_proto.rs: unknown function(s) %s" % sorted(extra))
    return out


# ------------------------------------------------------------------------------------------------ rendering

ITEM = {"location": "gen_location", "document_symbol": "gen_document_symbol", "inlay_hint": "gen_inlay_hint",
        "document_link": "gen_document_link", "folding_range": "gen_folding_range"}
EXPECT = {"definition": ("location", True), "references": ("location", True), "document_symbol": ("document_symbol", False),
          "inlay_hint": ("inlay_hint", False), "document_link": ("document_link", True), "folding_range": ("folding_range", False)}
TYPES = {"definition": ("option (file * rng)", "option (file * lrange)"),
         "references": ("option (list (file * rng))", "option (list (file * lrange))"),
         "document_symbol": ("option (list dsym)", "option (list lsym)"),
         "inlay_hint": ("option (list N)", "option (list lpos)"),
         "document_link": ("option (list (rng * file))", "option (list (lrange * file))"),
         "folding_range": ("option (list rng)", "option (list (N * N))")}


def render_handler(f):
    h = f["handler"]
    tp, vfs = EXPECT[h]
    if f["to_proto"] != tp:
        raise TranslateError("server.rs: %s: converts with to_proto::%s (expected %s)" % (h, f["to_proto"], tp))
    if f["uses_vfs"] != vfs:
        raise TranslateError("server.rs: %s: vfs argument of to_proto::%s" % (h, tp))
    if (h == "definition") != (f["shape"] == "scalar"):
        raise TranslateError("server.rs: %s: unexpected response shape %s" % (h, f["shape"]))
    fn = ITEM[tp]
    lead = "%s <- line_index content reqf ;;" % ("li" if f["index"] == "request" else "_")
    if f["index"] == "value" and f["req_index_name"] is not None:
        raise TranslateError("server.rs: %s: the requesting document's index is bound but not used" % h)
    if f["shape"] == "scalar":
        if f["index"] == "value":
            some = "li <- line_index content (fst x) ;; l <- %s li x ;; Ok (Some l)" % fn
        else:
            some = "l <- %s li x ;; Ok (Some l)" % fn
    else:
        if f["index"] == "value":
            some = "ls <- mapM (fun it => li <- line_index content (fst it) ;; %s li it) x ;; Ok (Some ls)" % fn
        else:
            some = "r <- mapM (%s li) x ;; Ok (Some r)" % fn
    tin, tout = TYPES[h]
    return ("Definition gen_h_%s (reqf : file) (result : %s) : res (%s) :=\n  %s\n"
            "  match result with\n  | None => Ok None\n  | Some x => %s\n  end." % (h, tin, tout, lead, some))


def translate(repo):
    tr = t_server.Tr(repo)
    tp_src = strip_comments(read(repo, "crates/lsp/src/to_proto.rs"))
    tp_fns = all_fns(tp_src, "to_proto.rs")
    out = ["(** GENERATED by tools/translate/t_serverconv.py from crates/lsp/src/server.rs, to_proto.rs, from_proto.rs - do not edit.",
           "    Which LineIndex and which URI each handler uses for each converted location, and what the to_proto",
           "    wrappers do with them (vocabulary of TG.Model.ServerProto part 2). *)",
           "From Coq Require Import List Bool NArith.", "From TG.Model Require Import Chars LineIndex ServerProto.",
           "Import ListNotations.", "Open Scope N_scope.", "", "Section Gen.", "Variable content : file -> text.", ""]
    out += render_wrappers(tp_fns, tp_src)
    out.append("")
    n_value = 0
    for h in HANDLERS:
        hf = handler_facts(tr, h)
        n_value += 1 if hf["index"] == "value" else 0
        out.append(render_handler(hf))
        out.append("")
    for h, tp in NO_RANGE_HANDLERS.items():
        body = closure_of(tr, h)
        if len(re.findall(r"to_proto::", body)) != 1 or not re.search(r"to_proto::%s\b" % tp, body) or \
                re.search(r"line_index\s*\(|path_for_file|from_file_path", body):
            raise TranslateError("server.rs: %s: unexpected conversion" % h)
    d = diagnostics_facts(tr)
    out.append("Definition gen_h_diagnostics_entry {M : Type} (e : file * list (rng * M)) : res (file * list (lrange * M)) :=\n"
               "  li <- line_index content (fst e) ;; ds <- mapM (gen_diagnostic li) (snd e) ;; Ok (fst e, ds).")
    out.append("Definition gen_h_diagnostics {M : Type} (dm : list (file * list (rng * M))) : res (list (file * list (lrange * M))) :=\n"
               "  mapM gen_h_diagnostics_entry dm.")
    assert d == {"index": "key", "uri": "key", "to_proto": "diagnostic"}
    out += ["", "End Gen.", ""]
    # how URIs are made and consumed: only through UrlExt, which is Url::from_file_path / Url::to_file_path
    vf = strip_comments(read(repo, "crates/lsp/src/vfs.rs"))
    vfns = all_fns(vf, "vfs.rs")
    impl = [f for f in vfns.get("from_file_path", []) if f.body.strip()]
    if len(impl) != 1 or norm(impl[0].body) != 'Url::from_file_path(&path.0).expect("failed to convert file path to url")':
        raise TranslateError("vfs.rs: UrlExt::from_file_path is not `Url::from_file_path(&path.0).expect(..)`: %s" % (
            norm(impl[0].body)[:160] if impl else "not found"))
    impl = [f for f in vfns.get("to_file_path", []) if f.body.strip()]
    if len(impl) != 1 or norm(impl[0].body) != 'self.to_file_path() .expect("failed to convert url to file path") .as_path() .into()':
        raise TranslateError("vfs.rs: UrlExt::to_file_path is not `self.to_file_path().expect(..).as_path().into()`: %s" % (
            norm(impl[0].body)[:160] if impl else "not found"))
    for rel, src in (("server.rs", tr.srv), ("to_proto.rs", tp_src), ("from_proto.rs", tr.fp)):
        if re.search(r"Url::parse|Url::from_directory_path|\.set_path\(|\.join\(|uri\.path\(\)|\.path\(\)\.into\(\)|format!\(\s*\"file:", src):
            raise TranslateError("%s: a URI is built or taken apart without UrlExt" % rel)
    sfc = norm(tr.fn("server.rs", "set_file_content").body)
    if not re.match(r"let path = UrlExt::to_file_path\(uri\);", sfc) or \
            not re.search(r"vfs\.set_open_document\(path\.clone\(\), text\.to_string\(\)\); let file_id = vfs\.assign_or_get_file_id\(path\);", sfc):
        raise TranslateError("server.rs: set_file_content: the editor buffer and the file id are not keyed by the SAME "
                             "decoded path `UrlExt::to_file_path(uri)`")
    # nothing else in server.rs converts
    srv = tr.srv
    n_tp = len(re.findall(r"to_proto::[a-z_]+\s*\(|to_proto::[a-z_]+\)", srv))
    if n_tp != len(HANDLERS) + len(NO_RANGE_HANDLERS) + 1:
        raise TranslateError("server.rs: %d uses of to_proto (expected %d)" % (n_tp, len(HANDLERS) + len(NO_RANGE_HANDLERS) + 1))
    n_li = len(re.findall(r"line_index\s*\(", srv))
    if n_li != n_value + 1:
        raise TranslateError("server.rs: %d line_index computations, %d accounted for by the handlers and the publish loop" % (n_li, n_value + 1))
    if re.search(r"LineIndex", srv):
        raise TranslateError("server.rs: mentions the type LineIndex (a stored / cached index?)")
    return {"GenServerConv.v": "\n".join(out) + "\n"}
