"""Small helpers shared by the translators: they read a rigid subset of Rust and fail loudly
(TranslateError) on anything outside it, so that a source edit the translator does not
understand is a broken tie and never silently ignored."""
import re


class TranslateError(Exception):
    pass


def read(repo, rel):
    with open(repo + "/" + rel, encoding="utf-8") as f:
        return f.read()


def strip_comments(src):
    """Remove // and /* */ comments (keeps strings and char literals intact)."""
    out = []
    i, n = 0, len(src)
    while i < n:
        c = src[i]
        if c == '"':
            j = i + 1
            while j < n and src[j] != '"':
                j += 2 if src[j] == "\\" else 1
            out.append(src[i:j + 1])
            i = j + 1
        elif c == "'" and re.match(r"'(\\.|[^\\'])'", src[i:i + 4]):
            m = re.match(r"'(\\.|[^\\'])'", src[i:i + 4])
            out.append(m.group(0))
            i += len(m.group(0))
        elif src.startswith("//", i):
            j = src.find("\n", i)
            i = n if j < 0 else j
        elif src.startswith("/*", i):
            j = src.find("*/", i + 2)
            i = n if j < 0 else j + 2
        else:
            out.append(c)
            i += 1
    return "".join(out)


def cut_tests(src):
    """Drop the trailing #[cfg(test)] module."""
    k = src.find("#[cfg(test)]")
    return src if k < 0 else src[:k]


def matching_brace(src, i, open_="{", close="}"):
    """src[i] == open_; returns index of the matching close (skipping strings / char literals)."""
    assert src[i] == open_, (src[i:i + 20], open_)
    depth, n = 0, len(src)
    while i < n:
        c = src[i]
        if c == '"':
            i += 1
            while i < n and src[i] != '"':
                i += 2 if src[i] == "\\" else 1
        elif c == "'":
            m = re.match(r"'(\\.|[^\\'])'", src[i:i + 4])
            if m:
                i += len(m.group(0)) - 1
        elif c == open_:
            depth += 1
        elif c == close:
            depth -= 1
            if depth == 0:
                return i
        i += 1
    raise TranslateError("unbalanced " + open_)


def fn_body(src, name):
    m = re.search(r"\bfn\s+%s\s*(<[^>]*>)?\s*\(" % re.escape(name), src)
    if not m:
        raise TranslateError("fn %s not found" % name)
    i = src.index("{", matching_brace(src, m.end() - 1, "(", ")"))
    j = matching_brace(src, i)
    return src[i + 1:j]


def enum_variants(src, name):
    m = re.search(r"\benum\s+%s\s*\{" % re.escape(name), src)
    if not m:
        raise TranslateError("enum %s not found" % name)
    j = matching_brace(src, m.end() - 1)
    body = src[m.end():j]
    vs = []
    for part in body.split(","):
        p = part.strip()
        if not p:
            continue
        if not re.fullmatch(r"[A-Za-z_][A-Za-z0-9_]*", p):
            raise TranslateError("enum %s: unsupported variant syntax %r" % (name, p))
        vs.append(p)
    return vs


def coq_str_codes(s):
    return "[" + "; ".join(str(ord(c)) for c in s) + "]%N"


def coq_string_lit(s):
    for ch in s:
        if ord(ch) < 32 or ord(ch) > 126:
            raise TranslateError("non-printable character in message literal %r" % s)
    return '"' + s.replace('"', '""') + '"'


def unescape_rust_str(s):
    out, i = [], 0
    while i < len(s):
        if s[i] == "\\":
            c = s[i + 1]
            mp = {"n": "\n", "t": "\t", "r": "\r", "\\": "\\", '"': '"', "'": "'", "0": "\0"}
            if c not in mp:
                raise TranslateError("unsupported escape \\%s" % c)
            out.append(mp[c])
            i += 2
        else:
            out.append(s[i])
            i += 1
    return "".join(out)
