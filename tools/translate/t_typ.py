"""T-typ: crates/ide/src/symbol_map/typ.rs -> coq/gen/GenTyp.v

Renders, from the CURRENT source, `enum Type` (checked against the model's `Scope.mty`, variant by variant with the
payload types), the `TY![..]` macro (as a table key -> variant), and every method of `impl Type`:
`element_typ`, `find_field`, `can_be_casted_to` (a Fixpoint: it calls itself on the boxed element types),
`is_bits`, `is_list`, `is_record`, one Coq definition `src_Type_<name>` per method, arm by arm in source order.
`impl Display for Type` only produces message texts (diagnostics are compared by class, not by text): it is listed
as not rendered.

Rendering rules (trusted): `Type::V(..)` = the constructor of `Scope.mty` given by VARIANTS; `Box<Type>` and
`.clone()` / `*` on it are the identity; `symbol_map` is the abstract state `s : Scope.st`; `symbol_map.record(id)`
is the handle `id`; `record.find_field(symbol_map, name)` = `Scope.find_field (rec_fuel s) (s_recs s) id name`;
`record.is_subclass_of(symbol_map, other)` = `Scope.is_subclass_of (rec_fuel s) (s_recs s) id other` (b-scope's plain
depth-first search; its relation to the visited-set implementation of record.rs is b-scope's
C05_subclass_visited_set / b-lines' GenSymbolMap, not part of this tie); `==` on record ids = `N.eqb`; `self == other`
on `Type` (derived PartialEq) = `Scope.mty_eqb`.
Anything outside this subset raises TranslateError with file:line (a broken tie, never silently skipped)."""
import re
from rsutil import TranslateError, read, strip_comments, cut_tests, matching_brace
import t_lexer

SRC = "crates/ide/src/symbol_map/typ.rs"
# variant -> (payload types in the source, constructor of Scope.mty)
VARIANTS = [("Bit", [], "MBit"), ("Int", [], "MInt"), ("String", [], "MString"), ("Code", [], "MCode"), ("Dag", [], "MDag"),
            ("Bits", ["usize"], "MBits"), ("List", ["Box<Type>"], "MList"), ("Record", ["RecordId", "EcoString"], "MRecord"),
            ("Uninitialized", [], "MUninit"), ("Unknown", [], "MUnknown"), ("Any", [], "MAny")]
CTOR = {v: c for v, _a, c in VARIANTS}
ARITY = {v: len(a) for v, a, _c in VARIANTS}
RET = {"Option<Type>": "option mty", "Option<RecordFieldId>": "option N", "bool": "bool"}
PARAM = {"&SymbolMap": ("s", "st"), "&EcoString": (None, "name"), "&Type": (None, "mty")}


class TP:
    def __init__(self, toks):
        self.t, self.i = toks, 0

    def peek(self, k=0):
        return self.t[min(self.i + k, len(self.t) - 1)]

    def err(self, msg):
        tk = self.peek()
        raise TranslateError("%s:%d: %s (at %r)" % (SRC, tk.line, msg, tk.val))

    def isp(self, v, k=0):
        tk = self.peek(k)
        return tk.kind == "P" and tk.val == v

    def isid(self, v=None, k=0):
        tk = self.peek(k)
        return tk.kind == "ID" and (v is None or tk.val == v)

    def eat(self):
        tk = self.t[self.i]
        self.i += 1
        return tk

    def xp(self, v):
        if not self.isp(v):
            self.err("expected %r" % v)
        return self.eat()

    def xid(self, v=None):
        if not self.isid(v):
            self.err("expected identifier %s" % (v or ""))
        return self.eat().val

    def skip_attr(self):
        while self.isp("#"):
            self.eat()
            self.xp("[")
            d = 1
            while d:
                tk = self.eat()
                if tk.kind == "EOF":
                    self.err("unterminated attribute")
                if tk.kind == "P" and tk.val == "[":
                    d += 1
                if tk.kind == "P" and tk.val == "]":
                    d -= 1

    def type_until(self, stops):
        out, depth = [], 0
        while True:
            tk = self.peek()
            if tk.kind == "EOF":
                self.err("bad type")
            if tk.kind == "P" and tk.val in ("<", "("):
                depth += 1
            elif tk.kind == "P" and tk.val in (">", ")"):
                if depth == 0:
                    break
                depth -= 1
            elif depth == 0 and tk.kind == "P" and tk.val in stops:
                break
            tk = self.eat()
            if tk.kind == "LIFETIME":
                continue
            out.append(str(tk.val))
        return "".join(out)

    # ---- items
    def items(self):
        enum, fns, skipped = None, [], []
        while self.peek().kind != "EOF":
            self.skip_attr()
            if self.isid("pub"):
                self.eat()
            if self.isid("use"):
                while not self.isp(";"):
                    if self.eat().kind == "EOF":
                        self.err("unterminated use")
                self.eat()
            elif self.isid("enum"):
                self.eat()
                if self.xid() != "Type" or enum is not None:
                    self.err("only `enum Type` is expected")
                self.xp("{")
                enum = []
                while not self.isp("}"):
                    v = self.xid()
                    args = []
                    if self.isp("("):
                        self.eat()
                        while not self.isp(")"):
                            args.append(self.type_until((",",)))
                            if self.isp(","):
                                self.eat()
                        self.eat()
                    enum.append((v, args))
                    if self.isp(","):
                        self.eat()
                self.eat()
            elif self.isid("impl"):
                self.eat()
                hdr = []
                while not self.isp("{"):
                    hdr.append(str(self.eat().val))
                hdr = "".join(hdr)
                if hdr == "Type":
                    self.eat()
                    while not self.isp("}"):
                        self.skip_attr()
                        if self.isid("pub"):
                            self.eat()
                        fns.append(self.fn())
                    self.eat()
                elif hdr == "std::fmt::DisplayforType":
                    j = self.i
                    depth = 0
                    while True:
                        tk = self.eat()
                        if tk.kind == "EOF":
                            self.err("unterminated impl")
                        if tk.kind == "P" and tk.val == "{":
                            depth += 1
                        if tk.kind == "P" and tk.val == "}":
                            depth -= 1
                            if depth == 0:
                                break
                    skipped.append("Display::fmt")
                else:
                    self.err("unexpected impl header `%s`" % hdr)
            else:
                self.err("unsupported item")
        return enum, fns, skipped

    def fn(self):
        line = self.peek().line
        self.xid("fn")
        name = self.xid()
        self.xp("(")
        self.xp("&")
        self.xid("self")
        params = []
        while self.isp(","):
            self.eat()
            if self.isp(")"):
                break
            p = self.xid()
            self.xp(":")
            params.append((p, self.type_until((",",))))
        self.xp(")")
        self.xp("->")
        ret = self.type_until(("{",))
        body = self.block()
        return {"name": name, "params": params, "ret": ret, "body": body, "line": line}

    # ---- statements: returns ("block", [stmts])
    def block(self):
        self.xp("{")
        st = []
        while not self.isp("}"):
            st.append(self.stmt())
        self.eat()
        return st

    def stmt(self):
        line = self.peek().line
        if self.isid("let"):
            self.eat()
            pat = self.pattern()
            self.xp("=")
            e = self.expr()
            if self.isid("else"):
                self.eat()
                els = self.block()
                self.xp(";")
                return ("letelse", pat, e, els, line)
            self.xp(";")
            return ("let", pat, e, line)
        if self.isid("return"):
            self.eat()
            e = self.expr()
            self.xp(";")
            return ("return", e, line)
        if self.isid("if"):
            self.eat()
            c = self.expr()
            a = self.block()
            if self.isid("else"):
                self.err("`if .. else` statements are outside the subset (only `if c { return v; }`)")
            return ("ifret", c, a, line)
        e = self.expr()
        if self.isp(";"):
            self.err("expression statements are outside the subset")
        return ("value", e, line)

    # ---- expressions
    def expr(self):
        a = self.unary()
        if self.isp("=="):
            self.eat()
            return ("eq", a, self.unary())
        return a

    def unary(self):
        if self.isp("*") or self.isp("&"):
            self.eat()
            return self.unary()                       # deref / borrow of a Copy id or of a Box: identity
        return self.postfix()

    def postfix(self):
        e = self.primary()
        while self.isp("."):
            self.eat()
            m = self.xid()
            self.xp("(")
            args = []
            while not self.isp(")"):
                args.append(self.expr())
                if self.isp(","):
                    self.eat()
            self.eat()
            e = ("method", e, m, args, self.peek().line)
        return e

    def primary(self):
        tk = self.peek()
        if tk.kind == "ID":
            if tk.val == "match":
                return self.match_()
            if tk.val in ("true", "false"):
                self.eat()
                return ("bool", tk.val == "true")
            name = self.eat().val
            if name == "matches" and self.isp("!"):
                self.eat()
                self.xp("(")
                e = self.expr()
                self.xp(",")
                pats = [self.pattern()]
                while self.isp("|"):
                    self.eat()
                    pats.append(self.pattern())
                self.xp(")")
                return ("matches", e, pats, tk.line)
            path = [name]
            while self.isp("::"):
                self.eat()
                path.append(self.xid())
            if self.isp("("):
                self.eat()
                args = []
                while not self.isp(")"):
                    args.append(self.expr())
                    if self.isp(","):
                        self.eat()
                self.eat()
                return ("ctor", path, args, tk.line)
            return ("path", path, tk.line)
        if tk.kind == "P" and tk.val == "(":
            self.eat()
            es = [self.expr()]
            while self.isp(","):
                self.eat()
                es.append(self.expr())
            self.xp(")")
            return es[0] if len(es) == 1 else ("tuple", es)
        if tk.kind == "P" and tk.val == "{":
            return ("blockexpr", self.block(), tk.line)
        self.err("unsupported expression")

    def match_(self):
        line = self.peek().line
        self.xid("match")
        scrut = self.expr()
        self.xp("{")
        arms = []
        while not self.isp("}"):
            pats = [self.pattern()]
            while self.isp("|"):
                self.eat()
                pats.append(self.pattern())
            if self.isid("if"):
                self.err("match guards are outside the subset")
            self.xp("=>")
            if self.isp("{"):
                body = ("blockexpr", self.block(), self.peek().line)
            else:
                body = self.expr()
            if self.isp(","):
                self.eat()
            arms.append((pats, body))
        self.eat()
        return ("match", scrut, arms, line)

    def pattern(self):
        tk = self.peek()
        if tk.kind == "P" and tk.val == "(":
            self.eat()
            ps = [self.pattern()]
            while self.isp(","):
                self.eat()
                ps.append(self.pattern())
            self.xp(")")
            return ("tuple", ps)
        if tk.kind == "ID":
            name = self.eat().val
            if name == "_":
                return ("wild",)
            if self.isp("::"):
                path = [name]
                while self.isp("::"):
                    self.eat()
                    path.append(self.xid())
                args = []
                if self.isp("("):
                    self.eat()
                    while not self.isp(")"):
                        args.append(self.pattern())
                        if self.isp(","):
                            self.eat()
                    self.eat()
                return ("variant", path, args, tk.line)
            return ("bind", name)
        self.err("unsupported pattern")


class Gen:
    def __init__(self, repo):
        src = cut_tests(strip_comments(read(repo, SRC)))
        # the TY! macro: a table key -> variant
        m = re.search(r"macro_rules!\s*TY\s*\{", src)
        if not m:
            raise TranslateError("%s: macro_rules! TY not found" % SRC)
        j = matching_brace(src, m.end() - 1)
        body = src[m.end():j]
        self.macro = []
        rest = body
        arm = re.compile(r"\s*\[\s*([a-z?]+)\s*(?:<\s*\$(\w+)\s*:\s*tt\s*>)?\s*\]\s*=>\s*\{\s*\$crate::symbol_map::typ::Type::(\w+)\s*(\((.*?)\))?\s*\}\s*;", re.S)
        pos = 0
        while True:
            a = arm.match(rest, pos)
            if not a:
                break
            arg = re.sub(r"\$\w+", "$x", re.sub(r"\s+", "", a.group(5) or ""))     # metavariable names are not semantic
            self.macro.append((a.group(1), a.group(3), arg))
            pos = a.end()
        if rest[pos:].strip():
            raise TranslateError("%s: unsupported arm of macro_rules! TY near %r" % (SRC, rest[pos:].strip()[:60]))
        src = src[:m.start()] + "\n" * src.count("\n", m.start(), j + 1) + src[j + 1:]
        if "$" in src or "macro_rules" in src:
            raise TranslateError("%s: a second macro definition is outside the subset" % SRC)
        self.enum, self.fns, self.skipped = TP(t_lexer.tokenize(src, SRC)).items()
        want = [(v, a) for v, a, _c in VARIANTS]
        if self.enum != want:
            raise TranslateError("%s: enum Type differs from the model's mty: found %s, expected %s" % (SRC, self.enum, want))
        self.names = [f["name"] for f in self.fns]
        self.tmp = 0

    def fail(self, line, msg):
        raise TranslateError("%s:%d: %s" % (SRC, line, msg))

    def var(self, x):
        return "v_" + x

    # ---- patterns
    def pat(self, p, env):
        k = p[0]
        if k == "wild":
            return "_"
        if k == "bind":
            env.add(p[1])
            return self.var(p[1])
        if k == "variant":
            path, args, line = p[1], p[2], p[3]
            if len(path) != 2 or path[0] not in ("Self", "Type") or path[1] not in CTOR:
                self.fail(line, "unknown variant %s" % "::".join(path))
            if len(args) != ARITY[path[1]]:
                self.fail(line, "variant %s takes %d arguments" % (path[1], ARITY[path[1]]))
            if not args:
                return CTOR[path[1]]
            return "(%s %s)" % (CTOR[path[1]], " ".join(self.pat(a, env) for a in args))
        self.fail(0, "unsupported pattern %r" % (k,))

    # ---- expressions (pure)
    def E(self, e, ctx):
        k = e[0]
        if k == "bool":
            return "true" if e[1] else "false"
        if k == "path":
            p = e[1]
            if p == ["None"]:
                return "None"
            if len(p) == 2 and p[0] in ("Self", "Type") and p[1] in CTOR and ARITY[p[1]] == 0:
                return CTOR[p[1]]
            if len(p) == 1 and (p[0] in ctx["locals"] or p[0] == "self"):
                return self.var(p[0])
            self.fail(e[2], "unknown name %s" % "::".join(p))
        if k == "ctor":
            p, args, line = e[1], e[2], e[3]
            if p == ["Some"] and len(args) == 1:
                return "(Some %s)" % self.E(args[0], ctx)
            if len(p) == 2 and p[0] in ("Self", "Type") and p[1] in CTOR and len(args) == ARITY[p[1]]:
                return "(%s %s)" % (CTOR[p[1]], " ".join(self.E(a, ctx) for a in args))
            self.fail(line, "unsupported call %s" % "::".join(p))
        if k == "eq":
            a, b = e[1], e[2]
            ta, tb = self.E(a, ctx), self.E(b, ctx)
            kinds = {self.kind_of(a, ctx), self.kind_of(b, ctx)}
            if kinds == {"ty"}:
                return "(mty_eqb %s %s)" % (ta, tb)
            if kinds == {"id"}:
                return "(%s =? %s)" % (ta, tb)
            self.fail(0, "`==` between values of unknown type")
        if k == "matches":
            env = set()
            if self.kind_of(e[1], ctx) != "ty":
                self.fail(e[3], "matches! on something that is not a Type")
            pats = " | ".join(self.pat(p, env) for p in e[2])
            if env:
                self.fail(e[3], "bindings in matches!")
            return "(match %s with %s => true | _ => false end)" % (self.E(e[1], ctx), pats)
        if k == "method":
            return self.method(e, ctx)
        if k == "match":
            return self.match(e, ctx)
        if k == "blockexpr":
            return self.stmts(e[1], 0, ctx)
        self.fail(0, "unsupported expression %r" % (k,))

    def kind_of(self, e, ctx):
        if e[0] == "path" and len(e[1]) == 1:
            return ctx["kinds"].get(e[1][0])
        if e[0] in ("ctor", "path") and e[1][0] in ("Self", "Type"):
            return "ty"
        if e[0] == "method" and e[2] == "clone":
            return self.kind_of(e[1], ctx)
        return None

    def method(self, e, ctx):
        recv, m, args, line = e[1], e[2], e[3], e[4]
        rk = self.kind_of(recv, ctx)
        if m == "clone" and not args:
            return self.E(recv, ctx)
        if rk == "ty" and m in self.names:
            f = next(f for f in self.fns if f["name"] == m)
            if len(args) != len(f["params"]):
                self.fail(line, "wrong number of arguments for %s" % m)
            return "(src_Type_%s %s)" % (m, " ".join([self.arg(a, ctx) for a in args[:0]] + self.call_args(f, recv, args, ctx)))
        if rk == "sm" and m == "record" and len(args) == 1 and self.kind_of(args[0], ctx) == "id":
            return self.E(args[0], ctx)                                     # a record handle is its id
        if rk == "rec" and m == "find_field" and len(args) == 2 and self.kind_of(args[0], ctx) == "sm":
            return "(find_field (rec_fuel v_symbol_map) (s_recs v_symbol_map) %s %s)" % (self.E(recv, ctx), self.E(args[1], ctx))
        if rk == "rec" and m == "is_subclass_of" and len(args) == 2 and self.kind_of(args[0], ctx) == "sm" \
                and self.kind_of(args[1], ctx) == "id":
            return "(is_subclass_of (rec_fuel v_symbol_map) (s_recs v_symbol_map) %s %s)" % (self.E(recv, ctx), self.E(args[1], ctx))
        self.fail(line, "method .%s() on a value of kind %s is outside the subset" % (m, rk))

    def arg(self, a, ctx):
        return self.E(a, ctx)

    def call_args(self, f, recv, args, ctx):
        out = []
        # parameter order of the rendering: symbol_map first (when present), then self, then the others
        sm = [a for (p, t), a in zip(f["params"], args) if t == "&SymbolMap"]
        others = [a for (p, t), a in zip(f["params"], args) if t != "&SymbolMap"]
        for a in sm:
            out.append(self.E(a, ctx))
        out.append(self.E(recv, ctx))
        for a in others:
            out.append(self.E(a, ctx))
        return out

    def match(self, e, ctx):
        scrut, arms, line = e[1], e[2], e[3]
        if scrut[0] == "tuple":
            ss = scrut[1]
        else:
            ss = [scrut]
        for x in ss:
            if self.kind_of(x, ctx) != "ty":
                self.fail(line, "match on something that is not a Type")
        rows = []
        for pats, body in arms:
            alts, envs = [], []
            for p in pats:
                env = set()
                if len(ss) > 1 and p[0] == "wild":
                    alts.append(", ".join("_" for _x in ss))
                elif len(ss) > 1:
                    if p[0] != "tuple" or len(p[1]) != len(ss):
                        self.fail(line, "tuple pattern expected")
                    alts.append(", ".join(self.pat(q, env) for q in p[1]))
                else:
                    alts.append(self.pat(p, env))
                envs.append(env)
            if any(v != envs[0] for v in envs):
                self.fail(line, "alternatives of an or-pattern bind different names")
            kinds = dict(ctx["kinds"])
            for q, names in self.binder_kinds(pats[0], len(ss)):
                kinds[q] = names
            c2 = dict(ctx, locals=ctx["locals"] | envs[0], kinds=kinds)
            rows.append("| %s => %s" % (" | ".join(alts), self.E(body, c2)))
        return "(match %s with %s end)" % (", ".join(self.E(x, ctx) for x in ss), " ".join(rows))

    def binder_kinds(self, p, n):
        """kinds of the variables bound by a pattern: payload of List = ty, of Bits = num, of Record = id, name"""
        out = []

        def go(q):
            if q[0] == "tuple":
                for r in q[1]:
                    go(r)
            elif q[0] == "variant":
                v = q[1][1]
                payload = {"List": ["ty"], "Bits": ["num"], "Record": ["id", "name"]}.get(v, [])
                for r, kd in zip(q[2], payload):
                    if r[0] == "bind":
                        out.append((r[1], kd))
                    elif r[0] != "wild":
                        self.fail(q[3], "nested patterns are outside the subset")
        go(p)
        return out

    # ---- statements (a body is an expression with early returns)
    def stmts(self, sts, i, ctx):
        if i == len(sts):
            self.fail(0, "a body must end with a value")
        s = sts[i]
        k = s[0]
        last = i == len(sts) - 1
        if k == "value":
            if not last:
                self.fail(s[2], "statements after the value of the block")
            return self.E(s[1], ctx)
        if k == "return":
            if not last:
                self.fail(s[2], "statements after `return`")
            return self.E(s[1], ctx)
        if k == "ifret":
            _, c, a, line = s
            if len(a) != 1 or a[0][0] != "return":
                self.fail(line, "only `if c { return v; }` is inside the subset")
            return "(if %s then %s else %s)" % (self.E(c, ctx), self.E(a[0][1], ctx), self.stmts(sts, i + 1, ctx))
        if k == "let":
            _, pat, e, line = s
            if pat[0] != "bind":
                self.fail(line, "only `let x = e;` is inside the subset")
            kd = self.kind_of_value(e, ctx)
            c2 = dict(ctx, locals=ctx["locals"] | {pat[1]}, kinds=dict(ctx["kinds"], **{pat[1]: kd}))
            return "(let %s := %s in %s)" % (self.var(pat[1]), self.E(e, ctx), self.stmts(sts, i + 1, c2))
        if k == "letelse":
            _, pat, e, els, line = s
            if len(els) != 1 or els[0][0] != "return":
                self.fail(line, "only `let P = e else { return v; };` is inside the subset")
            env = set()
            pt = self.pat(pat, env)
            kinds = dict(ctx["kinds"])
            for q, kd in self.binder_kinds(pat, 1):
                kinds[q] = kd
            c2 = dict(ctx, locals=ctx["locals"] | env, kinds=kinds)
            return "(match %s with %s => %s | _ => %s end)" % (self.E(e, ctx), pt, self.stmts(sts, i + 1, c2), self.E(els[0][1], ctx))
        self.fail(0, "unsupported statement %r" % (k,))

    def kind_of_value(self, e, ctx):
        if e[0] == "method" and e[2] == "record" and self.kind_of(e[1], ctx) == "sm":
            return "rec"
        kd = self.kind_of(e, ctx)
        if kd is None:
            self.fail(0, "cannot classify the value bound by `let`")
        return kd

    # ---- functions
    def function(self, f):
        name, line = f["name"], f["line"]
        if f["ret"] not in RET:
            self.fail(line, "result type %s is outside the subset" % f["ret"])
        kinds = {"self": "ty"}
        ps_sm, ps_other = [], []
        for p, t in f["params"]:
            if t not in PARAM:
                self.fail(line, "parameter type %s is outside the subset" % t)
            if t == "&SymbolMap":
                if p != "symbol_map":
                    # normalise the name: the rendering rules refer to v_symbol_map
                    self.fail(line, "the SymbolMap parameter must be called symbol_map")
                kinds[p] = "sm"
                ps_sm.append("(v_%s : st)" % p)
            elif t == "&Type":
                kinds[p] = "ty"
                ps_other.append("(v_%s : mty)" % p)
            else:
                kinds[p] = "name"
                ps_other.append("(v_%s : name)" % p)
        ctx = {"locals": {p for p, _ in f["params"]}, "kinds": kinds}
        body = self.stmts(f["body"], 0, ctx)
        rec = ("src_Type_%s " % name) in body
        params = " ".join(ps_sm + ["(v_self : mty)"] + ps_other)
        if rec:
            return "Fixpoint src_Type_%s %s {struct v_self} : %s :=\n  %s." % (name, params, RET[f["ret"]], body)
        return "Definition src_Type_%s %s : %s :=\n  %s." % (name, params, RET[f["ret"]], body)


def translate(repo):
    g = Gen(repo)
    o = ["(* GENERATED by tools/translate/t_typ.py from crates/ide/src/symbol_map/typ.rs -- do not edit *)",
         "From Coq Require Import List NArith Bool String.",
         "From TG.Model Require Import CoreAst Scope.",
         "Import ListNotations.", "Open Scope N_scope.", ""]
    o.append("(* enum Type: checked variant by variant against Scope.mty: %s *)" % ", ".join(
        "%s%s = %s" % (v, "(%s)" % ", ".join(a) if a else "", c) for v, a, c in VARIANTS))
    o.append("Definition src_enum_Type : list (string * nat) :=\n  [ %s ]%%string.\n" % "; ".join(
        '("%s", %d%%nat)' % (v, len(a)) for v, a in g.enum))
    o.append("(* macro_rules! TY: key, variant, argument text *)")
    o.append("Definition src_TY_macro : list (string * string * string) :=\n  [ %s ]%%string.\n" % "; ".join(
        '("%s", "%s", "%s")' % r for r in g.macro))
    # callees first
    order, seen = [], set()

    def visit(f):
        if f["name"] in seen:
            return
        seen.add(f["name"])
        text = g.function(f)
        for h in g.fns:
            if h["name"] != f["name"] and ("src_Type_%s " % h["name"]) in text:
                visit(h)
        order.append((f, text))
    for f in g.fns:
        visit(f)
    for f, text in order:
        o.append("(* Type::%s *)" % f["name"])
        o.append(text)
        o.append("")
    o.append("Definition typ_functions_rendered : list string := [ %s ]%%string." % "; ".join('"%s"' % f["name"] for f, _ in order))
    o.append("Definition typ_functions_not_rendered : list string := [ %s ]%%string." % "; ".join('"%s"' % s for s in g.skipped))
    return {"GenTyp.v": "\n".join(o) + "\n"}


if __name__ == "__main__":
    import sys
    print(translate(sys.argv[1] if len(sys.argv) > 1 else "/repo")["GenTyp.v"])
