"""T-indexer (partial, see design/notes-translator-indexer.md): crates/ide/src/index/scope.rs, index/context.rs and the
`impl Indexable` blocks of index.rs -> coq/gen/GenIndexer.v, rendered over the state `Scope.st` and the monad `Scope.M`
of the hand model of group scope.  One rendering per Rust fn; a fn outside the subset is reported in the output
("not rendered: <fn>: <reason>") and the translation goes on.  TG.Proofs.GenIndexerEq relates every rendered fn to the
definition of Scope.v / Indexer.v it corresponds to.

Tables (trusted, documented in the notes): the representation of Rust values in Scope.st (a `Vec` used as a stack is the
list with the innermost element first; HashMap = association list, insert = cons), the symbol-map calls as the abstraction
of Scope.v (three arenas records / multiclasses / leaves), the typed AST accessors as fields of the CoreAst constructors,
the diagnostic messages as `dkind` classes."""
import os
import re
from rsutil import TranslateError, read, strip_comments, cut_tests
import t_lineindex as base
import t_symbolmap as sm

DIR = "crates/ide/src/"
SCOPE, CONTEXT, INDEX = DIR + "index/scope.rs", DIR + "index/context.rs", DIR + "index.rs"
atom = base.atom


# ----------------------------------------------------------------------------- parser

class P3(sm.P2):
    def items(self):
        """-> dict(structs, enums, impls=[(target, trait|None, [fn])], fns=[fn], mods={name: dict})"""
        m = {"structs": {}, "enums": {}, "impls": [], "fns": [], "mods": {}, "skipped": []}
        while self.peek().kind != "EOF" and not self.isp("}"):
            attrs = self.attr_list()
            if sm.HOOK_CFG in attrs:
                self.skip_item()
                continue
            self.vis()
            if self.isid("use"):
                self.skip_to_semi()
            elif self.isid("mod"):
                self.eat()
                name = self.expect_id()
                if self.isp(";"):
                    self.eat()
                else:
                    self.expect_p("{")
                    m["mods"][name] = self.items()
                    self.expect_p("}")
            elif self.isid("trait"):
                self.eat()
                m["skipped"].append("trait " + self.expect_id())
                self.skip_item()
            elif self.isid("struct"):
                self.eat()
                name = self.expect_id()
                if self.isp("<"):
                    self.eat()
                    if self.peek().kind != "LIFETIME":
                        self.err("generic struct")
                    self.eat()
                    self.expect_p(">")
                self.expect_p("{")
                fields = []
                while not self.isp("}"):
                    self.attr_list()
                    self.vis()
                    f = self.expect_id()
                    self.expect_p(":")
                    fields.append((f, self.type_()))
                    if self.isp(","):
                        self.eat()
                self.expect_p("}")
                m["structs"][name] = fields
            elif self.isid("enum"):
                self.eat()
                name = self.expect_id()
                self.expect_p("{")
                vs = []
                while not self.isp("}"):
                    v = self.expect_id()
                    args = []
                    if self.isp("("):
                        self.eat()
                        while not self.isp(")"):
                            args.append(self.type_())
                            if self.isp(","):
                                self.eat()
                        self.expect_p(")")
                    vs.append((v, args))
                    if self.isp(","):
                        self.eat()
                self.expect_p("}")
                m["enums"][name] = vs
            elif self.isid("impl"):
                self.eat()
                if self.isp("<"):
                    self.eat()
                    if self.peek().kind != "LIFETIME":
                        self.err("generic impl")
                    self.eat()
                    self.expect_p(">")
                first = self.type_path()
                trait, target = None, first
                if self.isid("for"):
                    self.eat()
                    trait, target = first, self.type_path()
                self.expect_p("{")
                fns = []
                while not self.isp("}"):
                    a2 = self.attr_list()
                    if sm.HOOK_CFG in a2:
                        self.skip_item()
                        continue
                    self.vis()
                    if self.isid("type"):
                        self.skip_to_semi()
                        continue
                    if not self.isid("fn"):
                        self.err("only fn items are supported inside impl")
                    fns.append(self.fn_tolerant())
                self.expect_p("}")
                m["impls"].append((re.sub(r"<.*>$", "", target), trait, fns))
            elif self.isid("fn"):
                m["fns"].append(self.fn_tolerant())
            else:
                self.err("unsupported item")
        return m

    def fn_tolerant(self):
        """parse a fn; if its body is outside the parser's subset keep the reason instead of failing the whole file"""
        start = self.i
        line = self.peek().line
        try:
            return self.fn()
        except TranslateError as ex:
            # skip to the end of this fn: find its body's braces from the start
            self.i = start
            name = self.t[self.i + 1].val
            while not self.isp("{"):
                self.eat()
            depth = 0
            while True:
                tk = self.eat()
                if tk.kind == "P" and tk.val == "{":
                    depth += 1
                elif tk.kind == "P" and tk.val == "}":
                    depth -= 1
                    if depth == 0:
                        break
                elif tk.kind == "EOF":
                    self.err("unterminated fn")
            return {"name": name, "params": [], "ret": None, "body": None, "line": line, "unparsed": str(ex)}

    def fn(self):
        line = self.peek().line
        self.expect_id("fn")
        name = self.expect_id()
        if self.isp("<"):
            self.err("generic fn")
        self.expect_p("(")
        params = []
        while not self.isp(")"):
            if self.isp("&") and self.isid("self", 1):
                self.eat()
                self.eat()
                params.append(("self", "&Self"))
            elif self.isp("&") and self.isid("mut", 1) and self.isid("self", 2):
                self.eat()
                self.eat()
                self.eat()
                params.append(("self", "&mut Self"))
            elif self.isid("self"):
                self.eat()
                params.append(("self", "Self"))
            else:
                if self.isid("mut"):
                    self.err("mut parameter")
                pname = self.expect_id()
                self.expect_p(":")
                mut = self.isp("&") and self.isid("mut", 1)
                if mut:
                    self.eat()
                    self.eat()
                t = self.type_()
                params.append((pname, ("&mut " if mut else "") + t))
            if self.isp(","):
                self.eat()
        self.expect_p(")")
        ret = None
        if self.isp("->"):
            self.eat()
            ret = self.type_()
        body = self.block()
        return {"name": name, "params": params, "ret": ret, "body": body, "line": line}

    def primary(self, ns):
        tk = self.peek()
        if tk.kind == "P" and tk.val == "[":
            self.eat()
            elems = []
            while not self.isp("]"):
                elems.append(self.expr())
                if self.isp(","):
                    self.eat()
            self.expect_p("]")
            return ("array", elems)
        if tk.kind == "ID" and tk.val in ("if", "match") and self.peek(1).kind == "ID" and False:
            pass
        return super().primary(ns)

    def else_part(self, line):
        if not self.isid("else"):
            return None
        self.eat()
        if self.isid("if"):
            nested = self.iflet() if self.isid("let", 1) else self.if_()
            return ("block", [("ifstmt", nested, line)], None)
        return self.block()

    def iflet(self):
        line = self.peek().line
        self.expect_id("if")
        self.expect_id("let")
        pat = self.pattern()
        self.expect_p("=")
        e = self.expr(no_struct=True)
        a = self.block()
        return ("iflet", pat, e, a, self.else_part(line), line)

    def if_(self):
        line = self.peek().line
        self.expect_id("if")
        if self.isid("let"):
            self.i -= 1
            return self.iflet()
        c = self.expr(no_struct=True)
        a = self.block()
        return ("if", c, a, self.else_part(line), line)

    def match_(self):
        line = self.peek().line
        self.expect_id("match")
        scrut = self.expr(no_struct=True)
        self.expect_p("{")
        arms = []
        while not self.isp("}"):
            pats = [self.pattern()]
            while self.isp("|"):
                self.eat()
                pats.append(self.pattern())
            guard = None
            if self.isid("if"):
                self.eat()
                guard = self.expr(no_struct=True)
            self.expect_p("=>")
            if self.isp("{"):
                body = self.block()
                if self.isp(","):
                    self.eat()
            else:
                body = ("block", [], self.expr())
                if self.isp(","):
                    self.eat()
                elif not self.isp("}"):
                    self.err("expected ',' after match arm")
            pat = pats[0] if len(pats) == 1 else ("por", pats)
            arms.append((("pguard", pat, guard) if guard is not None else pat, body))
        self.expect_p("}")
        return ("match", scrut, arms, line)

    def pattern(self):
        tk = self.peek()
        if tk.kind == "NUM":
            self.eat()
            return ("pnum", tk.val[0])
        # Path::Variant(a, b) with several sub-patterns
        if tk.kind == "ID" and tk.val not in ("mut", "_", "Some", "None") and self.isp("::", 1):
            path = [self.eat().val]
            while self.isp("::"):
                self.eat()
                path.append(self.expect_id())
            subs = []
            if self.isp("("):
                self.eat()
                while not self.isp(")"):
                    subs.append(self.pattern())
                    if self.isp(","):
                        self.eat()
                self.expect_p(")")
            return ("pvariant", path, subs)
        return super().pattern()


def parse(repo, rel):
    src = cut_tests(strip_comments(read(repo, rel)))
    p = P3(base.tokenize(src, rel), rel)
    m = p.items()
    if p.peek().kind != "EOF":
        p.err("unexpected '}'")
    return m


# ----------------------------------------------------------------------------- tables

ID_CTOR = {"RecordId": "SyRecord", "MulticlassId": "SyMc", "VariableId": "SyLeaf", "DefsetId": "SyLeaf", "DefmId": "SyLeaf",
           "RecordFieldId": "SyLeaf", "TemplateArgumentId": "SyLeaf"}
# enum ScopeKind (checked against the source)
SCOPE_KIND = [("Root", [], "KRoot"), ("Block", [], "KBlock"), ("Record", ["RecordId"], "KRecord"),
              ("Foreach", ["EcoString", "VariableId"], "KForeach"), ("Defset", ["DefsetId"], "KDefset"),
              ("Multiclass", ["MulticlassId"], "KMulticlass"), ("Defm", ["DefmId"], "KDefm"), ("XFilter", [], "KXFilter"),
              ("XFoldl", [], "KXFoldl"), ("XForeach", [], "KXForeach")]
SCOPE_STRUCT = [("kind", "ScopeKind"), ("name_to_variable", "HashMap<EcoString,VariableId>")]
SCOPES_STRUCT = [("scopes", "Vec<Scope>")]
CTX_STRUCT = [("db", "'adynIndexDatabase"), ("file_trace", "Vec<FileId>"), ("indexed_files", "HashSet<FileId>"),
              ("symbol_map", "SymbolMap"), ("diagnostics", "Vec<Diagnostic>"), ("scopes", "Scopes"),
              ("anonymous_def_index", "u32")]


def rust_ty(t):
    t = t.replace("'a", "").replace("'_", "")
    m = re.fullmatch(r"Option<(.*)>", t)
    if m:
        return ("opt", rust_ty(m.group(1)))
    if t in ID_CTOR:
        return ("id", t)
    table = {"EcoString": "name", "ScopeKind": "ScopeKind", "Scope": "Scope", "Self": "Self", "SymbolMap": "SM",
             "SymbolId": "SymbolId", "Variable": "Variable", "FileId": "FileId", "TextRange": "rng", "bool": "bool",
             "implInto<String>": "dkind", "Scopes": "Scopes"}
    if t in table:
        return table[t]
    raise TranslateError("unsupported type %r" % t)


def coq_ty(t):
    if isinstance(t, tuple):
        if t[0] == "id":
            return "N"
        if t[0] == "opt":
            return "(option %s)" % coq_ty(t[1])
    return {"name": "name", "ScopeKind": "skind", "Scope": "scope", "SM": "st", "SymbolId": "symid", "Variable": "leaf",
            "FileId": "N", "rng": "rng", "bool": "bool", "dkind": "dkind", "Scopes": "(list scope)", "unit": "unit",
            "Ctx": "st"}[t]


class Refuse(Exception):
    """this fn is outside the subset (the translation goes on with the next one)"""


class Gen3:
    def __init__(self):
        self.sigs = {}       # (owner, name) -> (coq name, kind, params, ret)   kind: pure | M
        self.fname = "?"

    def no(self, line, msg):
        raise Refuse("%s:%d: %s" % (self.fname, line or 0, msg))

    # ---- pure expressions
    def tr(self, e, env):
        k = e[0]
        if k == "paren":
            return self.tr(e[1], env)
        if k == "un" and e[1] in ("&", "*", "&mut"):
            return self.tr(e[2], env)
        if k == "un" and e[1] == "!":
            c, t = self.tr(e[2], env)
            if t != "bool":
                self.no(e[3], "`!` on %s" % (t,))
            return "negb %s" % atom(c), "bool"
        if k == "path":
            path, line = e[1], e[2]
            if len(path) == 1:
                if path[0] == "None":
                    return "None", ("opt", None)
                if path[0] not in env:
                    self.no(line, "unknown name %s" % path[0])
                return env[path[0]]
            if len(path) == 2 and path[0] == "ScopeKind":
                for v, args, ctor in SCOPE_KIND:
                    if v == path[1] and not args:
                        return ctor, "ScopeKind"
            self.no(line, "path %s" % "::".join(path))
        if k == "bin" and e[1] == "==":
            a, ta = self.tr(e[2], env)
            b, tb = self.tr(e[3], env)
            if ta == tb == "name":
                return "name_eqb %s %s" % (atom(a), atom(b)), "bool"
            self.no(e[4], "== on %s / %s" % (ta, tb))
        if k == "field":
            c, t = self.tr(e[1], env)
            f = e[2]
            tab = {("Scope", "kind"): ("sc_kind %s", "ScopeKind"), ("Scope", "name_to_variable"): ("sc_vars %s", ("hmap", "VariableId")),
                   ("Scopes", "scopes"): ("%s", ("stack", "Scope")), ("Variable", "name"): ("lf_name %s", "name"),
                   ("Ctx", "scopes"): ("s_scopes %s", "Scopes"), ("Ctx", "symbol_map"): ("%s", "SM"),
                   ("Ctx", "file_trace"): ("s_trace %s", ("stack", "FileId")), ("Ctx", "anonymous_def_index"): ("s_anon %s", "u32")}
            if isinstance(t, tuple) or (t, f) not in tab:
                self.no(e[3], "field .%s of %s" % (f, t))
            pat, rt = tab[(t, f)]
            return pat % atom(c), rt
        if k == "call":
            f, args, line = e[1], e[2], e[3]
            name = "::".join(f[1]) if f[0] == "path" else "?"
            if name == "Some" and len(args) == 1:
                c, t = self.tr(args[0], env)
                return "Some %s" % atom(c), ("opt", t)
            if name == "HashMap::new" and not args:
                return "[]", ("hmap", None)
            if len(f[1]) == 2 and f[1][0] == "ScopeKind":
                for v, vargs, ctor in SCOPE_KIND:
                    if v == f[1][1] and len(vargs) == len(args) and vargs:
                        cs = []
                        for a, want in zip(args, vargs):
                            c, t = self.tr(a, env)
                            if t != rust_ty(want):
                                self.no(line, "%s(%s)" % (name, t))
                            cs.append(atom(c))
                        return "%s %s" % (ctor, " ".join(cs)), "ScopeKind"
            if len(f[1]) == 2 and (f[1][0], f[1][1]) in self.sigs:
                coq, kind, params, ret = self.sigs[(f[1][0], f[1][1])]
                if kind == "pure" and len(params) == len(args):
                    cs = []
                    for a, (pn, pt) in zip(args, params):
                        c, t = self.tr(a, env)
                        if t != pt:
                            self.no(line, "%s: argument of type %s, expected %s" % (coq, t, pt))
                        cs.append(atom(c))
                    return ("%s %s" % (coq, " ".join(cs))).strip(), ret
            self.no(line, "call of %s" % name)
        if k == "macro" and e[1] == ["vec"] and len(e[2]) == 1:
            c, t = self.tr(e[2][0], env)
            return "[%s]" % c, ("stack", t)
        if k == "mcall":
            return self.tr_mcall(e, env)
        if k == "match":
            return self.tr_match(e, env)
        if k == "struct":
            path, fields, line = e[1], e[2], e[3]
            sname = self.owner if path == ["Self"] else "::".join(path)
            if sname == "Scope" and [f for f, _ in fields] == ["kind", "name_to_variable"]:
                ck, tk = self.tr(fields[0][1], env)
                cv, tv = self.tr(fields[1][1], env)
                if tk != "ScopeKind" or tv != ("hmap", None):
                    self.no(line, "Scope literal of %s, %s" % (tk, tv))
                return "mkScope %s %s" % (atom(ck), atom(cv)), "Scope"
            if sname == "Scopes" and [f for f, _ in fields] == ["scopes"]:
                c, t = self.tr(fields[0][1], env)
                if t != ("stack", "Scope"):
                    self.no(line, "Scopes literal of %s" % (t,))
                return c, "Scopes"
            self.no(line, "struct literal %s" % sname)
        self.no(e[-1] if isinstance(e[-1], int) else 0, "expression %s" % k)

    def tr_mcall(self, e, env):
        recv, m, args, line = e[1], e[2], e[3], e[4]
        if m in ("clone", "cloned", "copied"):
            return self.tr(recv, env)
        # stack.iter().rev() = the list itself (innermost first)
        if m == "rev" and recv[0] == "mcall" and recv[2] == "iter":
            c, t = self.tr(recv[1], env)
            if isinstance(t, tuple) and t[0] == "stack":
                return c, ("list", t[1])
            if t == "Scopes":
                return c, ("list", "Scope")
            self.no(line, ".iter().rev() on %s" % (t,))
        c, t = self.tr(recv, env)
        if m == "into" and isinstance(t, tuple) and t[0] == "id":
            return "%s %s" % (ID_CTOR[t[1]], atom(c)), "SymbolId"
        if isinstance(t, tuple) and t[0] == "list" and m == "find_map" and len(args) == 1 and args[0][0] == "closure":
            cl = args[0]
            if len(cl[1]) != 1 or cl[1][0][0] != "pbind":
                self.no(line, "find_map closure")
            x = cl[1][0][1]
            env2 = dict(env)
            env2[x] = ("v_" + x, t[1])
            b, bt = self.tr(cl[2], env2)
            if not (isinstance(bt, tuple) and bt[0] == "opt"):
                self.no(line, "find_map closure of type %s" % (bt,))
            return "find_map (fun v_%s => %s) %s" % (x, b, atom(c)), bt
        if isinstance(t, tuple) and t[0] == "hmap" and m == "get" and len(args) == 1:
            a, ta = self.tr(args[0], env)
            if ta != "name":
                self.no(line, "HashMap::get(%s)" % (ta,))
            return "alookup %s %s" % (atom(a), atom(c)), ("opt", ("id", t[1]))
        owner = {"Scope": "Scope", "Scopes": "Scopes", "Ctx": "IndexCtx"}.get(t)
        if owner and (owner, m) in self.sigs:
            coq, kind, params, ret = self.sigs[(owner, m)]
            if kind != "pure" or len(params) != len(args):
                self.no(line, "call of %s in a pure context" % coq)
            cs = [atom(c)]
            for a, (pn, pt) in zip(args, params):
                ca, ta = self.tr(a, env)
                if ta != pt:
                    self.no(line, "%s: argument %s of type %s, expected %s" % (coq, pn, ta, pt))
                cs.append(atom(ca))
            return "%s %s" % (coq, " ".join(cs)), ret
        # ---- the symbol map as abstracted by Scope.v (table)
        if t == "SM":
            if m == "record" and len(args) == 1:
                a, ta = self.tr(args[0], env)
                if ta != ("id", "RecordId"):
                    self.no(line, "record(%s)" % (ta,))
                return a, ("recordH", c)
            if m == "multiclass" and len(args) == 1:
                a, ta = self.tr(args[0], env)
                if ta != ("id", "MulticlassId"):
                    self.no(line, "multiclass(%s)" % (ta,))
                return a, ("mcH", c)
            if m in ("find_def", "find_defset", "find_class", "find_multiclass") and len(args) == 1:
                a, ta = self.tr(args[0], env)
                if ta != "name":
                    self.no(line, "%s(%s)" % (m, ta))
                idt = {"find_def": "RecordId", "find_class": "RecordId", "find_defset": "DefsetId", "find_multiclass": "MulticlassId"}[m]
                return "%s %s %s" % (m, atom(c), atom(a)), ("opt", ("id", idt))
        if isinstance(t, tuple) and t[0] == "recordH":
            if m == "find_field" and len(args) == 2:
                s2, ts = self.tr(args[0], env)
                a, ta = self.tr(args[1], env)
                if ts != "SM" or ta != "name":
                    self.no(line, "find_field(%s, %s)" % (ts, ta))
                return "find_field (rec_fuel %s) (s_recs %s) %s %s" % (atom(s2), atom(s2), atom(c), atom(a)), ("opt", ("id", "RecordFieldId"))
            if m == "find_template_arg" and len(args) == 1:
                a, ta = self.tr(args[0], env)
                if ta != "name":
                    self.no(line, "find_template_arg(%s)" % (ta,))
                return ("match nthN (s_recs %s) %s with Some r => alookup %s (rc_targs r) | None => None end"
                        % (atom(t[1]), atom(c), atom(a))), ("opt", ("id", "TemplateArgumentId"))
        if isinstance(t, tuple) and t[0] == "mcH" and m == "find_template_arg" and len(args) == 1:
            a, ta = self.tr(args[0], env)
            if ta != "name":
                self.no(line, "find_template_arg(%s)" % (ta,))
            return ("match nthN (s_mcs %s) %s with Some m => alookup %s (mc_targs m) | None => None end"
                    % (atom(t[1]), atom(c), atom(a))), ("opt", ("id", "TemplateArgumentId"))
        self.no(line, "method .%s on %s" % (m, t))

    def variant_pat(self, pat, line):
        """ScopeKind::X(a, b) -> (ctor, [(name, type)])"""
        if pat[0] != "pvariant" or len(pat[1]) != 2 or pat[1][0] != "ScopeKind":
            self.no(line, "pattern")
        for v, vargs, ctor in SCOPE_KIND:
            if v == pat[1][1] and len(vargs) == len(pat[2]):
                names = []
                for q, want in zip(pat[2], vargs):
                    while q[0] in ("pref", "pmut"):
                        q = q[1]
                    if q[0] != "pbind":
                        self.no(line, "sub-pattern")
                    names.append((q[1], rust_ty(want)))
                return ctor, names
        self.no(line, "unknown ScopeKind variant")

    def tr_match(self, e, env):
        scrut, arms, line = e[1], e[2], e[3]
        c, t = self.tr(scrut, env)
        if t != "ScopeKind":
            self.no(line, "match on %s" % (t,))
        texts, ty = [], None
        for pat, body in arms:
            if body[1] or body[2] is None:
                self.no(line, "match arm with statements")
            if pat[0] == "pwild":
                b, bt = self.tr(body[2], env)
                texts.append("| _ => %s" % b)
            else:
                ctor, names = self.variant_pat(pat, line)
                env2 = dict(env)
                for n, nt in names:
                    env2[n] = ("v_" + n, nt)
                b, bt = self.tr(body[2], env2)
                texts.append("| %s => %s" % (" ".join([ctor] + ["v_" + n for n, _ in names]), b))
            if not (isinstance(bt, tuple) and bt[0] == "opt" and bt[1] is None):
                ty = bt
        return "match %s with %s end" % (c, " ".join(texts)), ty

    # ---- bodies in the "early return of an Option" style: every path ends in `return Some(..)` / a tail value
    def opt_seq(self, stmts, i, tail, env, rest):
        """value of stmts[i:] followed by tail; `rest` = text of what follows this block (None: this is the fn body)"""
        if i == len(stmts):
            if tail is not None:
                if rest is not None:
                    self.no(0, "nested block with a value")
                c, t = self.tr(tail, env)
                self.ret_ty = t if not (isinstance(t, tuple) and t[0] == "opt" and t[1] is None) else getattr(self, "ret_ty", t)
                return c
            if rest is None:
                self.no(0, "fn body without a value")
            return rest
        s = stmts[i]
        k = s[0]
        line = s[-1] if isinstance(s[-1], int) else 0

        def after(env2=env):
            return self.opt_seq(stmts, i + 1, tail, env2, rest)
        if k == "return":
            if i != len(stmts) - 1 or s[1] is None:
                self.no(line, "return")
            c, t = self.tr(s[1], env)
            if not (isinstance(t, tuple) and t[0] == "opt" and t[1] is None):
                self.ret_ty = t
            return c
        if k == "let":
            pat, ty, e, els = s[1], s[2], s[3], s[4]
            if els is not None or pat[0] != "pbind":
                self.no(line, "let form")
            c, t = self.tr(e, env)
            env2 = dict(env)
            if isinstance(t, tuple) and t[0] in ("recordH", "mcH"):
                env2[pat[1]] = (c, t)                # a handle: no Coq binding needed
                return after(env2)
            env2[pat[1]] = ("v_" + pat[1], t)
            return "let v_%s := %s in %s" % (pat[1], c, after(env2))
        if k == "ifstmt":
            e = s[1]
            if e[0] == "iflet":
                pat, ex, a, b = e[1], e[2], e[3], e[4]
                if b is not None or a[2] is not None:
                    self.no(line, "if let with else / value")
                c, t = self.tr(ex, env)
                inner = pat
                if pat[0] == "psome":
                    if not (isinstance(t, tuple) and t[0] == "opt"):
                        self.no(line, "if let Some(..) on %s" % (t,))
                    q = pat[1]
                    while q[0] in ("pref", "pmut"):
                        q = q[1]
                    if q[0] != "pbind":
                        self.no(line, "if let pattern")
                    env2 = dict(env)
                    env2[q[1]] = ("v_" + q[1], t[1])
                    return "match %s with Some v_%s => %s | None => %s end" % (
                        c, q[1], self.opt_seq(a[1], 0, None, env2, after()), after())
                if t == "ScopeKind":
                    ctor, names = self.variant_pat(pat, line)
                    env2 = dict(env)
                    for n, nt in names:
                        env2[n] = ("v_" + n, nt)
                    return "match %s with %s => %s | _ => %s end" % (
                        c, " ".join([ctor] + ["v_" + n for n, _ in names]), self.opt_seq(a[1], 0, None, env2, after()), after())
                self.no(line, "if let on %s" % (t,))
            c, t = self.tr(e[1], env)
            if t != "bool" or e[3] is not None or e[2][2] is not None:
                self.no(line, "if form")
            return "if %s then %s else %s" % (c, self.opt_seq(e[2][1], 0, None, env, after()), after())
        if k == "for":
            pat, it, body = s[1], s[2], s[3]
            c, t = self.tr(it, env)
            if not (isinstance(t, tuple) and t[0] == "list") or pat[0] != "pbind" or body[2] is not None:
                self.no(line, "for form")
            env2 = dict(env)
            env2[pat[1]] = ("v_" + pat[1], t[1])
            b = self.opt_seq(body[1], 0, None, env2, "None")
            fm = "find_map (fun v_%s => %s) %s" % (pat[1], b, atom(c))
            # `for .. { .. return Some(v) .. } None`: exactly find_map
            if i == len(stmts) - 1 and rest is None and tail is not None and tail[0] == "path" and tail[1] == ["None"]:
                return fm
            return "match %s with Some v => Some v | None => %s end" % (fm, after())
        self.no(line, "statement %s in an Option-returning body" % k)

    # ---- monadic bodies (M over Scope.st)
    def mentions(self, x, name):
        if isinstance(x, tuple):
            if x and x[0] == "path" and x[1] == [name]:
                return True
            return any(self.mentions(y, name) for y in x)
        if isinstance(x, list):
            return any(self.mentions(y, name) for y in x)
        return False

    def stack_of(self, e, env, line):
        """self.<stack field> -> (getter, setter)"""
        if e[0] == "field" and e[1][0] == "path" and e[1][1] == ["self"]:
            owner = env["self"][1]
            if owner == "Scopes" and e[2] == "scopes":
                return "s_scopes", "set_scopes", "Scope"
            if owner == "Ctx" and e[2] == "file_trace":
                return "s_trace", "set_trace", "FileId"
        self.no(line, "not a stack field of self")

    def m_call(self, e, env, line):
        """a call of a rendered M fn / a symbol-map mutator -> (M term, result type) or None"""
        if e[0] != "mcall":
            return None
        recv, m, args = e[1], e[2], e[3]
        if recv[0] == "path" and recv[1] == ["self"]:
            owner = {"Scopes": "Scopes", "Ctx": "IndexCtx"}[env["self"][1]]
            if (owner, m) in self.sigs and self.sigs[(owner, m)][1] == "M":
                coq, kind, params, ret = self.sigs[(owner, m)]
                cs = []
                for a, (pn, pt) in zip(args, params):
                    c, t = self.tr(a, env)
                    if t != pt:
                        self.no(line, "%s: argument %s of type %s" % (coq, pn, t))
                    cs.append(atom(c))
                return ("%s %s" % (coq, " ".join(cs))).strip(), ret
        if recv[0] == "field" and recv[1][0] == "path" and recv[1][1] == ["self"] and recv[2] == "scopes" and env["self"][1] == "Ctx":
            if ("Scopes", m) in self.sigs and self.sigs[("Scopes", m)][1] == "M":
                coq, kind, params, ret = self.sigs[("Scopes", m)]
                cs = []
                for a, (pn, pt) in zip(args, params):
                    c, t = self.tr(a, env)
                    if t != pt:
                        self.no(line, "%s: argument %s of type %s" % (coq, pn, t))
                    cs.append(atom(c))
                return ("%s %s" % (coq, " ".join(cs))).strip(), ret
        if recv[0] == "path" and len(recv[1]) == 1 and env.get(recv[1][0], (None, None))[1] == "SMmut":
            if m == "add_variable" and len(args) == 1:
                c, t = self.tr(args[0], env)
                if t != "Variable":
                    self.no(line, "add_variable(%s)" % (t,))
                return "add_leaf %s" % atom(c), ("id", "VariableId")
        return None

    def m_seq(self, stmts, i, tail, env, indent="  "):
        if i == len(stmts):
            if tail is None:
                return indent + "ret tt"
            line = tail[-1] if isinstance(tail[-1], int) else 0
            # *self.<stack>.last().expect("..")
            t2 = tail
            if t2[0] == "un" and t2[1] == "*":
                t2 = t2[2]
            if t2[0] == "mcall" and t2[2] == "expect" and t2[1][0] == "mcall" and t2[1][2] in ("last", "pop") and not t2[1][3]:
                g, st_, _ = self.stack_of(t2[1][1], env, line)
                self.ret_ty = {"s_scopes": "Scope", "s_trace": "FileId"}[g]
                return indent + ("top_m %s" % g if t2[1][2] == "last" else "pop_m %s %s" % (g, st_))
            mc = self.m_call(tail, env, line)
            if mc:
                self.ret_ty = mc[1]
                return indent + mc[0]
            if tail[0] == "macro" and tail[1] == ["eco_format"] and len(tail[2]) == 1 and tail[2][0][0] == "str":
                mm = re.fullmatch(r"anonymous_\{(\w+)\}", tail[2][0][1])
                if mm and mm.group(1) in env and env[mm.group(1)][1] == "u32":
                    self.ret_ty = "name"
                    return indent + "ret (anon_name %s)" % env[mm.group(1)][0]
                self.no(line, "eco_format! other than the anonymous def name")
            if self.mentions(tail, "self"):
                self.no(line, "tail expression that reads self")
            c, t = self.tr(tail, env)
            self.ret_ty = t
            return indent + "ret %s" % atom(c)
        s = stmts[i]
        k = s[0]
        line = s[-1] if isinstance(s[-1], int) else 0
        rest = lambda env2=env: self.m_seq(stmts, i + 1, tail, env2, indent)
        if k == "expr" and s[1][0] == "mcall":
            e = s[1]
            recv, m, args = e[1], e[2], e[3]
            if m == "push" and len(args) == 1 and recv[0] == "field":
                if recv[1][0] == "path" and recv[1][1] == ["self"] and recv[2] == "diagnostics" and env["self"][1] == "Ctx":
                    a = args[0]
                    ok = (a[0] == "call" and a[1][0] == "path" and a[1][1] == ["Diagnostic", "new"] and len(a[2]) == 2
                          and a[2][0][0] == "call" and a[2][0][1][1] == ["FileRange", "new"] and len(a[2][0][2]) == 2)
                    if not ok:
                        self.no(line, "diagnostics.push(..) is expected to be Diagnostic::new(FileRange::new(file, range), message)")
                    cf, tf = self.tr(a[2][0][2][0], env)
                    cr, trr = self.tr(a[2][0][2][1], env)
                    cm, tm = self.tr(a[2][1], env)
                    if (tf, trr, tm) != ("FileId", "rng", "dkind"):
                        self.no(line, "Diagnostic of (%s, %s, %s)" % (tf, trr, tm))
                    return "%supd (fun s => set_diags ((mkR %s (r_lo %s) (r_hi %s), %s) :: s_diags s) s) ;;\n%s" % (
                        indent, atom(cf), atom(cr), atom(cr), atom(cm), rest())
                g, st_, elt = self.stack_of(recv, env, line)
                c, t = self.tr(args[0], env)
                if t != elt:
                    self.no(line, "push of %s onto a stack of %s" % (t, elt))
                return "%supd (fun s => %s (%s :: %s s) s) ;;\n%s" % (indent, st_, c, g, rest())
            if m == "expect" and recv[0] == "mcall" and recv[2] == "pop" and not recv[3]:
                g, st_, _ = self.stack_of(recv[1], env, line)
                return "%s_ <- pop_m %s %s ;;\n%s" % (indent, g, st_, rest())
            self.no(line, "expression statement")
        if k == "assign":
            op, lhs, rhs = s[1], s[2], s[3]
            if op == "+=" and lhs[0] == "field" and lhs[1][0] == "path" and lhs[1][1] == ["self"] and lhs[2] == "anonymous_def_index" \
                    and rhs[:2] == ("num", 1) and env["self"][1] == "Ctx":
                return "%supd (fun s => set_anon (s_anon s + 1) s) ;;\n%s" % (indent, rest())
            self.no(line, "assignment")
        if k == "let":
            pat, ty, e, els = s[1], s[2], s[3], s[4]
            if els is not None or pat[0] != "pbind":
                self.no(line, "let form")
            x = pat[1]
            env2 = dict(env)
            mc = self.m_call(e, env, line)
            if mc:
                env2[x] = ("v_" + x, mc[1])
                return "%sv_%s <- %s ;;\n%s" % (indent, x, mc[0], rest(env2))
            if e[0] == "field" and e[1][0] == "path" and e[1][1] == ["self"] and e[2] == "anonymous_def_index" and env["self"][1] == "Ctx":
                env2[x] = ("v_" + x, "u32")
                return "%sv_%s <- get s_anon ;;\n%s" % (indent, x, rest(env2))
            if e[0] == "mcall" and e[2] == "expect" and e[1][0] == "mcall" and e[1][2] in ("last", "last_mut") and not e[1][3]:
                g, st_, elt = self.stack_of(e[1][1], env, line)
                if e[1][2] == "last":
                    env2[x] = ("v_" + x, elt)
                    return "%sv_%s <- top_m %s ;;\n%s" % (indent, x, g, rest(env2))
                # a mutable borrow of the innermost element: the statements that follow must all be updates of it
                if elt != "Scope" or tail is not None:
                    self.no(line, "last_mut() borrow")
                body = "v_" + x
                for s2 in stmts[i + 1:]:
                    ok = (s2[0] == "expr" and s2[1][0] == "mcall" and s2[1][2] == "insert" and len(s2[1][3]) == 2
                          and s2[1][1][0] == "field" and s2[1][1][1][0] == "path" and s2[1][1][1][1] == [x]
                          and s2[1][1][2] == "name_to_variable")
                    if not ok:
                        self.no(line, "statement after a last_mut() borrow that is not <borrow>.name_to_variable.insert(..)")
                    cn, tn = self.tr(s2[1][3][0], env)
                    ci, ti = self.tr(s2[1][3][1], env)
                    if tn != "name" or ti != ("id", "VariableId"):
                        self.no(line, "insert(%s, %s)" % (tn, ti))
                    body = "mkScope (sc_kind %s) ((%s, %s) :: sc_vars %s)" % (atom(body), cn, ci, atom(body))
                return "%stop_mut_m %s %s (fun v_%s => %s)" % (indent, g, st_, x, body)
            if self.mentions(e, "self"):
                self.no(line, "let of an expression that reads self")
            c, t = self.tr(e, env)
            env2[x] = ("v_" + x, t)
            return "%slet v_%s := %s in\n%s" % (indent, x, c, rest(env2))
        self.no(line, "statement %s in a monadic body" % k)

    # ---- one fn
    def has_expect(self, x):
        if isinstance(x, tuple):
            if x and x[0] == "mcall" and x[2] == "expect":
                return True
            return any(self.has_expect(y) for y in x)
        if isinstance(x, list):
            return any(self.has_expect(y) for y in x)
        return False

    def classify(self, owner, fn):
        selfk = dict(fn["params"]).get("self")
        if owner == "Scope" and selfk == "&mut Self":
            return "upd"                      # scope -> scope
        if selfk == "&mut Self" or self.has_expect(fn["body"]) or any(pt.startswith("&mut ") for _, pt in fn["params"]):
            return "M"
        if selfk == "&Self" and owner in ("Scopes", "IndexCtx"):
            for callee in sm.method_calls(fn):
                if (owner, callee) in self.sigs and self.sigs[(owner, callee)][1] == "M":
                    return "M"
                if owner == "IndexCtx" and ("Scopes", callee) in self.sigs and self.sigs[("Scopes", callee)][1] == "M":
                    return "M"
        return "pure"

    def emit_ctx_new(self, fn):
        """IndexCtx::new(db, root_file): the initial state.  The fields of the struct literal are placed by name (table: the
        database is the Section's db_files and not part of the state; the symbol map is its ten components in Scope.st;
        s_bad is the ghost panic flag)"""
        line = fn["line"]
        b = fn["body"]
        ps = fn["params"]
        if len(ps) != 2 or ps[0][1] != CTX_STRUCT[0][1] or ps[1][1] != "FileId" or fn["ret"] != "Self" or b[1] or b[2] is None \
                or b[2][0] != "struct" or b[2][1] != ["Self"]:
            self.no(line, "IndexCtx::new is expected to be `Self { .. }` over (db, root file)")
        dbn, rf = ps[0][0], ps[1][0]
        fields = dict(b[2][2])
        if len(fields) != len(b[2][2]) or sorted(fields) != sorted(f for f, _ in CTX_STRUCT):
            self.no(line, "IndexCtx::new: field set differs from struct IndexCtx")
        env = {rf: ("v_" + rf, "FileId")}

        def ids(xs):
            cs = []
            for x in xs:
                c, t = self.tr(x, env)
                if t != "FileId":
                    self.no(line, "file id expected, found %s" % (t,))
                cs.append(c)
            return cs
        e = fields["db"]
        if e != ("path", [dbn], e[2]):
            self.no(line, "IndexCtx::new: db")
        e = fields["file_trace"]
        if e[0] != "macro" or e[1] != ["vec"]:
            self.no(line, "IndexCtx::new: file_trace is expected to be vec![..]")
        trace = "[%s]" % "; ".join(reversed(ids(e[2])))            # a Vec used as a stack: innermost first
        e = fields["indexed_files"]
        if e[0] == "call" and e[1][0] == "path" and e[1][1] == ["HashSet", "from"] and len(e[2]) == 1 and e[2][0][0] == "array":
            indexed = "[%s]" % "; ".join(ids(e[2][0][1]))
        elif e[0] == "call" and e[1][0] == "path" and e[1][1] == ["HashSet", "new"] and not e[2]:
            indexed = "[]"
        else:
            self.no(line, "IndexCtx::new: indexed_files")
        e = fields["symbol_map"]
        if not (e[0] == "call" and e[1][0] == "path" and e[1][1] == ["SymbolMap", "default"] and not e[2]):
            self.no(line, "IndexCtx::new: symbol_map is expected to be SymbolMap::default()")
        if not self.symbol_map_derives_default:
            self.no(line, "SymbolMap::default() is not the derived one")
        e = fields["diagnostics"]
        if not (e[0] == "call" and e[1][0] == "path" and e[1][1] == ["Vec", "new"] and not e[2]):
            self.no(line, "IndexCtx::new: diagnostics is expected to be Vec::new()")
        e = fields["scopes"]
        if not (e[0] == "call" and e[1][0] == "path" and e[1][1] == ["Scopes", "default"] and not e[2]) or ("Scopes", "default") not in self.sigs:
            self.no(line, "IndexCtx::new: scopes is expected to be Scopes::default()")
        e = fields["anonymous_def_index"]
        if e[0] != "num":
            self.no(line, "IndexCtx::new: anonymous_def_index")
        self.sigs[("IndexCtx", "new")] = ("src_IndexCtx_new", "pure", [(rf, "FileId")], "Ctx")
        return ("Definition src_IndexCtx_new (v_%s : N) : st :=\n  mkSt %s %s [] [] [] [] [] [] [] [] [] [] [] %s %d false.\n"
                % (rf, trace, indexed, self.sigs[("Scopes", "default")][0], e[1]))

    def emit_ctx_finish(self, fn):
        """IndexCtx::finish(self) -> Index { symbol_map, diagnostics }: the symbol-map components and the diagnostics of the state"""
        line = fn["line"]
        b = fn["body"]
        if fn["params"] != [("self", "Self")] or fn["ret"] != "Index" or b[1] or b[2] is None or b[2][0] != "struct" or b[2][1] != ["Index"]:
            self.no(line, "IndexCtx::finish is expected to be `Index { .. }`")
        fields = dict(b[2][2])
        if sorted(fields) != ["diagnostics", "symbol_map"] or len(b[2][2]) != 2:
            self.no(line, "IndexCtx::finish: field set of Index")
        for f in ("symbol_map", "diagnostics"):
            e = fields[f]
            if e != ("field", ("path", ["self"], e[1][2]), f, e[3]):
                self.no(line, "IndexCtx::finish: %s is expected to be self.%s" % (f, f))
        self.sigs[("IndexCtx", "finish")] = ("src_IndexCtx_finish", "pure", [], "Index")
        sm = "(s_recs s, s_mcs s, s_leaves s, s_nclass s, s_ndef s, s_nmc s, s_ndset s, s_pos s, s_refs s, s_uses s)"
        return ("Definition src_IndexCtx_finish (s : st) :=\n  (%s, s_diags s).\n" % sm)

    def emit(self, owner, fn):
        self.owner = owner
        if owner == "IndexCtx" and fn["name"] == "new":
            return self.emit_ctx_new(fn)
        if owner == "IndexCtx" and fn["name"] == "finish":
            return self.emit_ctx_finish(fn)
        kind = self.classify(owner, fn)
        coq = "src_%s_%s" % (owner, fn["name"])
        env, cparams, params = {}, [], []
        selfty = {"Scope": "Scope", "Scopes": "Scopes", "IndexCtx": "Ctx"}[owner]
        for pn, pt in fn["params"]:
            if pn == "self":
                if kind == "M":
                    env["self"] = ("s", selfty)
                else:
                    env["self"] = ("v_self", selfty)
                    cparams.append("(v_self : %s)" % coq_ty(selfty))
                continue
            if pt.startswith("&mut "):
                if pt[5:] != "SymbolMap":
                    self.no(fn["line"], "`&mut` parameter of type %s" % pt[5:])
                env[pn] = ("s", "SMmut")           # the symbol map is part of the state
                continue
            t = rust_ty(pt)
            if t == "Self":
                t = selfty
            env[pn] = ("v_" + pn, t)
            params.append((pn, t))
            cparams.append("(v_%s : %s)" % (pn, coq_ty(t)))
        body = fn["body"]
        self.ret_ty = None
        if kind == "upd":
            # &mut self methods of Scope: a sequence of name_to_variable.insert(..)
            cur = "v_self"
            for s in body[1]:
                ok = (s[0] == "expr" and s[1][0] == "mcall" and s[1][2] == "insert" and s[1][1][0] == "field"
                      and s[1][1][1][0] == "path" and s[1][1][1][1] == ["self"] and s[1][1][2] == "name_to_variable" and len(s[1][3]) == 2)
                if not ok:
                    self.no(fn["line"], "statement of a `&mut self` method of Scope")
                cn, tn = self.tr(s[1][3][0], env)
                ci, ti = self.tr(s[1][3][1], env)
                if tn != "name" or ti != ("id", "VariableId"):
                    self.no(fn["line"], "insert(%s, %s)" % (tn, ti))
                cur = "mkScope (sc_kind %s) ((%s, %s) :: sc_vars %s)" % (atom(cur), cn, ci, atom(cur))
            if body[2] is not None:
                self.no(fn["line"], "value of a `&mut self` method of Scope")
            text = "Definition %s %s : scope :=\n  %s.\n" % (coq, " ".join(cparams), cur)
            self.sigs[(owner, fn["name"])] = (coq, "upd", params, "Scope")
            return text
        if kind == "pure":
            val = self.opt_seq(body[1], 0, body[2], env, None)
            rt = rust_ty(fn["ret"]) if fn["ret"] else "unit"
            if rt == "Self":
                rt = selfty
            text = "Definition %s %s : %s :=\n  %s.\n" % (coq, " ".join(cparams), coq_ty(rt), val)
            self.sigs[(owner, fn["name"])] = (coq, "pure", params, rt)
            return text
        val = self.m_seq(body[1], 0, body[2], env)
        rt = rust_ty(fn["ret"]) if fn["ret"] else "unit"
        text = "Definition %s %s : M %s :=\n%s.\n" % (coq, " ".join(cparams), coq_ty(rt), val)
        self.sigs[(owner, fn["name"])] = (coq, "M", params, rt)
        return text



# ----------------------------------------------------------------------------- index.rs: `impl Indexable for ast::X`
# The typed AST as CoreAst (trusted table, see the notes; checked against AstToCore.v / coreast.rs by hand):
# node type -> (parameters of the rendering = fields of the CoreAst constructor, accessor -> (expression, type)).
# A mandatory child is `Some <field>` (the bridge refuses a tree where it is missing: the workspace is "noncore").
NODES = {
    "Identifier": ([("n_i", "ident")], {"value": ("Some (i_name n_i)", ("opt", "name")), "range": ("Some (i_rng n_i)", ("opt", "rng"))}),
    "SourceFile": ([("n_stmts", "list stmt")], {"statement_list": ("Some n_stmts", ("opt", "StatementList"))}),
    "StatementList": ([("n_stmts", "list stmt")], {"statements": ("n_stmts", ("list", "Statement"))}),
    "Assert": ([("n_c", "value"), ("n_m", "value")], {"condition": ("Some n_c", ("opt", "Value")), "message": ("Some n_m", ("opt", "Value"))}),
    "Class": ([("n_i", "ident"), ("n_targs", "option (list targ)"), ("n_ps", "list classref"), ("n_b", "list item")],
              {"name": ("Some n_i", ("opt", "Identifier")), "template_arg_list": ("n_targs", ("opt", "TemplateArgList")),
               "record_body": ("Some (n_ps, n_b)", ("opt", "RecordBody"))}),
    "Defset": ([("n_t", "ty"), ("n_i", "ident"), ("n_b", "list stmt")],
               {"name": ("Some n_i", ("opt", "Identifier")), "type": ("Some n_t", ("opt", "Type")),
                "statement_list": ("Some n_b", ("opt", "StatementList"))}),
    "Defvar": ([("n_i", "ident"), ("n_v", "value")], {"name": ("Some n_i", ("opt", "Identifier")), "value": ("Some n_v", ("opt", "Value"))}),
    "Dump": ([("n_v", "value")], {"value": ("Some n_v", ("opt", "Value"))}),
    "Foreach": ([("n_i", "ident"), ("n_init", "feinit"), ("n_b", "list stmt")],
                {"iterator": ("Some (n_i, n_init)", ("opt", "ForeachIterator")), "body": ("Some n_b", ("opt", "StatementList"))}),
    "ForeachIterator": ([("n_i", "ident"), ("n_init", "feinit")],
                        {"name": ("Some n_i", ("opt", "Identifier")), "init": ("Some n_init", ("opt", "ForeachIteratorInit"))}),
    "If": ([("n_c", "value"), ("n_th", "list stmt"), ("n_el", "option (list stmt)")],
           {"condition": ("Some n_c", ("opt", "Value")), "then_body": ("Some n_th", ("opt", "StatementList")),
            "else_body": ("n_el", ("opt", "StatementList"))}),
    "Let": ([("n_vs", "list value"), ("n_b", "list stmt")],
            {"let_list": ("Some n_vs", ("opt", "LetList")), "statement_list": ("Some n_b", ("opt", "StatementList"))}),
    "LetList": ([("n_vs", "list value")], {"items": ("n_vs", ("list", "LetItem"))}),
    "LetItem": ([("n_v", "value")], {"value": ("Some n_v", ("opt", "Value"))}),
    "MultiClass": ([("n_i", "ident"), ("n_targs", "option (list targ)"), ("n_ps", "list classref"), ("n_b", "list stmt")],
                   {"name": ("Some n_i", ("opt", "Identifier")), "template_arg_list": ("n_targs", ("opt", "TemplateArgList")),
                    "parent_class_list": ("Some n_ps", ("opt", "ParentClassList")), "statement_list": ("Some n_b", ("opt", "StatementList"))}),
    "TemplateArgList": ([("n_l", "list targ")], {"args": ("n_l", ("list", "TemplateArgDecl"))}),
    "RecordBody": ([("n_ps", "list classref"), ("n_b", "list item")],
                   {"parent_class_list": ("Some n_ps", ("opt", "ParentClassList")), "body": ("Some n_b", ("opt", "Body"))}),
    "Body": ([("n_b", "list item")], {"items": ("n_b", ("list", "BodyItem"))}),
}
FREE_FNS = {"check_template_args": ("list leaf -> list (option argv) -> rng -> M unit", ["leaves", "avs", "rng"], "unit"),
            "index_name_value": ("value -> M (name * rng)", [("node", "Value")], ("tuple", ["name", "rng"])),
            "resolve_class_ref_as_class": ("classref -> M N", [("node", "ClassRef")], "RecordId"),
            "resolve_class_ref_as_multiclass": ("classref -> M N", [("node", "ClassRef")], "MulticlassId")}
NODES.update({
    "BitsValue": ([], {"value_list": ("Some v_bvs", ("opt", "ValueList"))}),
    "ListValue": ([], {"value_list": ("Some v_lvs", ("opt", "ValueList"))}),
    "ValueList": ([], {"values": ("%s", ("list", "Value"))}),
    "DagArgList": ([], {}),
    "DagValue": ([], {"arg_list": ("Some (snd (dag_split v_dvs))", ("opt", "DagArgList"))}),
    "CondOperator": ([], {"clauses": ("cond_split v_cvs", ("list", "CondClause"))}),
    "CondClause": ([], {"condition": ("fst %s", ("opt", "Value")), "value": ("snd %s", ("opt", "Value"))}),
    "SliceSuffix": ([], {"is_single_element": ("v_single", "bool")}),
    "FieldSuffix": ([], {"name": ("Some v_fi", ("opt", "Identifier"))}),
    "Def": ([("n_nm", "option value"), ("n_r", "rng"), ("n_ps", "list classref"), ("n_b", "list item")],
            {"name": ("n_nm", ("opt", "Value")), "record_body": ("Some (n_ps, n_b)", ("opt", "RecordBody"))}),
    "Defm": ([("n_nm", "option value"), ("n_r", "rng"), ("n_ps", "list classref")],
             {"name": ("n_nm", ("opt", "Value")), "parent_class_list": ("Some n_ps", ("opt", "ParentClassList"))}),
    "PositionalArgValue": ([], {"value": ("Some v_pv", ("opt", "Value"))}),
    "NamedArgValue": ([], {"value": ("Some v_nv", ("opt", "Value"))}),
    "ArgValueList": ([("n_args", "list arg")], {"arg_values": ("n_args", ("list", "ArgValue"))}),
    "ClassRef": ([("n_i", "ident"), ("n_args", "list arg"), ("n_r", "rng")],
                 {"name": ("Some n_i", ("opt", "Identifier")), "arg_value_list": ("Some n_args", ("opt", "ArgValueList"))}),
    "ParentClassList": ([("n_ps", "list classref")], {"classes": ("n_ps", ("list", "ClassRef"))}),
    "Value": ([("n_v", "value")], {"inner_values": ("value_inners %s", ("list", "InnerValue"))}),
    "InnerValue": ([("n_x", "inner")], {"simple_value": ("Some (inner_simple %s)", ("opt", "SimpleValueName")),
                                        "suffixes": ("inner_sufs %s", ("list", "ValueSuffix"))}),
    "BitsType": ([], {"length": ("Some %s", ("opt", "Integer"))}),          # %s = the bound variable (the CoreAst field itself)
    "ListType": ([], {"inner_type": ("Some %s", ("opt", "Type"))}),
    "ClassId": ([], {"name": ("Some %s", ("opt", "Identifier"))}),
    "FieldDef": ([("n_t", "ty"), ("n_i", "ident"), ("n_v", "option value")],
                 {"name": ("Some n_i", ("opt", "Identifier")), "type": ("Some n_t", ("opt", "Type")), "value": ("n_v", ("opt", "Value"))}),
    "FieldLet": ([("n_i", "ident"), ("n_v", "value")], {"name": ("Some n_i", ("opt", "Identifier")), "value": ("Some n_v", ("opt", "Value"))}),
    "TemplateArgDecl": ([("n_t", "ty"), ("n_i", "ident"), ("n_d", "option value")],
                        {"name": ("Some n_i", ("opt", "Identifier")), "type": ("Some n_t", ("opt", "Type")), "value": ("n_d", ("opt", "Value"))}),
    "Integer": ([("n_n", "N")], {"value": ("Some n_n", ("opt", "i64"))}),
})
# how a value of a node type is passed to an `ix_` function / what its Coq type is
NODE_COQ = {"Identifier": "ident", "StatementList": "list stmt", "Statement": "stmt", "Value": "value", "Type": "ty",
            "TemplateArgList": "list targ", "TemplateArgDecl": "targ", "RecordBody": "(list classref * list item)",
            "ParentClassList": "list classref", "Body": "list item", "BodyItem": "item", "LetList": "list value",
            "LetItem": "value", "ForeachIterator": "(ident * feinit)", "ForeachIteratorInit": "feinit", "Integer": "N",
            "ArgValue": "arg", "ArgValueList": "list arg", "ClassRef": "classref", "InnerValue": "inner", "SimpleValue": "simple",
            "ValueSuffix": "suffix", "BangOperator": "(bop * option (ty * rng) * list value * rng)"}
IX_RET = {"StatementList": "unit", "Statement": "unit", "Value": "mty", "Type": "mty", "TemplateArgList": "unit",
          "TemplateArgDecl": "unit", "RecordBody": "unit", "ParentClassList": "unit", "Body": "unit", "BodyItem": "unit",
          "LetList": "unit", "LetItem": "unit", "ForeachIterator": "(name * N)", "ForeachIteratorInit": "mty", "Integer": "N",
          "ArgValue": "argv", "ArgValueList": "(list (option argv))", "InnerValue": "mty", "SimpleValue": "mty", "BangOperator": "mty"}
IX_TY = {"BangOperator": "mty", "InnerValue": "mty", "SimpleValue": "mty", "ArgValue": "argv", "ArgValueList": "avs", "Value": "mty", "Type": "mty", "ForeachIteratorInit": "mty", "Integer": "i64", "ForeachIterator": "(name * N)"}
# enum nodes: variant -> (CoreAst constructor pattern, bound node type or None, how the rendering of that impl is called)
ENUM_NODES = {
    "Statement": ("stmt", [("Include", "SInclude r t", ("Include", "r t")), ("Assert", "SAssert c m", ("Assert", "c m")),
                           ("Class", "SClass i ta ps b", ("Class", "i ta ps b")), ("Def", "SDef nm r ps b", ("Def", "nm r ps b")),
                           ("Defm", "SDefm nm r ps", ("Defm", "nm r ps")), ("Defset", "SDefset t i b", ("Defset", "t i b")),
                           ("Defvar", "SDefvar i v", ("Defvar", "i v")), ("Dump", "SDump v", ("Dump", "v")),
                           ("Foreach", "SForeach i init b", ("Foreach", "i init b")), ("If", "SIf c th el", ("If", "c th el")),
                           ("Let", "SLet vs b", ("Let", "vs b")), ("MultiClass", "SMulticlass i ta ps b", ("MultiClass", "i ta ps b"))]),
}
ENUM_NODES["BodyItem"] = ("item", [("FieldDef", "IField t i v", ("FieldDef", "t i v")), ("FieldLet", "ILet i v", ("FieldLet", "i v")),
                                  ("Assert", "IAssert c m", ("Assert", "c m")), ("Defvar", "IDefvar i v", ("Defvar", "i v")),
                                  ("Dump", "IDump v", ("Dump", "v"))])
# enum nodes matched for a value: Rust variant -> (CoreAst pattern, [(bound name, node type)])
VALUE_ENUMS = {"Type": {"BitType": ("TyBit", None), "IntType": ("TyInt", None), "StringType": ("TyString", None),
                        "CodeType": ("TyCode", None), "DagType": ("TyDag", None), "BitsType": ("TyBits", "BitsType"),
                        "ListType": ("TyList", "ListType"), "ClassId": ("TyClass", "ClassId")},
               "SimpleValueName": {"Identifier": ("SId", "Identifier")},
               "SimpleValue": {"Integer": ("SInt", None), "String": ("SString", None), "Code": ("SCode", None), "Boolean": ("SBool", None),
                               "Uninitialized": ("SUninit", None), "Bits": ("SBits v_bvs", "BitsValue"), "List": ("SList v_lvs", "ListValue"),
                               "Dag": ("SDag v_dvs", "DagValue"), "Identifier": ("SId", "Identifier"),
                               "ClassValue": ("SClassVal n_i n_args n_r", "ClassRef"),
                               "BangOperator": ("SBang v_op v_annot v_ovs v_or", "BangOperator"), "CondOperator": ("SCond v_cvs", "CondOperator")},
               "ValueSuffix": {"RangeSuffix": ("SufRange", None), "SliceSuffix": ("SufSlice v_single", "SliceSuffix"),
                               "FieldSuffix": ("SufField v_fi v_fr", "FieldSuffix")},
               "ForeachIteratorInit": {"RangeList": ("FeRange", None), "RangePiece": ("FeRange", None), "Value": ("FeValue", "Value")}}
MESSAGES = [("include file not found", "DIncludeNotFound"), ("class not found", "DClassNotFound"),
            ("multiclass not found", "DMulticlassNotFound"), ("symbol not found", "DSymbolNotFound"),
            ("class cannot inherit from itself", "DSelfInherit"), ("too many arguments", "DTooManyArgs"),
            ("we can only specify the template argument", "DArgOnce"), ("argument '", "DArgNotExist"),
            ("value specified for template argument", "DArgType"), ("value not specified for template argument", "DArgMissing"),
            ("the name of named argument", "DNamedArgBad"), ("field '", "DFieldIncompat"), ("cannot access field", "DCannotAccessField")]


TYPE_CONSTS = {"Unknown": "MUnknown", "Int": "MInt", "Bit": "MBit", "String": "MString", "Code": "MCode", "Dag": "MDag",
               "Uninitialized": "MUninit", "Any": "MAny"}
ID_SYM = {"RecordId": "SyRecord", "MulticlassId": "SyMc", "VariableId": "SyLeaf", "DefsetId": "SyLeaf", "DefmId": "SyLeaf",
          "RecordFieldId": "SyLeaf", "TemplateArgumentId": "SyLeaf"}


class IxGen:
    """renders one `impl Indexable for ast::X` (or free fn of index.rs) in the monad M, with the indexing of child
    nodes left to the parameters ix_<NodeType> (open recursion)"""

    def __init__(self):
        self.used = []
        self.sv, self.sv_used = None, False

    def no(self, line, msg):
        raise Refuse("%s:%d: %s" % (INDEX, line or 0, msg))

    def ix(self, node):
        if node == "SimpleValueName":
            node = "SimpleValue"
        if node not in IX_RET:
            self.no(0, "no index function for node type %s" % node)
        if node not in self.used:
            self.used.append(node)
        return "ix_" + node

    # pure expressions over bound variables; returns (code, type); type ("node", T) | ("opt", t) | ("list", t) | "mty" ...
    def tr(self, e, env):
        k = e[0]
        if k == "paren":
            return self.tr(e[1], env)
        if k == "un" and e[1] in ("&", "*", "&mut"):
            return self.tr(e[2], env)
        if k == "path":
            path, line = e[1], e[2]
            if len(path) == 1:
                if path[0] == "None":
                    return "None", ("opt", None)
                if path[0] not in env:
                    self.no(line, "unknown name %s" % path[0])
                return env[path[0]]
            if len(path) == 2 and path[0] == "Type" and path[1] in TYPE_CONSTS:
                return TYPE_CONSTS[path[1]], "mty"
            if len(path) == 2 and path[0] == "ScopeKind" and path[1] == "Block":
                return "KBlock", "skind"
            self.no(line, "path %s" % "::".join(path))
        if k == "call":
            f, args, line = e[1], e[2], e[3]
            name = "::".join(f[1]) if f[0] == "path" else "?"
            if name == "Some" and len(args) == 1:
                c, t = self.tr(args[0], env)
                return "Some %s" % atom(c), ("opt", t)
            if f[0] == "path" and len(f[1]) == 2 and f[1][0] == "ScopeKind":
                tab = {"Record": ("KRecord", ["RecordId"]), "Defset": ("KDefset", ["DefsetId"]), "Multiclass": ("KMulticlass", ["MulticlassId"]),
                       "Defm": ("KDefm", ["DefmId"]), "Foreach": ("KForeach", ["name", "VariableId"])}
                if f[1][1] in tab and len(args) == len(tab[f[1][1]][1]):
                    cs = []
                    for a, want in zip(args, tab[f[1][1]][1]):
                        c, t = self.tr(a, env)
                        if t != want:
                            self.no(line, "%s(%s)" % (name, t))
                        cs.append(atom(c))
                    return "%s %s" % (tab[f[1][1]][0], " ".join(cs)), "skind"
            if name == "Type::Bits" and len(args) == 1:
                c, t = self.tr(args[0], env)
                if t == "nat":
                    return "MBits (N.of_nat %s)" % atom(c), "mty"
                if t not in ("usize", "i64"):
                    self.no(line, "Type::Bits(%s)" % (t,))
                return "MBits %s" % atom(c), "mty"
            if name == "Type::List" and len(args) == 1 and args[0][0] == "call" and args[0][1][0] == "path" \
                    and args[0][1][1] == ["Box", "new"] and len(args[0][2]) == 1:
                c, t = self.tr(args[0][2][0], env)
                if t != "mty":
                    self.no(line, "Type::List(%s)" % (t,))
                return "MList %s" % atom(c), "mty"
            if name == "Type::Record" and len(args) == 2:
                a, ta = self.tr(args[0], env)
                b, tb = self.tr(args[1], env)
                if (ta, tb) != ("RecordId", "name"):
                    self.no(line, "Type::Record(%s, %s)" % (ta, tb))
                return "MRecord %s %s" % (atom(a), atom(b)), "mty"
            ctors = {"Record::new": ("RecordV", ["name", "RecordKind", "rng"]), "Multiclass::new": ("McV", ["name", "rng"]),
                     "Defset::new": ("leaf:LDefset", ["name", "mty", "rng"]), "Defm::new": ("leaf:LDefm", ["name", "rng"]), "Variable::new": ("leaf:LVar", ["name", "mty", "VariableKind", "rng"]),
                     "TemplateArgument::new": ("leaf:LTArg", ["name", "mty", "bool", "rng"]),
                     "RecordField::new": ("leaf:LField", ["name", "mty", "RecordId", "rng"])}
            if name in ctors:
                kind, want = ctors[name]
                if len(args) != len(want):
                    self.no(line, "%s arity" % name)
                cs = []
                for a, w in zip(args, want):
                    if w in ("RecordKind", "VariableKind"):
                        if a[0] != "path" or a[1][0] != w:
                            self.no(line, "%s: kind argument" % name)
                        cs.append(a[1][1])
                        continue
                    c, t = self.tr(a, env)
                    if t != w:
                        self.no(line, "%s: argument of type %s, expected %s" % (name, t, w))
                    cs.append(atom(c))
                if kind == "RecordV":
                    return "", ("RecordV", cs[0], "true" if cs[1] == "Class" else "false", cs[2])
                if kind == "McV":
                    return "", ("McV", cs[0], cs[1])
                lk = kind.split(":")[1]
                if lk == "LVar":
                    return "mkLeaf LVar %s %s false %s" % (cs[0], cs[1], cs[3]), "leaf"
                if lk == "LTArg":
                    return "mkLeaf LTArg %s %s %s %s" % (cs[0], cs[1], cs[2], cs[3]), "leaf"
                if lk == "LField":
                    return "mkLeaf LField %s %s false %s" % (cs[0], cs[1], cs[3]), "leaf"
                if lk == "LDefm":
                    return "mkLeaf LDefm %s MUnknown false %s" % (cs[0], cs[1]), "leaf"
                return "mkLeaf LDefset %s %s false %s" % (cs[0], cs[1], cs[2]), "leaf"
            self.no(line, "call of %s" % name)
        if k == "str":
            return "[%s]" % "; ".join(str(ord(ch)) for ch in e[1]), "strlit"
        if k == "tuple":
            cs = [self.tr(x, env) for x in e[1]]
            return "(" + ", ".join(c for c, _ in cs) + ")", ("tuple", [t for _, t in cs])
        if k == "un" and e[1] == "!":
            c, t = self.tr(e[2], env)
            if t != "bool":
                self.no(e[3], "`!` on %s" % (t,))
            return "negb %s" % atom(c), "bool"
        if k == "bin" and e[1] == "==":
            a, ta = self.tr(e[2], env)
            b, tb = self.tr(e[3], env)
            if ta == tb and ta in ID_SYM:
                return "%s =? %s" % (atom(a), atom(b)), "bool"
            if ta == tb == "mty":
                return "mty_eqb %s %s" % (atom(a), atom(b)), "bool"
            if ta == "name" and tb == "strlit":
                return "name_eqb %s %s" % (atom(a), b), "bool"
            if ta == tb == "name":
                return "name_eqb %s %s" % (atom(a), atom(b)), "bool"
            self.no(e[4], "== on %s / %s" % (ta, tb))
        if k == "bin" and e[1] == ">":
            a, ta = self.tr(e[2], env)
            b, tb = self.tr(e[3], env)
            if ta == tb == "nat":
                return "Nat.ltb %s %s" % (atom(b), atom(a)), "bool"
            self.no(e[4], "> on %s / %s" % (ta, tb))
        if k == "field":
            c, t = self.tr(e[1], env)
            if t == "leafV" and e[2] == "typ":
                return "lf_ty %s" % atom(c), "mty"
            if t == "rng" and e[2] == "range":
                return c, "rng"                     # FileRange.range: the same range (the file is re-attached by ctx.error)
            if t == "leaf" and e[2] in ("name", "typ", "has_default_value"):
                return {"name": ("lf_name %s" % atom(c), "name"), "typ": ("lf_ty %s" % atom(c), "mty"),
                        "has_default_value": ("lf_default %s" % atom(c), "bool")}[e[2]]
            self.no(e[3], "field .%s of %s" % (e[2], t))
        if k == "mcall":
            recv, m, args, line = e[1], e[2], e[3], e[4]
            if m in ("clone", "cloned"):
                return self.tr(recv, env)
            if m == "resolve_id" and len(args) == 1 and recv[0] == "path" and recv[1] == ["ctx"]:
                a, ta = self.tr(args[0], env)
                if ta != "name":
                    self.no(line, "resolve_id(%s)" % (ta,))
                return "resolve_id %s %s" % (self.state_var(), atom(a)), ("opt", "SymbolId")
            # dag.operator().and_then(|it| it.value()) : the value of the operator, if any
            if m == "and_then" and recv[0] == "mcall" and recv[2] == "operator" and len(args) == 1 and args[0][0] == "closure":
                c0, t0 = self.tr(recv[1], env)
                cl = args[0]
                ok = (t0 == ("node", "DagValue") and len(cl[1]) == 1 and cl[1][0][0] == "pbind" and cl[2][0] == "mcall" and cl[2][2] == "value"
                      and cl[2][1] == ("path", [cl[1][0][1]], cl[2][1][2]) and not cl[2][3])
                if not ok:
                    self.no(line, "dag operator idiom")
                return "fst (dag_split v_dvs)", ("opt", ("node", "Value"))
            # arg_list.args().filter_map(|it| it.value()) : the values of the dag arguments
            if m == "filter_map" and recv[0] == "mcall" and recv[2] == "args" and len(args) == 1 and args[0][0] == "closure":
                c0, t0 = self.tr(recv[1], env)
                cl = args[0]
                ok = (t0 == ("node", "DagArgList") and len(cl[1]) == 1 and cl[1][0][0] == "pbind" and cl[2][0] == "mcall" and cl[2][2] == "value"
                      and cl[2][1] == ("path", [cl[1][0][1]], cl[2][1][2]) and not cl[2][3])
                if not ok:
                    self.no(line, "dag argument idiom")
                return c0, ("list", ("node", "Value"))
            if m in ("into_iter", "iter") and not args:
                c0, t0 = self.tr(recv, env)
                if m == "iter" and not (isinstance(t0, tuple) and t0[0] == "list"):
                    self.no(line, "iter() on %s" % (t0,))
                return c0, t0
            if m == "len" and not args:
                c0, t0 = self.tr(recv, env)
                if not (isinstance(t0, tuple) and t0[0] == "list"):
                    self.no(line, "len() on %s" % (t0,))
                return "length %s" % atom(c0), "nat"
            if m == "get" and len(args) == 1:
                c0, t0 = self.tr(recv, env)
                a, ta = self.tr(args[0], env)
                if not (isinstance(t0, tuple) and t0[0] == "list") or ta != "nat":
                    self.no(line, "get(%s) on %s" % (ta, t0))
                return "nth_error %s %s" % (atom(c0), atom(a)), ("opt", t0[1])
            if m == "find" and len(args) == 1 and args[0][0] == "closure" and len(args[0][1]) == 1 and args[0][1][0][0] == "pbind":
                c0, t0 = self.tr(recv, env)
                if not (isinstance(t0, tuple) and t0[0] == "list"):
                    self.no(line, "find on %s" % (t0,))
                x = args[0][1][0][1]
                env2 = dict(env)
                env2[x] = ("v_" + x, t0[1])
                b, bt = self.tr(args[0][2], env2)
                if bt != "bool":
                    self.no(line, "find with a closure of type %s" % (bt,))
                return "find (fun v_%s => %s) %s" % (x, b, atom(c0)), ("opt", t0[1])
            # xs.iter().map(|x| e).collect() into a HashSet: the list of the elements (see the notes: names are unique)
            if m == "collect" and not args and recv[0] == "mcall" and recv[2] == "map" and len(recv[3]) == 1 and recv[3][0][0] == "closure" \
                    and len(recv[3][0][1]) == 1 and recv[3][0][1][0][0] == "pbind":
                c0, t0 = self.tr(recv[1], env)
                if not (isinstance(t0, tuple) and t0[0] == "list"):
                    self.no(line, "map(..).collect() on %s" % (t0,))
                x = recv[3][0][1][0][1]
                env2 = dict(env)
                env2[x] = ("v_" + x, t0[1])
                b, bt = self.tr(recv[3][0][2], env2)
                return "map (fun v_%s => %s) %s" % (x, b, atom(c0)), ("list", bt)
            if m == "map" and len(args) == 1 and args[0][0] == "closure":
                c0, t0 = self.tr(recv, env)
                cl = args[0]
                if isinstance(t0, tuple) and t0[0] == "opt" and len(cl[1]) == 1 and cl[1][0][0] == "pbind":
                    env2 = dict(env)
                    env2[cl[1][0][1]] = ("v_" + cl[1][0][1], t0[1])
                    b, bt = self.tr(cl[2], env2)
                    return "option_map (fun v_%s => %s) %s" % (cl[1][0][1], b, atom(c0)), ("opt", bt)
                self.no(line, "map on %s" % (t0,))
            if m == "or" and len(args) == 1:
                c0, t0 = self.tr(recv, env)
                d, dt = self.tr(args[0], env)
                if not (isinstance(t0, tuple) and t0[0] == "opt") or dt != t0:
                    self.no(line, "or(%s) on %s" % (dt, t0))
                return "match %s with Some x => Some x | None => %s end" % (c0, d), t0
            if m == "ok" and not args and recv[0] == "mcall" and recv[2] == "try_into" and not recv[3]:
                c, t = self.tr(recv[1], env)
                if t != "i64":
                    self.no(line, "try_into() of %s" % (t,))
                return "Some %s" % atom(c), ("opt", "usize")      # the CoreAst carries the width as a natural number
            # reads of the context (need the current state: see tr_st)
            if recv[0] == "field" and recv[1][0] == "path" and recv[1][1] == ["ctx"]:
                S = self.state_var()
                if recv[2] == "scopes" and m in ("current_record_id", "current_multiclass_id", "current_defm_id", "current_defset_id") and not args:
                    idt = {"current_record_id": "RecordId", "current_multiclass_id": "MulticlassId", "current_defm_id": "DefmId",
                           "current_defset_id": "DefsetId"}[m]
                    return "%s %s" % (m, S), ("opt", idt)
                if recv[2] == "symbol_map":
                    if m in ("find_class", "find_def", "find_multiclass", "find_defset") and len(args) == 1:
                        a, ta = self.tr(args[0], env)
                        if ta != "name":
                            self.no(line, "%s(%s)" % (m, ta))
                        idt = {"find_class": "RecordId", "find_def": "RecordId", "find_multiclass": "MulticlassId", "find_defset": "DefsetId"}[m]
                        return "%s %s %s" % (m, S, atom(a)), ("opt", idt)
                    if m == "record" and len(args) == 1:
                        a, ta = self.tr(args[0], env)
                        if ta != "RecordId":
                            self.no(line, "record(%s)" % (ta,))
                        return a, ("recH",)
                    if m == "record_field" and len(args) == 1:
                        a, ta = self.tr(args[0], env)
                        if ta != "RecordFieldId":
                            self.no(line, "record_field(%s)" % (ta,))
                        return a, ("leafH",)
                    if m == "multiclass" and len(args) == 1:
                        a, ta = self.tr(args[0], env)
                        if ta != "MulticlassId":
                            self.no(line, "multiclass(%s)" % (ta,))
                        return a, ("mcH",)
                    if m in ("record_mut", "multiclass_mut", "defm_mut", "defset_mut") and len(args) == 1:
                        a, ta = self.tr(args[0], env)
                        if ta != {"record_mut": "RecordId", "multiclass_mut": "MulticlassId", "defm_mut": "DefmId", "defset_mut": "DefsetId"}[m]:
                            self.no(line, "%s(%s)" % (m, ta))
                        return a, ("mutH", m)
            # [a, b].into_iter().flatten()
            if m == "flatten" and recv[0] == "mcall" and recv[2] == "into_iter" and recv[1][0] == "array":
                cs = [self.tr(x, env) for x in recv[1][1]]
                ts = {repr(t) for _, t in cs}
                if len(ts) != 1 or not (isinstance(cs[0][1], tuple) and cs[0][1][0] == "opt"):
                    self.no(line, "flatten of %s" % (ts,))
                return "opt_flatten [%s]" % "; ".join(c for c, _ in cs), ("list", cs[0][1][1])
            c, t = self.tr(recv, env)
            if isinstance(t, tuple) and t[0] == "node":
                T = t[1]
                if T in NODES and m in NODES[T][1] and not args:
                    ex, rt = NODES[T][1][m]
                    if "%s" in ex:                       # a sub-node that is represented by the CoreAst field itself
                        return ex % atom(c), self.node_ty(rt)
                    # the accessor expression is written over the parameters of the impl whose self it is
                    if c != "self":
                        self.no(line, "accessor .%s() on a node that is not `self`" % m)
                    return ex, self.node_ty(rt)
                if T == "Value" and m == "syntax" and not args:
                    return c, ("syntax", "Value")
                if T == "FieldSuffix" and m == "syntax" and not args:
                    return "v_fr", ("syntax", "range")
                if T in ("Include", "Def", "Defm") and m == "syntax" and not args:
                    return "n_r", ("syntax", "range")
                if T in ("PositionalArgValue", "NamedArgValue") and m == "syntax" and not args:
                    return "v_ar", ("syntax", "range")
                if T == "ClassRef" and m == "syntax" and not args:
                    return ("n_r" if c == "self" else "classref_rng %s" % atom(c)), ("syntax", "range")
                if T == "Type" and False:
                    pass
            if isinstance(t, tuple) and t[0] == "syntax" and m == "text_range" and not args:
                return (c if t[1] == "range" else "value_rng %s" % atom(c)), "rng"
            if isinstance(t, tuple) and t[0] == "recH" and m == "find_field" and len(args) == 2:
                sm_arg = args[0]
                while sm_arg[0] == "un":
                    sm_arg = sm_arg[2]
                if not (sm_arg[0] == "field" and sm_arg[1][0] == "path" and sm_arg[1][1] == ["ctx"] and sm_arg[2] == "symbol_map"):
                    self.no(line, "find_field on a symbol map that is not ctx.symbol_map")
                a, ta = self.tr(args[1], env)
                if ta != "name":
                    self.no(line, "find_field(.., %s)" % (ta,))
                S = self.state_var()
                return "find_field (rec_fuel %s) (s_recs %s) %s %s" % (S, S, atom(c), atom(a)), ("opt", "RecordFieldId")
            if t == "mty" and m == "can_be_casted_to" and len(args) == 2:
                b, tb = self.tr(args[1], env)
                if tb != "mty":
                    self.no(line, "can_be_casted_to(.., %s)" % (tb,))
                S = self.state_var()
                return "can_cast %s %s %s" % (S, atom(c), atom(b)), "bool"
            if isinstance(t, tuple) and t[0] == "list" and m == "count" and not args:
                return "length %s" % atom(c), "nat"
            if t == "mty" and m == "element_typ" and not args:
                return "element_typ %s" % atom(c), ("opt", "mty")
            if t == "mty" and m == "find_field" and len(args) == 2:
                b, tb = self.tr(args[1], env)
                if tb != "name":
                    self.no(line, "find_field(.., %s)" % (tb,))
                S = self.state_var()
                return "ty_find_field %s %s %s" % (S, atom(c), atom(b)), ("opt", "RecordFieldId")
            if isinstance(t, tuple) and t[0] == "list" and m == "next" and not args:
                return "hd_error %s" % atom(c), ("opt", t[1])
            if isinstance(t, tuple) and t[0] == "opt" and m == "is_some" and not args:
                return "match %s with Some _ => true | None => false end" % c, "bool"
            self.no(line, "method .%s on %s" % (m, t))
        if k == "array":
            self.no(0, "array expression")
        self.no(e[-1] if isinstance(e[-1], int) else 0, "expression %s" % k)

    def state_var(self):
        """the variable that holds the current state while an expression that reads the context is translated"""
        if self.sv is None:
            self.no(0, "expression that reads the context in a position where no state is available")
        self.sv_used = True
        return self.sv

    def tr_st(self, e, env):
        """(prefix `sK <- state ;; ` if the expression reads the context, code, type)"""
        self.svn = getattr(self, "svn", 0) + 1
        old = (getattr(self, "sv", None), getattr(self, "sv_used", False))
        self.sv, self.sv_used = "s%d" % self.svn, False
        try:
            c, t = self.tr(e, env)
            pre = "%s <- state ;; " % self.sv if self.sv_used else ""
        finally:
            self.sv, self.sv_used = old
        return pre, c, t

    def node_ty(self, rt):
        if isinstance(rt, tuple) and rt[0] in ("opt", "list"):
            inner = rt[1]
            if inner in NODE_COQ or inner in NODES or inner in VALUE_ENUMS or inner in ENUM_NODES:
                return (rt[0], ("node", inner))
            return rt
        return rt

    def message_kind(self, e, line):
        txt = None
        if e[0] == "str":
            txt = e[1]
        elif e[0] == "macro" and e[1] == ["format"] and e[2] and e[2][0][0] == "str":
            txt = e[2][0][1]
        if txt is None:
            self.no(line, "diagnostic message that is not a literal / format!")
        for prefix, kind in MESSAGES:
            if txt.startswith(prefix):
                return kind
        self.no(line, "diagnostic message %r has no class in the table" % txt[:40])

    # an expression evaluated for its effect / value in M: returns (M term, value type)
    def m_expr(self, e, env):
        line = e[-1] if isinstance(e[-1], int) else 0
        if e[0] == "mcall":
            recv, m, args = e[1], e[2], e[3]
            if m == "index" and len(args) == 1 and args[0][0] == "path" and args[0][1] == ["ctx"]:
                pre, c, t = self.opt_chain(recv, env)
                if not (isinstance(t, tuple) and t[0] == "node"):
                    self.no(line, ".index(ctx) on %s" % (t,))
                call = "%s %s" % (self.ix(t[1]), atom(c))
                return pre, call, IX_TY.get("SimpleValue" if t[1] == "SimpleValueName" else t[1], "unit")
            if m == "unwrap_or" and len(args) == 1:
                pre, inner, it = self.m_expr(recv, env)
                d, dt = self.tr(args[0], env)
                if dt != it:
                    self.no(line, "unwrap_or(%s) on %s" % (dt, it))
                return pre, "o <- try_ (%s) ;; ret (match o with Some x => x | None => %s end)" % (inner, d), it
            if m == "and_then" and len(args) == 1 and args[0][0] == "closure":
                pre, inner, it = self.m_expr(recv, env)
                cl = args[0]
                if len(cl[1]) == 1 and cl[1][0][0] == "pbind" and cl[2][0] == "mcall" and cl[2][2] == "element_typ" \
                        and cl[2][1] == ("path", [cl[1][0][1]], cl[2][1][2]) and it == "mty":
                    return pre, "t <- %s ;; lift (element_typ t)" % inner, "mty"
                self.no(line, "and_then closure")
            # ctx.*
            if recv[0] == "path" and recv[1] == ["ctx"]:
                if m == "current_file_id" and not args:
                    return "", "get current_file", "FileId"
                if m == "next_anonymous_def_name" and not args:
                    return "", "next_anonymous ;; ret (anon_name 0)", "name"
                if m == "error" and len(args) == 2:
                    r, rt = self.tr(args[0], env)
                    if rt != "rng":
                        self.no(line, "ctx.error(%s, ..)" % (rt,))
                    return "", "err %s %s" % (atom(r), self.message_kind(args[1], line)), "unit"
            if recv[0] == "field" and recv[1][0] == "path" and recv[1][1] == ["ctx"]:
                if recv[2] == "scopes":
                    if m == "push" and len(args) == 1:
                        c, t = self.tr(args[0], env)
                        if t != "skind":
                            self.no(line, "scopes.push(%s)" % (t,))
                        return "", "push_scope %s" % atom(c), "unit"
                    if m == "pop" and not args:
                        return "", "pop_scope", "unit"
                    if m == "add_variable" and len(args) == 2:
                        c, t = self.tr(args[1], env)
                        if t != "leaf":
                            self.no(line, "scopes.add_variable(.., %s)" % (t,))
                        return "", "scopes_add_variable %s" % atom(c), "unit"
                if recv[2] == "symbol_map":
                    if m == "add_record" and len(args) == 2:
                        c, t = self.tr(args[0], env)
                        if not (isinstance(t, tuple) and t[0] == "RecordV"):
                            self.no(line, "add_record(%s)" % (t,))
                        return "", "add_record %s %s %s" % (t[1], t[2], t[3]), "RecordId"
                    if m == "add_multiclass" and len(args) == 1:
                        c, t = self.tr(args[0], env)
                        if not (isinstance(t, tuple) and t[0] == "McV"):
                            self.no(line, "add_multiclass(%s)" % (t,))
                        return "", "add_multiclass %s %s" % (t[1], t[2]), "MulticlassId"
                    if m in ("add_variable", "add_template_argument", "add_record_field") and len(args) == 1:
                        c, t = self.tr(args[0], env)
                        if t != "leaf":
                            self.no(line, "%s(%s)" % (m, t))
                        return "", "add_leaf %s" % atom(c), {"add_variable": "VariableId", "add_template_argument": "TemplateArgumentId",
                                                         "add_record_field": "RecordFieldId"}[m]
                    if m == "add_defm" and len(args) == 2:          # the `is_global` flag feeds the outline only
                        c, t = self.tr(args[0], env)
                        if t != "leaf":
                            self.no(line, "add_defm(%s)" % (t,))
                        return "", "add_leaf %s" % atom(c), "DefmId"
                    if m == "add_anonymous_defm" and len(args) == 1:
                        c, t = self.tr(args[0], env)
                        if t != "leaf":
                            self.no(line, "add_anonymous_defm(%s)" % (t,))
                        return "", "add_leaf_nopos %s" % atom(c), "DefmId"
                    if m == "add_anonymous_def" and len(args) == 1:
                        c, t = self.tr(args[0], env)
                        if not (isinstance(t, tuple) and t[0] == "RecordV" and t[2] == "false"):
                            self.no(line, "add_anonymous_def(%s)" % (t,))
                        return "", "add_anonymous_def %s %s" % (t[1], t[3]), "RecordId"
                    if m == "add_defset" and len(args) == 1:
                        c, t = self.tr(args[0], env)
                        if t != "leaf":
                            self.no(line, "add_defset(%s)" % (t,))
                        return "", "add_defset %s" % atom(c), "DefsetId"
        if e[0] == "call" and e[1][0] == "path" and len(e[1][1]) == 1 and e[1][1][0] in FREE_FNS:
            fname = e[1][1][0]
            cty, want, ret = FREE_FNS[fname]
            args = [a for a in e[2] if not (a[0] == "path" and a[1] == ["ctx"])]
            if len(args) != len(want):
                self.no(line, "%s: arity" % fname)
            cs = []
            for a, w in zip(args, want):
                c, t = self.tr(a, env)
                if t != w:
                    self.no(line, "%s: argument of type %s, expected %s" % (fname, t, w))
                cs.append(atom(c))
            if ("fn:" + fname) not in self.used:
                self.used.append("fn:" + fname)
            return "", "ix_%s %s" % (fname, " ".join(cs)), ret
        if e[0] == "call" and e[1][0] == "path" and e[1][1] == ["FileRange", "new"] and len(e[2]) == 2:
            a0 = e[2][0]
            if not (a0[0] == "mcall" and a0[1] == ("path", ["ctx"], a0[1][2]) and a0[2] == "current_file_id"):
                self.no(line, "FileRange::new whose file is not ctx.current_file_id()")
            pre, c, t = self.opt_chain(e[2][1], env)
            if t != "rng":
                self.no(line, "FileRange::new(.., %s)" % (t,))
            return pre, "f <- get current_file ;; ret (mkR f (r_lo %s) (r_hi %s))" % (atom(c), atom(c)), "rng"
        if e[0] == "call" and e[1][0] == "path" and e[1][1] == ["utils", "identifier"] and len(e[2]) == 2:
            pre, c, t = self.opt_chain(e[2][0], env)
            if t != ("node", "Identifier"):
                self.no(line, "utils::identifier(%s)" % (t,))
            if c == "self":
                c = "n_i"
            return pre, "src_utils_identifier %s" % atom(c), ("tuple", ["name", "rng"])
        self.no(line, "expression with effects outside the subset")

    def opt_chain(self, e, env):
        """an expression that may end in `?` on Options: returns (prefix of binds, code, type)"""
        pre = ""
        if e[0] == "un" and e[1] in ("&", "*"):
            return self.opt_chain(e[2], env)
        if e[0] == "try":
            p2, c, t = self.opt_chain(e[1], env)
            if not (isinstance(t, tuple) and t[0] == "opt"):
                self.no(e[2], "`?` on %s" % (t,))
            v = "q%d" % (len(p2.split(";;")) + len(env))
            return p2 + "%s <- lift %s ;; " % (v, atom(c)), v, t[1]
        c, t = self.tr(e, env)
        return pre, c, t

    def hoist(self, e, env):
        """replace every `x?` (x a pure Option) inside e by a fresh variable bound with `q <- lift x ;;` (early return)"""
        if not isinstance(e, tuple):
            return "", e
        if e and e[0] == "try":
            pre, inner = self.hoist(e[1], env)
            p2, c, t = self.tr_st(inner, env)
            if not (isinstance(t, tuple) and t[0] == "opt"):
                self.no(e[2], "`?` on %s" % (t,))
            self.qn = getattr(self, "qn", 0) + 1
            q = "q%d" % self.qn
            env[q] = (q, t[1])
            return pre + p2 + "%s <- lift %s ;; " % (q, atom(c)), ("path", [q], e[2])
        if e and e[0] == "call" and e[1][0] == "path" and e[1][1] == ["FileRange", "new"] and len(e[2]) == 2:
            pre, m, t = self.m_expr(e, env)
            self.qn = getattr(self, "qn", 0) + 1
            q = "loc%d" % self.qn
            env[q] = (q, "rng")
            return pre + "%s <- (%s) ;; " % (q, m), ("path", [q], e[3])
        if e and e[0] == "field" and e[2] == "typ" and e[1][0] == "path" and len(e[1][1]) == 1 and e[1][1][0] in env \
                and env[e[1][1][0]][1] == ("leafH",):
            self.qn = getattr(self, "qn", 0) + 1
            lf = "lf%d" % self.qn
            env[lf + "_ty"] = ("lf_ty %s" % lf, "mty")
            return "%s <- leaf_of %s ;; " % (lf, atom(env[e[1][1][0]][0])), ("path", [lf + "_ty"], e[3])
        if e and e[0] in ("closure", "block", "match", "if", "iflet"):
            return "", e
        pre, out = "", []
        for x in e:
            if isinstance(x, tuple):
                p2, x2 = self.hoist(x, env)
                pre += p2
                out.append(x2)
            elif isinstance(x, list):
                xs = []
                for y in x:
                    p2, y2 = self.hoist(y, env) if isinstance(y, tuple) else ("", y)
                    pre += p2
                    xs.append(y2)
                out.append(xs)
            else:
                out.append(x)
        return pre, tuple(out)

    def seq(self, stmts, i, tail, env, indent):
        env = dict(env)
        if i == len(stmts):
            if tail is None:
                self.no(0, "body without a tail")
            if tail[0] == "unit_tt":
                return indent + "ret tt"
            if tail[0] == "raw_m":
                return indent + tail[1]
            if tail[0] == "path" and tail[1] == ["None"]:
                return indent + "none"
            if tail[0] == "call" and tail[1][0] == "path" and tail[1][1] == ["Some"] and len(tail[2]) == 1:
                pre, x = self.hoist(tail[2][0], env)
                p2, c, t = self.tr_st(x, env)
                return indent + pre + p2 + "ret %s" % atom(c)
            if tail[0] == "if" and tail[3] is not None:
                pre, c, t = self.tr_st(tail[1], env)
                if t != "bool":
                    self.no(tail[4], "condition of type %s" % (t,))
                a, b = tail[2], tail[3]
                return "%s%sif %s then\n%s\n%selse\n%s" % (indent, pre, c, self.seq(a[1], 0, a[2], env, indent + "    "), indent,
                                                           self.seq(b[1], 0, b[2], env, indent + "    "))
            if tail[0] == "block":
                return self.seq(tail[1], 0, tail[2], env, indent)
            if tail[0] == "match" and any(p[0] == "pnum" for p, _ in tail[2]):
                pre, c, t = self.tr_st(tail[1], env)
                if t != "nat":
                    self.no(tail[3], "numeric match on %s" % (t,))
                texts = []
                for pat, body in tail[2]:
                    if pat[0] == "pnum" and pat[1] in (0, 1, 2):
                        head = ["O", "S O", "S (S O)"][pat[1]]
                    elif pat[0] == "pwild":
                        head = "_"
                    else:
                        self.no(tail[3], "numeric pattern")
                    texts.append("%s| %s =>\n%s" % (indent, head, self.seq(body[1], 0, body[2], env, indent + "    ")))
                return "%s%smatch %s with\n%s\n%send" % (indent, pre, c, "\n".join(texts), indent)
            if tail[0] == "match" and tail[2] and tail[2][0][0][0] == "pvariant" and tail[2][0][0][1][0] == "Type":
                c, t = self.tr(tail[1], env)
                if t != "mty":
                    self.no(tail[3], "Type match on %s" % (t,))
                texts = []
                for pat, body in tail[2]:
                    if pat[0] == "pvariant" and pat[1] == ["Type", "Bits"] and len(pat[2]) == 1 and pat[2][0][0] == "pwild":
                        head = "MBits _"
                    elif pat[0] == "pvariant" and len(pat[1]) == 2 and pat[1][0] == "Type" and pat[1][1] in TYPE_CONSTS and not pat[2]:
                        head = TYPE_CONSTS[pat[1][1]]
                    elif pat[0] == "pwild":
                        head = "_"
                    else:
                        self.no(tail[3], "Type pattern")
                    texts.append("%s| %s =>\n%s" % (indent, head, self.seq(body[1], 0, body[2], env, indent + "    ")))
                return "%smatch %s with\n%s\n%send" % (indent, c, "\n".join(texts), indent)
            if tail[0] == "match" and tail[1][0] == "mcall" and tail[1][2] == "symbol" and tail[1][1][0] == "field" \
                    and tail[1][1][2] == "symbol_map":
                return self.symbol_match(tail, env, indent)
            if tail[0] == "match":
                T = env["self"][1][1] if "self" in env and isinstance(env["self"][1], tuple) else None
                if tail[1][0] == "path" and tail[1][1] == ["self"] and T in VALUE_ENUMS:
                    return self.value_enum(tail, env, indent, T)
                if tail[1][0] == "path" and tail[1][1] == ["self"]:
                    return self.dispatch(tail, env, indent)
                pre0, sc = self.hoist(tail[1], env)
                try:
                    p2, c, t = self.tr_st(sc, env)
                except Refuse:
                    t = None
                if isinstance(t, tuple) and t[0] == "node" and t[1] in VALUE_ENUMS:
                    return indent + pre0 + "\n" + self.value_enum(("match", sc, tail[2], tail[3]), env, indent, t[1], scrut_code=c)
                return self.match_tail(tail, env, indent)
            try:
                pre0, t2 = self.hoist(tail, env)
                pre, m, t = self.m_expr(t2, env)
                self.last_tail_ty = t
                return indent + pre0 + pre + m
            except Refuse:
                pre0, x = self.hoist(tail, env)
                p2, c, t = self.tr_st(x, env)
                if isinstance(t, tuple) and t[0] == "opt":
                    return indent + pre0 + p2 + "lift %s" % atom(c)
                raise
        s = stmts[i]
        k = s[0]
        line = s[-1] if isinstance(s[-1], int) else 0
        rest = lambda env2=None: self.seq(stmts, i + 1, tail, env if env2 is None else env2, indent)
        if k == "expr":
            e = s[1]
            if e[0] == "macro":
                if e[1] == ["tracing", "debug"]:
                    return rest()
                if e[1] == ["panic"]:
                    return indent + "bad"
                self.no(line, "macro %s!" % "::".join(e[1]))
            # <borrow>.add_*(..)
            if e[0] == "mcall" and e[1][0] == "path" and len(e[1][1]) == 1 and e[1][1][0] in env \
                    and isinstance(env[e[1][1][0]][1], tuple) and env[e[1][1][0]][1][0] == "mutH":
                idc, (_, how) = env[e[1][1][0]]
                tab = {("record_mut", "add_record_field"): ("rec_add_field", ["name", "RecordFieldId"]),
                       ("record_mut", "add_template_arg"): ("rec_add_targ", ["name", "TemplateArgumentId"]),
                       ("record_mut", "add_parent"): ("rec_add_parent", ["RecordId"]),
                       ("multiclass_mut", "add_template_arg"): ("mc_add_targ", ["name", "TemplateArgumentId"]),
                       ("multiclass_mut", "add_parent"): ("mc_add_parent", ["MulticlassId"]),
                       ("defm_mut", "add_parent"): (None, ["MulticlassId"]),        # Defm::parent_list is not in the model
                       ("defset_mut", "add_def"): (None, ["RecordId"])}             # Defset::def_list (outline) is not in the model
                if (how, e[2]) not in tab or len(e[3]) != len(tab[(how, e[2])][1]):
                    self.no(line, "method .%s through a %s borrow" % (e[2], how))
                fn_, want = tab[(how, e[2])]
                cs = []
                for a, w in zip(e[3], want):
                    c, t = self.tr(a, env)
                    if t != w:
                        self.no(line, "%s: argument of type %s, expected %s" % (e[2], t, w))
                    cs.append(atom(c))
                if fn_ is None:
                    return "%s(ret tt) ;;\n%s" % (indent, rest())
                return "%s(%s %s (%s %s)) ;;\n%s" % (indent, how, atom(idc), fn_, " ".join(cs), rest())
            # ctx.symbol_map.add_reference(id, loc)
            if e[0] == "mcall" and e[2] == "add_reference" and len(e[3]) == 2 and e[1][0] == "field" and e[1][2] == "symbol_map":
                a, ta = self.tr(e[3][0], env)
                b, tb = self.tr(e[3][1], env)
                if (ta not in ID_SYM and ta != "SymbolId") or tb != "rng":
                    self.no(line, "add_reference(%s, %s)" % (ta, tb))
                sym = atom(a) if ta == "SymbolId" else "(%s %s)" % (ID_SYM[ta], atom(a))
                return "%s(add_reference %s %s) ;;\n%s" % (indent, sym, atom(b), rest())
            pre0, e2 = self.hoist(e, env)
            pre, m, t = self.m_expr(e2, env)
            return "%s%s%s(%s) ;;\n%s" % (indent, pre0, pre, m, rest())
        if k == "continue":
            if tail[0] != "unit_tt" or i != len(stmts) - 1:
                self.no(line, "`continue` outside a for body / not last")
            return indent + "ret tt"
        if k == "let":
            pat, ty, e, els = s[1], s[2], s[3], s[4]
            while pat[0] == "pmut":
                pat = pat[1]
            # let x = <mutable iterator variable>.next()?;   (advances the iterator)
            if els is None and pat[0] == "pbind" and e[0] == "try" and e[1][0] == "mcall" and e[1][2] == "next" and not e[1][3] \
                    and e[1][1][0] == "path" and len(e[1][1][1]) == 1 and e[1][1][1][0] in env \
                    and isinstance(env[e[1][1][1][0]][1], tuple) and env[e[1][1][1][0]][1][0] == "list":
                it = e[1][1][1][0]
                ic, itp = env[it]
                env[pat[1]] = ("v_" + pat[1], itp[1])
                return "%sv_%s <- lift (hd_error %s) ;;\n%slet %s := tl %s in\n%s" % (indent, pat[1], ic, indent, ic, ic, rest())
            # let o = x.index(ctx);   (no `?`: the Option is kept)
            if els is None and pat[0] == "pbind" and e[0] == "mcall" and e[2] == "index" and len(e[3]) == 1 and e[3][0][0] == "path" \
                    and e[3][0][1] == ["ctx"]:
                pre, m, t = self.m_expr(e, env)
                env[pat[1]] = ("v_" + pat[1], ("opt", t))
                return "%s%sv_%s <- try_ (%s) ;;\n%s" % (indent, pre, pat[1], m, rest())
            if els is not None:
                # let Some(x) = <Option read from the context> else { ..; return v; };
                if pat[0] != "psome" or pat[1][0] != "pbind" or els[2] is not None or not els[1] or els[1][-1][0] != "return":
                    self.no(line, "let-else form")
                pre, c, t = self.tr_st(e, env)
                if not (isinstance(t, tuple) and t[0] == "opt"):
                    self.no(line, "let-else on %s" % (t,))
                no_ = self.seq(els[1][:-1], 0, els[1][-1][1], env, indent + "    ")
                env[pat[1][1]] = ("v_" + pat[1][1], t[1])
                return "%s%smatch %s with\n%s| None =>\n%s\n%s| Some v_%s =>\n%s\n%send" % (
                    indent, pre, c, indent, no_, indent, pat[1][1], self.seq(stmts, i + 1, tail, env, indent + "    "), indent)
            q = e
            # <record / multiclass handle>.iter_template_arg().map(|id| ctx.symbol_map.template_arg(id)).cloned().collect()
            if q[0] == "mcall" and q[2] == "collect" and pat[0] == "pbind":
                chain, x = [], q
                while x[0] == "mcall":
                    chain.append(x[2])
                    x = x[1]
                if chain == ["collect", "cloned", "map", "iter_template_arg"] and x[0] == "path" and len(x[1]) == 1 and x[1][0] in env \
                        and env[x[1][0]][1] in (("recH",), ("mcH",)):
                    cl = q[1][1][3][0]
                    ok = (cl[0] == "closure" and len(cl[1]) == 1 and cl[1][0][0] == "pbind" and cl[2][0] == "mcall" and cl[2][2] == "template_arg"
                          and cl[2][1][0] == "field" and cl[2][1][2] == "symbol_map" and cl[2][3] == [("path", [cl[1][0][1]], cl[2][3][0][2])])
                    if not ok:
                        self.no(line, "template-argument collection closure")
                    self.qn = getattr(self, "qn", 0) + 1
                    rec = env[x[1][0]][1] == ("recH",)
                    sv, rc = "s_t%d" % self.qn, "rc%d" % self.qn
                    env[pat[1]] = ("v_" + pat[1], "leaves")
                    return "%s%s <- state ;; %s <- lift (nthN (%s %s) %s) ;;\n%slet v_%s := targ_leaves %s (%s %s) in\n%s" % (
                        indent, sv, rc, "s_recs" if rec else "s_mcs", sv, atom(env[x[1][0]][0]), indent, pat[1], sv,
                        "rc_targs" if rec else "mc_targs", rc, rest())
                # iter.filter_map(|x| x.index(ctx)).collect()   (eager: every element is indexed, the Some results are kept)
                if chain[:2] == ["collect", "filter_map"] and len(q[1][3]) == 1 and q[1][3][0][0] == "closure":
                    cl = q[1][3][0]
                    preh, src_it = self.hoist(q[1][1], env)
                    c, t = self.tr(src_it, env)
                    ok = (isinstance(t, tuple) and t[0] == "list" and isinstance(t[1], tuple) and t[1][0] == "node" and len(cl[1]) == 1
                          and cl[1][0][0] == "pbind" and cl[2][0] == "mcall" and cl[2][2] == "index"
                          and cl[2][1] == ("path", [cl[1][0][1]], cl[2][1][2]))
                    if not ok:
                        self.no(line, "filter_map(..).collect() form")
                    env[pat[1]] = ("v_" + pat[1], ("list", IX_TY.get(t[1][1], "unit")))
                    return "%s%sos <- mapM_opt (fun x => %s x) %s ;;\n%slet v_%s := opt_flatten os in\n%s" % (
                        indent, preh, self.ix(t[1][1]), atom(c), indent, pat[1], rest())
                # iter.map(|x| x.index(ctx)).collect()
                if chain[:2] == ["collect", "map"] and len(q[1][3]) == 1 and q[1][3][0][0] == "closure":
                    cl = q[1][3][0]
                    c, t = self.tr(q[1][1], env)
                    ok = (isinstance(t, tuple) and t[0] == "list" and isinstance(t[1], tuple) and t[1][0] == "node" and len(cl[1]) == 1
                          and cl[1][0][0] == "pbind" and cl[2][0] == "mcall" and cl[2][2] == "index"
                          and cl[2][1] == ("path", [cl[1][0][1]], cl[2][1][2]))
                    if not ok:
                        self.no(line, "map(..).collect() form")
                    env[pat[1]] = ("v_" + pat[1], "avs" if t[1][1] == "ArgValue" else ("list", ("opt", IX_TY.get(t[1][1], "unit"))))
                    return "%sv_%s <- mapM_opt (fun x => %s x) %s ;;\n%s" % (indent, pat[1], self.ix(t[1][1]), atom(c), rest())
            # opt.and_then(|it| it.index(ctx)).unwrap_or_default()
            if q[0] == "mcall" and q[2] == "unwrap_or_default" and q[1][0] == "mcall" and q[1][2] == "and_then" and pat[0] == "pbind":
                cl = q[1][3][0]
                c, t = self.tr(q[1][1], env)
                ok = (isinstance(t, tuple) and t[0] == "opt" and isinstance(t[1], tuple) and t[1][0] == "node" and cl[0] == "closure"
                      and len(cl[1]) == 1 and cl[1][0][0] == "pbind" and cl[2][0] == "mcall" and cl[2][2] == "index"
                      and cl[2][1] == ("path", [cl[1][0][1]], cl[2][1][2]))
                if not ok or IX_TY.get(t[1][1]) != "avs":
                    self.no(line, "and_then(..).unwrap_or_default() form")
                env[pat[1]] = ("v_" + pat[1], "avs")
                return "%so <- try_ (q <- lift %s ;; %s q) ;;\n%slet v_%s := match o with Some l => l | None => [] end in\n%s" % (
                    indent, atom(c), self.ix(t[1][1]), indent, pat[1], rest())
            while q[0] == "mcall" and q[2] == "clone" and not q[3]:
                q = q[1]
            # <leaf handle>.typ
            if q[0] == "field" and q[2] == "typ" and q[1][0] == "path" and len(q[1][1]) == 1 and q[1][1][0] in env \
                    and env[q[1][1][0]][1] == ("leafH",) and pat[0] == "pbind":
                self.qn = getattr(self, "qn", 0) + 1
                lf = "lf%d" % self.qn
                env[pat[1]] = ("v_" + pat[1], "mty")
                return "%s%s <- leaf_of %s ;;\n%slet v_%s := lf_ty %s in\n%s" % (indent, lf, atom(env[q[1][1][0]][0]), indent, pat[1], lf, rest())
            # <Option read from the context>.expect("..")
            if q[0] == "mcall" and q[2] == "expect" and pat[0] == "pbind":
                pre, c, t = self.tr_st(q[1], env)
                if not (isinstance(t, tuple) and t[0] == "opt"):
                    self.no(line, "expect on %s" % (t,))
                env[pat[1]] = ("v_" + pat[1], t[1])
                return "%s%smatch %s with\n%s| None => bad\n%s| Some v_%s =>\n%s\n%send" % (
                    indent, pre, c, indent, indent, pat[1], self.seq(stmts, i + 1, tail, env, indent + "    "), indent)
            # a value that only feeds the outline (file_to_symbol_list / Defset::def_list), which Scope.v does not model
            if q[0] == "mcall" and q[2] == "is_some_and" and pat[0] == "pbind":
                env[pat[1]] = ("tt", ("outline",))
                return rest()
            # let x = match <Option> { Some(y) => {..}, None => {..} };  (the arms end in a call)
            if q[0] == "match" and pat[0] == "pbind" and len(q[2]) == 2:
                pre, c, t = self.tr_st(q[1], env)
                if not (isinstance(t, tuple) and t[0] == "opt"):
                    self.no(line, "let = match on %s" % (t,))
                texts, rty = [], None
                for apat, ab in q[2]:
                    env2 = dict(env)
                    if apat[0] == "psome" and apat[1][0] == "pbind":
                        env2[apat[1][1]] = ("v_" + apat[1][1], t[1])
                        head = "Some v_%s" % apat[1][1]
                    elif apat[0] == "pnone":
                        head = "None"
                    else:
                        self.no(line, "let = match pattern")
                    if ab[2] is None:
                        self.no(line, "let = match arm without a value")
                    self.last_tail_ty = None
                    inner = self.seq(ab[1], 0, ab[2], env2, indent + "        ")
                    rty = self.last_tail_ty
                    texts.append("%s    | %s =>\n%s" % (indent, head, inner))
                env[pat[1]] = ("v_" + pat[1], rty)
                return "%s%sv_%s <- (match %s with\n%s\n%s    end) ;;\n%s" % (indent, pre, pat[1], c, "\n".join(texts), indent, rest())
            tried = False
            if q[0] == "try":
                q, tried = q[1], True
            pre0, q = self.hoist(q, env)
            pure = None
            try:
                pure = self.tr_st(q, env)
            except Refuse:
                pure = None
            if pure is not None and tried:
                p2, c, t = pure
                if pat[0] != "pbind" or not (isinstance(t, tuple) and t[0] == "opt"):
                    self.no(line, "`?` on %s" % (t,))
                env[pat[1]] = ("v_" + pat[1], t[1])
                return "%s%s%sv_%s <- lift %s ;;\n%s" % (indent, pre0, p2, pat[1], atom(c), rest())
            if pure is not None:
                p2, c, t = pure
                if pat[0] != "pbind":
                    self.no(line, "let pattern")
                if isinstance(t, tuple) and t[0] in ("RecordV", "McV", "recH", "leafH", "mutH", "mcH"):
                    env[pat[1]] = (c, t)
                    return (indent + pre0 + p2 + "\n" if (pre0 or p2) else "") + rest()
                env[pat[1]] = ("v_" + pat[1], t)
                return "%s%s%slet v_%s := %s in\n%s" % (indent, pre0, p2, pat[1], c, rest())
            pre, m, t = self.m_expr(q, env)
            if t == "(name * N)":
                t = ("tuple", ["name", "VariableId"])
            if not tried and isinstance(t, tuple) and t[0] == "tuple":
                self.no(line, "Option-valued call bound without `?`")
            if pat[0] == "ptuple" and isinstance(t, tuple) and t[0] == "tuple" and len(pat[1]) == len(t[1]) == 2:
                a, b = pat[1][0][1], pat[1][1][1]
                env[a] = ("v_" + a, t[1][0])
                env[b] = ("v_" + b, t[1][1])
                return "%s%s%sp <- (%s) ;;\n%slet v_%s := fst p in\n%slet v_%s := snd p in\n%s" % (
                    indent, pre0, pre, m, indent, a, indent, b, rest())
            if pat[0] != "pbind":
                self.no(line, "let pattern")
            env[pat[1]] = ("v_" + pat[1], t)
            return "%s%s%sv_%s <- (%s) ;;\n%s" % (indent, pre0, pre, pat[1], m, rest())
        if k == "ifstmt":
            e = s[1]
            ind2 = indent + "    "

            def branch(b):
                if b is None:
                    return self.seq(stmts, i + 1, tail, env, ind2)
                if b[2] is not None:
                    self.no(line, "`if` block with a value")
                stm = b[1]
                if stm and stm[-1][0] == "continue":
                    return self.seq(stm, 0, tail, env, ind2)
                if stm and stm[-1][0] == "return":
                    return self.seq(stm[:-1], 0, stm[-1][1], env, ind2)
                if stm and stm[-1][0] == "expr" and stm[-1][1][0] == "macro" and stm[-1][1][1] == ["panic"]:
                    # a block that ends in panic!: the `let`s / logging before it only compute the message
                    if all(x[0] == "let" or (x[0] == "expr" and x[1][0] == "macro" and x[1][1] == ["tracing", "debug"]) for x in stm[:-1]):
                        return ind2 + "bad"
                    return self.seq(stm, 0, ("path", ["None"], line), env, ind2)
                return self.seq(stm + stmts[i + 1:], 0, tail, env, ind2)
            if e[0] == "iflet":
                pat, ex, a, b = e[1], e[2], e[3], e[4]
                if pat[0] != "psome":
                    self.no(line, "if let pattern")
                try:
                    pre, c, t = self.tr_st(ex, env)
                except Refuse:
                    p1, m1, t1 = self.m_expr(ex, env)          # an effectful call: its Option result is observed
                    pre, c, t = p1 + "o <- try_ (%s) ;; " % m1, "o", ("opt", t1)
                if not (isinstance(t, tuple) and t[0] == "opt"):
                    self.no(line, "if let Some(..) on %s" % (t,))
                inner = pat[1]
                while inner[0] in ("pref", "pmut"):
                    inner = inner[1]
                if inner[0] != "pbind":
                    self.no(line, "if let pattern")
                saved = dict(env)
                env[inner[1]] = ("v_" + inner[1], t[1])
                yes = branch(a)
                env.clear()
                env.update(saved)
                return "%s%smatch %s with\n%s| Some v_%s =>\n%s\n%s| None =>\n%s\n%send" % (
                    indent, pre, c, indent, inner[1], yes, indent, branch(b), indent)
            pre, c, t = self.tr_st(e[1], env)
            if t != "bool":
                self.no(line, "condition of type %s" % (t,))
            return "%s%sif %s then\n%s\n%selse\n%s" % (indent, pre, c, branch(e[2]), indent, branch(e[3]))
        if k == "for":
            pat, it, body = s[1], s[2], s[3]
            preh, it = self.hoist(it, env)
            if preh:
                return indent + preh + "\n" + self.seq([("for", pat, it, body, line)] + stmts[i + 1:], 0, tail, env, indent)
            c, t = self.tr(it, env)
            if not (isinstance(t, tuple) and t[0] == "list") or pat[0] != "pbind" or body[2] is not None:
                self.no(line, "for form")
            env2 = dict(env)
            env2[pat[1]] = ("v_" + pat[1], t[1])
            if len(body[1]) == 1 and body[1][0][0] == "assign" and body[1][0][1] == "=" and body[1][0][2][0] == "path" \
                    and len(body[1][0][2][1]) == 1 and body[1][0][2][1][0] in env and body[1][0][3][0] == "try":
                acc = body[1][0][2][1][0]
                ac, at = env[acc]
                btxt = self.seq([], 0, body[1][0][3][1], env2, indent + "    ")
                return "%s%s <- foldM (fun %s v_%s =>\n%s) %s %s ;;\n%s" % (indent, ac, ac, pat[1], btxt, atom(c), ac, rest())
            simple = all(s2[0] == "expr" and not (s2[1][0] == "mcall" and s2[1][1][0] == "path" and len(s2[1][1][1]) == 1
                                                    and isinstance(env2.get(s2[1][1][1][0], (0, 0))[1], tuple)
                                                    and env2[s2[1][1][1][0]][1][0] == "mutH") for s2 in body[1])
            if simple:
                parts = []
                for s2 in body[1]:
                    pre, m, _ = self.m_expr(s2[1], env2)
                    if pre:
                        self.no(line, "`?` inside a for body")
                    parts.append("(%s)" % m)
                return "%siterM (fun v_%s => %s) %s ;;\n%s" % (indent, pat[1], " ;; ".join(parts), atom(c), rest())
            btxt = self.seq(body[1], 0, ("unit_tt",), env2, indent + "    ")
            return "%siterM (fun v_%s =>\n%s) %s ;;\n%s" % (indent, pat[1], btxt, atom(c), rest())
        if k == "return":
            if i != len(stmts) - 1:
                self.no(line, "statements after return")
            return self.seq([], 0, s[1], env, indent)
        self.no(line, "statement %s" % k)

    def symbol_match(self, e, env, indent):
        """match ctx.symbol_map.symbol(id) { Symbol::X(..) => .. }  over the three arenas of Scope.v: a Record is a class or a def
        (the guard `record.kind == RecordKind::Def`), TemplateArgument / RecordField / Variable / Defset / Defm are leaves"""
        line = e[3]
        a, ta = self.tr(e[1][3][0], env)
        if ta != "SymbolId":
            self.no(line, "symbol(%s)" % (ta,))
        arms = {}
        for pat, body in e[2]:
            guard = None
            if pat[0] == "pguard":
                guard, pat = pat[2], pat[1]
            if pat[0] != "pvariant" or len(pat[1]) != 2 or pat[1][0] != "Symbol" or len(pat[2]) != 1:
                self.no(line, "Symbol pattern")
            v, sub = pat[1][1], pat[2][0]
            key = v
            if v == "Record":
                if guard is not None:
                    ok = (sub[0] == "pbind" and guard[0] == "bin" and guard[1] == "==" and guard[2][0] == "field" and guard[2][2] == "kind"
                          and guard[2][1] == ("path", [sub[1]], guard[2][1][2]) and guard[3][0] == "path" and guard[3][1] == ["RecordKind", "Def"])
                    if not ok or "Record" in arms:
                        self.no(line, "the guard of Symbol::Record is expected to be `record.kind == RecordKind::Def`, before the other Record arm")
                    key = "RecordDef"
            elif guard is not None:
                self.no(line, "guard on Symbol::%s" % v)
            if key in arms:
                self.no(line, "two arms for Symbol::%s" % key)
            arms[key] = (sub, body)
        want = ["RecordDef", "Record", "TemplateArgument", "RecordField", "Variable", "Defset", "Multiclass", "Defm"]
        if sorted(arms) != sorted(want):
            self.no(line, "Symbol match does not have exactly the arms %s" % want)
        ind2, ind3 = indent + "    ", indent + "        "

        def arm(key, leafvar=None):
            sub, body = arms[key]
            env2 = dict(env)
            if sub[0] == "pbind":
                env2[sub[1]] = (leafvar or "v_r", "leafV" if leafvar else "recV")
            return self.seq(body[1], 0, body[2], env2, ind3)
        self.svn = getattr(self, "svn", 0) + 1
        S = "s%d" % self.svn
        return ("%s%s <- state ;;\n%smatch %s with\n"
                "%s| SyRecord rid =>\n%sv_r <- lift (nthN (s_recs %s) rid) ;;\n%sif rc_class v_r then\n%s\n%selse\n%s\n"
                "%s| SyMc _ =>\n%s\n"
                "%s| SyLeaf lid =>\n%sv_l <- lift (nthN (s_leaves %s) lid) ;;\n%smatch lf_kind v_l with\n"
                "%s| LTArg =>\n%s\n%s| LField =>\n%s\n%s| LVar =>\n%s\n%s| LDefset =>\n%s\n%s| LDefm =>\n%s\n%send\n%send"
                % (indent, S, indent, atom(a),
                   indent, ind2, S, ind2, arm("Record"), ind2, arm("RecordDef"),
                   indent, arm("Multiclass"),
                   indent, ind2, S, ind2,
                   ind2, arm("TemplateArgument", "v_l"), ind2, arm("RecordField", "v_l"), ind2, arm("Variable", "v_l"),
                   ind2, arm("Defset", "v_l"), ind2, arm("Defm", "v_l"), ind2, indent))

    def match_tail(self, e, env, indent):
        """match <Option read from the context / bound> { Some(x) => {..} None => {..} } as the value of the fn"""
        scrut, arms, line = e[1], e[2], e[3]
        pre, c, t = self.tr_st(scrut, env)
        if not (isinstance(t, tuple) and t[0] == "opt") or len(arms) != 2:
            self.no(line, "match on %s" % (t,))
        texts = []
        for pat, body in arms:
            env2 = dict(env)
            if pat[0] == "psome" and pat[1][0] == "pbind":
                env2[pat[1][1]] = ("v_" + pat[1][1], t[1])
                head = "Some v_%s" % pat[1][1]
            elif pat[0] == "pnone":
                head = "None"
            else:
                self.no(line, "match pattern")
            texts.append("%s| %s =>\n%s" % (indent, head, self.seq(body[1], 0, body[2], env2, indent + "    ")))
        return "%s%smatch %s with\n%s\n%send" % (indent, pre, c, "\n".join(texts), indent)

    def value_enum(self, e, env, indent, T, scrut_code=None):
        scrut, arms, line = e[1], e[2], e[3]
        if scrut_code is None and (scrut[0] != "path" or scrut[1] != ["self"]):
            self.no(line, "match on something other than self")
        table = VALUE_ENUMS[T]
        groups, covered = {}, []
        wild = None
        for pat, body in arms:
            if pat[0] == "pwild":
                wild = "%s| _ =>\n%s" % (indent, self.seq(body[1], 0, body[2], env, indent + "    "))
                continue
            pats = pat[1] if pat[0] == "por" else [pat]
            ctors = set()
            bound = None
            for q in pats:
                if q[0] != "pvariant" or q[1][:-1] not in (["Self"], ["ast", T], ["ast", T.replace("SimpleValueName", "SimpleValue")]) \
                        or q[1][-1] not in table:
                    self.no(line, "pattern of a match on %s" % T)
                ctor, sub = table[q[1][-1]]
                ctors.add(ctor)
                covered.append(q[1][-1])
                if sub is not None:
                    if len(q[2]) != 1 or q[2][0][0] != "pbind":
                        self.no(line, "sub-pattern")
                    bound = (q[2][0][1], sub)
                elif q[2] and not (len(q[2]) == 1 and q[2][0][0] == "pwild"):
                    self.no(line, "sub-pattern of a constant variant")
            if len(ctors) != 1:
                self.no(line, "or-pattern over variants that are different CoreAst constructors")
            ctor = ctors.pop()
            if ctor in groups:
                self.no(line, "two arms for the CoreAst constructor %s" % ctor)
            env2 = dict(env)
            cpat = ctor
            if bound and bound[1] == "BangOperator":
                env2[bound[0]] = ("(v_op, v_annot, v_ovs, v_or)", ("node", "BangOperator"))
            elif bound and " " in ctor:             # the constructor binds its fields under fixed names (see NODES of the sub-node)
                env2[bound[0]] = ("self", ("node", bound[1]))
            elif bound:
                env2[bound[0]] = ("v_" + bound[0], ("node", bound[1]))
                cpat = "%s v_%s" % (ctor, bound[0])
            groups[ctor] = "%s| %s =>\n%s" % (indent, cpat, self.seq(body[1], 0, body[2], env2, indent + "    "))
        if wild is None and sorted(set(covered)) != sorted(table):
            self.no(line, "match does not cover exactly the variants of %s" % T)
        texts = list(groups.values()) + ([wild] if wild else [])
        return "%smatch %s with\n%s\n%send" % (indent, scrut_code or "self_node", "\n".join(texts), indent)

    def render_ArgValue(self, fn, indent):
        """ast::ArgValue over CoreAst.arg: PositionalArgValue = APos v r; NamedArgValue = ANamed nm v r when the name is a
        string / identifier (the bridge has read it: nm), ANamedBad r otherwise"""
        body = fn["body"]
        line = fn["line"]
        if body[1] or body[2] is None or body[2][0] != "match" or body[2][1] != ("path", ["self"], body[2][1][2]) or len(body[2][2]) != 2:
            self.no(line, "ArgValue::index is expected to be `match self { Positional.. => .., Named.. => .. }`")
        arms = {}
        for pat, b in body[2][2]:
            if pat[0] != "pvariant" or pat[1][:2] != ["ast", "ArgValue"] or len(pat[2]) != 1 or pat[2][0][0] != "pbind":
                self.no(line, "ArgValue pattern")
            arms[pat[1][2]] = (pat[2][0][1], b)
        if sorted(arms) != ["NamedArgValue", "PositionalArgValue"]:
            self.no(line, "ArgValue variants")
        x, b = arms["PositionalArgValue"]
        pos = self.seq(b[1], 0, b[2], {"ctx": ("ctx", "ctx"), x: ("self", ("node", "PositionalArgValue"))}, indent + "    ")
        x, b = arms["NamedArgValue"]
        st = b[1]
        ok = (st and st[0][0] == "let" and st[0][1][0] == "pbind" and st[0][3][0] == "match" and len(st[0][3][2]) == 3)
        if not ok:
            self.no(line, "NamedArgValue arm: expected `let name = match <name's simple value> { String, Identifier, _ }` first")
        nm_var, m = st[0][1][1], st[0][3]
        # the scrutinee: named.name()?.inner_values().next()?.simple_value()?
        chain, y = [], m[1]
        while y[0] in ("try", "mcall"):
            if y[0] == "mcall":
                chain.append(y[2])
            y = y[1]
        if chain != ["simple_value", "next", "inner_values", "name"] or y != ("path", [x], y[2]):
            self.no(line, "NamedArgValue: the name is expected to be read as named.name()?.inner_values().next()?.simple_value()?")
        wild = None
        for pat, ab in m[2]:
            if pat[0] == "pwild":
                wild = ab
            elif pat[0] == "pvariant" and pat[1] == ["ast", "SimpleValue", "String"] and len(pat[2]) == 1 and pat[2][0][0] == "pbind":
                v = pat[2][0][1]
                if ab[1] or ab[2] != ("mcall", ("path", [v], ab[2][1][2]), "value", [], ab[2][4]):
                    self.no(line, "NamedArgValue: String arm is expected to be name.value()")
            elif pat[0] == "pvariant" and pat[1] == ["ast", "SimpleValue", "Identifier"] and len(pat[2]) == 1 and pat[2][0][0] == "pbind":
                v = pat[2][0][1]
                if ab[1] or ab[2][0] != "try" or ab[2][1] != ("mcall", ("path", [v], ab[2][1][1][2]), "value", [], ab[2][1][4]):
                    self.no(line, "NamedArgValue: Identifier arm is expected to be name.value()?")
            else:
                self.no(line, "NamedArgValue: unexpected arm")
        if wild is None or wild[2] is not None or not wild[1] or wild[1][-1][0] != "return":
            self.no(line, "NamedArgValue: the `_` arm is expected to end in return")
        envn = {"ctx": ("ctx", "ctx"), x: ("self", ("node", "NamedArgValue")), nm_var: ("v_nm", "name")}
        named = self.seq(st[1:], 0, b[2], envn, indent + "    ")
        bad_ = self.seq(wild[1][:-1], 0, wild[1][-1][1], {"ctx": ("ctx", "ctx"), x: ("self", ("node", "NamedArgValue"))}, indent + "    ")
        return ("%smatch self_node with\n%s| APos v_pv v_ar =>\n%s\n%s| ANamed v_nm v_nv v_ar =>\n%s\n%s| ANamedBad v_ar =>\n%s\n%send"
                % (indent, indent, pos, indent, named, indent, bad_, indent))

    # ---- check_template_args: statements over one mutable local U (the HashSet of unsolved names) in state-passing style
    def is_remove(self, e, U):
        return (U is not None and e[0] == "mcall" and e[2] == "remove" and len(e[3]) == 1 and e[1][0] == "path" and e[1][1] == [U])

    def bind_pat(self, pat, t, env, line):
        """Coq pattern + extended env for a pattern under Some(..): a variable or a tuple of variables"""
        env2 = dict(env)
        if pat[0] == "pbind":
            env2[pat[1]] = ("v_" + pat[1], t)
            return "v_" + pat[1], env2
        if pat[0] == "ptuple" and isinstance(t, tuple) and t[0] == "tuple" and len(t[1]) == len(pat[1]) \
                and all(q[0] in ("pbind", "pwild") for q in pat[1]):
            vs = []
            for q, qt in zip(pat[1], t[1]):
                if q[0] == "pbind":
                    env2[q[1]] = ("v_" + q[1], qt)
                    vs.append("v_" + q[1])
                else:
                    vs.append("_")
            return "(" + ", ".join(vs) + ")", env2
        self.no(line, "pattern %s on a value of type %s" % (pat[0], t))

    def sblk(self, stmts, tail, env, U, kind, indent):
        """kind 'unit': M (type of U), the final value of U; 'val': M (T * type of U); 'plain': M unit, no U in scope.
        Returns (code, type of the value for 'val')"""
        Uc = "v_%s" % U if U else None
        vts = []

        def fin(val=None, vt=None):
            if kind == "plain":
                return "ret tt"
            if kind == "unit":
                return "ret %s" % Uc
            vts.append(vt)
            return "ret (%s, %s)" % (val, Uc)

        def sub(b, env2, ind):
            c, vt = self.sblk(b[1], b[2], env2, U, kind, ind)
            vts.append(vt)
            return c

        def sif(e, env):
            line = e[-1]
            if e[0] == "if":
                cond, th, el = e[1], e[2], e[3]
                A = sub(th, env, indent + "  ")
                if el is None:
                    if kind == "val":
                        self.no(line, "`if` without else as a value")
                    B = indent + "  " + fin()
                else:
                    B = sub(el, env, indent + "  ")
                if self.is_remove(cond, U):
                    c, t = self.tr(cond[3][0], env)
                    if t != "name":
                        self.no(line, "remove(%s)" % (t,))
                    # HashSet::remove returns whether the value was present
                    self.rmn = getattr(self, "rmn", 0) + 1
                    rm = "rm%d" % self.rmn
                    # (the branches were rendered over the name v_U, which the let below rebinds)
                    return ("%s(let %s := remove_name %s %s in let %s := snd %s in\n%sif fst %s then\n%s\n%selse\n%s)"
                            % (indent, rm, atom(c), Uc, Uc, rm, indent, rm, A, indent, B))
                pre, c, t = self.tr_st(cond, env)
                if t != "bool":
                    self.no(line, "condition of type %s" % (t,))
                return "%s(%sif %s then\n%s\n%selse\n%s)" % (indent, pre, c, A, indent, B)
            if e[0] == "iflet":
                pat, scrut, th, el = e[1], e[2], e[3], e[4]
                c, t = self.tr(scrut, env)
                if pat[0] != "psome" or not (isinstance(t, tuple) and t[0] == "opt"):
                    self.no(line, "if let %s on %s" % (pat[0], t))
                cp, env2 = self.bind_pat(pat[1], t[1], env, line)
                A = sub(th, env2, indent + "  ")
                if el is None:
                    if kind == "val":
                        self.no(line, "`if let` without else as a value")
                    B = indent + "  " + fin()
                else:
                    B = sub(el, env, indent + "  ")
                return "%smatch %s with\n%s| Some %s =>\n%s\n%s| None =>\n%s\n%send" % (indent, c, indent, cp, A, indent, B, indent)
            self.no(line, "statement %s" % e[0])

        def go(i, env):
            if i == len(stmts):
                if tail is None:
                    if kind == "val":
                        self.no(0, "block without a value")
                    return indent + fin()
                if kind != "val":
                    self.no(0, "block with a value where none is expected")
                if tail[0] in ("if", "iflet"):
                    return sif(tail, env)
                pre, c, t = self.tr_st(tail, env)
                return indent + pre + fin(c, t)
            st = stmts[i]
            last = (i == len(stmts) - 1 and tail is None)
            if st[0] == "ifstmt":
                if not last:
                    self.no(st[-1], "`if` statement that is not the last statement of its block")
                return sif(st[1], env)
            if st[0] == "continue":
                if not (last and kind == "unit"):
                    self.no(st[-1], "continue")
                return indent + fin()
            if st[0] == "expr":
                e = st[1]
                if self.is_remove(e, U):
                    c, t = self.tr(e[3][0], env)
                    if t != "name":
                        self.no(st[-1], "remove(%s)" % (t,))
                    return "%slet %s := snd (remove_name %s %s) in\n%s" % (indent, Uc, atom(c), Uc, go(i + 1, env))
                pre, term, t = self.m_expr(e, env)
                if pre or t != "unit":
                    self.no(st[-1], "statement of type %s" % (t,))
                return "%s(%s) ;;\n%s" % (indent, term, go(i + 1, env))
            if st[0] == "let":
                pat, ty, init, els, line = st[1], st[2], st[3], st[4], st[5]
                if els is not None:
                    if not (kind == "unit" and pat[0] == "psome" and els[1] == [("continue", els[1][0][-1])] and els[2] is None):
                        self.no(line, "let-else that is not `let Some(..) = e else { continue; }` in a loop body")
                    c, t = self.tr(init, env)
                    if not (isinstance(t, tuple) and t[0] == "opt"):
                        self.no(line, "let Some(..) on %s" % (t,))
                    cp, env2 = self.bind_pat(pat[1], t[1], env, line)
                    return ("%smatch %s with\n%s| None => %s\n%s| Some %s =>\n%s\n%send"
                            % (indent, c, indent, fin(), indent, cp, go(i + 1, env2), indent))
                if pat[0] != "pbind":
                    self.no(line, "let pattern %s" % pat[0])
                x = pat[1]
                env2 = dict(env)
                if init[0] == "mcall" and init[2] == "unwrap" and not init[3]:
                    # a panic site: None is `bad` (the lemma shows it is not reached)
                    c, t = self.tr(init[1], env)
                    if not (isinstance(t, tuple) and t[0] == "opt"):
                        self.no(line, "unwrap on %s" % (t,))
                    env2[x] = ("v_" + x, t[1])
                    return ("%smatch %s with\n%s| None => bad\n%s| Some v_%s =>\n%s\n%send"
                            % (indent, c, indent, indent, x, go(i + 1, env2), indent))
                if init[0] == "match":
                    if U is None:
                        self.no(line, "let = match")
                    c, t = self.tr(init[1], env)
                    if not (isinstance(t, tuple) and t[0] == "opt") or len(init[2]) != 2:
                        self.no(line, "let = match on %s" % (t,))
                    arms, ats = {}, []
                    for ap, ab in init[2]:
                        if ab[0] != "block":
                            ab = ("block", [], ab)
                        if ap[0] == "pnone":
                            code, vt = self.sblk(ab[1], ab[2], env, U, "val", indent + "    ")
                            arms["None"] = "%s  | None =>\n%s" % (indent, code)
                        elif ap[0] == "psome":
                            cp, env3 = self.bind_pat(ap[1], t[1], env, line)
                            code, vt = self.sblk(ab[1], ab[2], env3, U, "val", indent + "    ")
                            arms["Some"] = "%s  | Some %s =>\n%s" % (indent, cp, code)
                        else:
                            self.no(line, "arm pattern %s" % ap[0])
                        ats.append(vt)
                    if sorted(arms) != ["None", "Some"]:
                        self.no(line, "let = match: arms")
                    vt = ([a for a in ats if "None" not in repr(a)] or ats)[0]
                    self.rmn = getattr(self, "rmn", 0) + 1
                    r = "r%d" % self.rmn
                    env2[x] = ("v_" + x, vt)
                    return ("%s%s <- (match %s with\n%s\n%s\n%s  end) ;;\n%slet v_%s := fst %s in let %s := snd %s in\n%s"
                            % (indent, r, c, arms["None"], arms["Some"], indent, indent, x, r, Uc, r, go(i + 1, env2)))
                pre, c, t = self.tr_st(init, env)
                env2[x] = ("v_" + x, t)
                return "%s%slet v_%s := %s in\n%s" % (indent, pre, x, c, go(i + 1, env2))
            self.no(st[-1] if isinstance(st[-1], int) else 0, "statement %s" % st[0])

        code = go(0, env)
        vt = ([a for a in vts if a is not None and "None" not in repr(a)] or [a for a in vts if a is not None] or [None])[0]
        return code, vt

    def render_check_template_args(self, fn, indent):
        """fn check_template_args(ctx, template_args, arg_values, range): early return, one mutable HashSet<EcoString> (rendered
        as the list of its elements: insertion order is irrelevant because the only iteration over it emits the same
        diagnostic for every element), a `for .. enumerate()` that updates it (foldM) and a final `for` over it (iterM)"""
        want = [("ctx", "&mut IndexCtx"), ("template_args", "Vec<TemplateArgument>"),
                ("arg_values", "Vec<Option<(Option<EcoString>,Type,TextRange)>>"), ("range", "TextRange")]
        line = fn["line"]
        ps = fn["params"]
        if [t for _, t in ps] != [t for _, t in want] or ps[0][0] != "ctx" or fn["ret"] is not None:
            self.no(line, "signature of check_template_args")
        env = {"ctx": ("ctx", "ctx"), ps[1][0]: ("v_" + ps[1][0], ("list", "leaf")),
               ps[2][0]: ("v_" + ps[2][0], ("list", ("opt", ("tuple", [("opt", "name"), "mty", "rng"])))), ps[3][0]: ("v_" + ps[3][0], "rng")}
        self.cta_params = [("v_" + ps[1][0], "list leaf"), ("v_" + ps[2][0], "list (option argv)"), ("v_" + ps[3][0], "rng")]
        stmts, tail = fn["body"][1], fn["body"][2]
        if tail is not None:
            self.no(line, "check_template_args returns a value")

        def go(i, env, U):
            Uc = "v_%s" % U if U else None
            if i == len(stmts):
                return indent + "ret tt"
            st = stmts[i]
            ln = st[-1] if isinstance(st[-1], int) else line
            if st[0] == "ifstmt" and st[1][0] == "if" and st[1][3] is None and st[1][2][2] is None and st[1][2][1] \
                    and st[1][2][1][-1][0] == "return" and st[1][2][1][-1][1] is None and U is None:
                pre, c, t = self.tr_st(st[1][1], env)
                if t != "bool":
                    self.no(ln, "condition of type %s" % (t,))
                body, _ = self.sblk(st[1][2][1][:-1], None, env, None, "plain", indent + "  ")
                return "%s%sif %s then\n%s\n%selse\n%s" % (indent, pre, c, body, indent, go(i + 1, env, U))
            if st[0] == "let" and st[1][0] == "pmut" and st[1][1][0] == "pbind" and st[2] == "HashSet<EcoString>" and st[4] is None and U is None:
                c, t = self.tr(st[3], env)
                if t != ("list", "name"):
                    self.no(ln, "HashSet<EcoString> collected from %s" % (t,))
                U2 = st[1][1][1]
                env2 = dict(env)
                env2[U2] = ("v_" + U2, ("hashset", "name"))
                return "%slet v_%s := %s in\n%s" % (indent, U2, c, go(i + 1, env2, U2))
            if st[0] == "for":
                pat, it, body = st[1], st[2], st[3]
                if it[0] == "mcall" and it[2] == "enumerate" and not it[3] and U is not None and pat[0] == "ptuple" and len(pat[1]) == 2 \
                        and all(q[0] == "pbind" for q in pat[1]):
                    c, t = self.tr(it[1], env)
                    if not (isinstance(t, tuple) and t[0] == "list"):
                        self.no(ln, "enumerate() on %s" % (t,))
                    a, b = pat[1][0][1], pat[1][1][1]
                    env2 = dict(env)
                    env2[a] = ("v_" + a, "nat")
                    env2[b] = ("v_" + b, t[1])
                    code, _ = self.sblk(body[1], body[2], env2, U, "unit", indent + "    ")
                    return ("%s%s <- foldM (fun %s it => let v_%s := fst it in let v_%s := snd it in\n%s)\n%s  (combine (List.seq 0%%nat (length %s)) %s) %s ;;\n%s"
                            % (indent, Uc, Uc, a, b, code, indent, atom(c), atom(c), Uc, go(i + 1, env, U)))
                if it == ("path", [U], it[2]) and pat[0] == "pbind":
                    # consumes the set; every element is visited once, in an unspecified order
                    env2 = {k: v for k, v in env.items() if k != U}
                    env3 = dict(env2)
                    env3[pat[1]] = ("v_" + pat[1], "name")
                    code, _ = self.sblk(body[1], body[2], env3, None, "plain", indent + "    ")
                    return "%siterM (fun v_%s =>\n%s)\n%s  %s ;;\n%s" % (indent, pat[1], code, indent, Uc, go(i + 1, env2, None))
            self.no(ln, "statement %s of check_template_args" % st[0])

        return go(0, env, None)

    def render_index(self, fn, indent):
        """fn index(db) -> Arc<Index>: the salsa query.  Table: `db.source_root().root()` is file number 0 (the bridge numbers
        the root file 0, as Scope.st0 does), `db.parse(f)` + `ast::SourceFile::cast(..).expect(..)` is the statement list of
        file f of the workspace [db_files] (a panic if there is none), `Arc::new` is the identity"""
        line = fn["line"]
        st, tail = fn["body"][1], fn["body"][2]

        def let(x, mut=False):
            if x[0] != "let" or x[4] is not None:
                self.no(line, "index: statement")
            pat = x[1]
            if mut:
                if pat[0] != "pmut":
                    self.no(line, "index: let mut expected")
                pat = pat[1]
            if pat[0] != "pbind":
                self.no(line, "index: let pattern")
            return pat[1], x[3]

        def var(e, name):
            return e == ("path", [name], e[2]) if e[0] == "path" else False
        if fn["params"] != [("db", "dynIndexDatabase")] or len(st) != 6 or tail is None:
            self.no(line, "index: signature / number of statements (%s)" % (fn["params"],))
        a, e = let(st[0])
        if not (e[0] == "mcall" and var(e[1], "db") and e[2] == "source_root" and not e[3]):
            self.no(line, "index: db.source_root()")
        r, e = let(st[1])
        if not (e[0] == "mcall" and var(e[1], a) and e[2] == "root" and not e[3]):
            self.no(line, "index: source_root.root()")
        p_, e = let(st[2])
        if not (e[0] == "mcall" and var(e[1], "db") and e[2] == "parse" and len(e[3]) == 1 and var(e[3][0], r)):
            self.no(line, "index: db.parse(root_file)")
        f, e = let(st[3])
        ok = (e[0] == "mcall" and e[2] == "expect" and len(e[3]) == 1 and e[1][0] == "call" and e[1][1][0] == "path"
              and e[1][1][1] == ["ast", "SourceFile", "cast"] and len(e[1][2]) == 1 and e[1][2][0][0] == "mcall"
              and e[1][2][0][2] == "syntax_node" and var(e[1][2][0][1], p_))
        if not ok:
            self.no(line, "index: ast::SourceFile::cast(parse.syntax_node()).expect(..)")
        c, e = let(st[4], mut=True)
        if not (e[0] == "call" and e[1][0] == "path" and e[1][1] == ["IndexCtx", "new"] and len(e[2]) == 2 and var(e[2][0], "db")
                and var(e[2][1], r)):
            self.no(line, "index: IndexCtx::new(db, root_file)")
        x = st[5]
        ok = (x[0] == "expr" and x[1][0] == "mcall" and x[1][2] == "index" and var(x[1][1], f) and len(x[1][3]) == 1
              and x[1][3][0][0] == "un" and x[1][3][0][1] == "&mut" and var(x[1][3][0][2], c))
        if not ok:
            self.no(line, "index: source_file.index(&mut ctx)")
        ok = (tail[0] == "call" and tail[1][0] == "path" and tail[1][1] == ["Arc", "new"] and len(tail[2]) == 1
              and tail[2][0][0] == "mcall" and tail[2][0][2] == "finish" and not tail[2][0][3] and var(tail[2][0][1], c))
        if not ok:
            self.no(line, "index: Arc::new(ctx.finish())")
        if "SourceFile" not in self.rendered or not self.ctx_new_finish:
            self.no(line, "index: SourceFile::index / IndexCtx::new / IndexCtx::finish are not rendered")
        return ("%slet v_%s := 0 in\n%slet v_%s := src_IndexCtx_new v_%s in\n%smatch nthN db_files v_%s with\n"
                "%s| None => src_IndexCtx_finish (snd (@bad unit v_%s))\n"
                "%s| Some v_%s => src_IndexCtx_finish (snd (src_ix_SourceFile v_%s v_%s))\n%send"
                % (indent, r, indent, c, r, indent, r, indent, c, indent, f, f, c, indent))

    def render_Include(self, fn, indent):
        """ast::Include over SInclude r target: the database lookups (resolved_include_map / IncludeId / get) are the field
        `target`, `ctx.db.parse(f)` + `SourceFile::cast(..)?` is the statement list of file f in the workspace [db_files]"""
        b = fn["body"]
        line = fn["line"]
        st = b[1]
        def is_let(x, name=None):
            return x[0] == "let" and x[1][0] in ("pbind", "psome") and (name is None or x[1] == ("pbind", name))
        # 1-3: let file_id = ctx.current_file_id(); let include_map = ctx.db.resolved_include_map(file_id); let include_id = IncludeId(..self.syntax()..);
        ok = (len(st) >= 9 and is_let(st[0]) and st[0][3][0] == "mcall" and st[0][3][2] == "current_file_id"
              and is_let(st[1]) and st[1][3][0] == "mcall" and st[1][3][2] == "resolved_include_map"
              and is_let(st[2]) and st[2][3][0] == "call" and st[2][3][1][1] == ["IncludeId"])
        if not ok:
            self.no(line, "Include::index: expected the three lets that look the include up in the database")
        # 4: let Some(f) = include_map.get(&include_id).copied() else { ..error..; return None; };
        s4 = st[3]
        ok = (s4[0] == "let" and s4[1][0] == "psome" and s4[1][1][0] == "pbind" and s4[4] is not None and s4[3][0] == "mcall" and s4[3][2] == "copied"
              and s4[3][1][0] == "mcall" and s4[3][1][2] == "get" and s4[3][1][1] == ("path", [st[1][1][1]], s4[3][1][1][2]))
        if not ok:
            self.no(line, "Include::index: expected `let Some(f) = include_map.get(&include_id).copied() else {..}`")
        f = s4[1][1][1]
        els = s4[4]
        # the else block: a `let path = ..` for the message, ctx.error(self.syntax().text_range(), ..), return None
        errs = [x for x in els[1] if x[0] == "expr"]
        if len(errs) != 1 or els[1][-1][0] != "return" or any(x[0] not in ("let", "expr", "return") for x in els[1]):
            self.no(line, "Include::index: else block of the lookup")
        env0 = {"ctx": ("ctx", "ctx"), "self": ("self", ("node", "Include"))}
        no_ = self.seq([errs[0]], 0, els[1][-1][1], env0, indent + "    ")
        env1 = dict(env0)
        env1[f] = ("v_" + f, "FileId")
        rest = self.include_rest(st[4:], b[2], env1, indent + "    ", f)
        return "%smatch n_target with\n%s| None =>\n%s\n%s| Some v_%s =>\n%s\n%send" % (indent, indent, no_, indent, f, rest, indent)

    def include_rest(self, st, tail, env, indent, f):
        if not st:
            return self.seq([], 0, tail, env, indent)
        x = st[0]
        line = x[-1] if isinstance(x[-1], int) else 0
        rest = lambda: self.include_rest(st[1:], tail, env, indent, f)
        # if !ctx.indexed_files.insert(f) { return None; }
        if x[0] == "ifstmt" and x[1][0] == "if" and x[1][1][0] == "un" and x[1][1][1] == "!" and x[1][1][2][0] == "mcall" \
                and x[1][1][2][2] == "insert" and x[1][1][2][1][0] == "field" and x[1][1][2][1][2] == "indexed_files" and x[1][3] is None:
            a, ta = self.tr(x[1][1][2][3][0], env)
            blk = x[1][2]
            if ta != "FileId" or blk[2] is not None or len(blk[1]) != 1 or blk[1][0][0] != "return":
                self.no(line, "indexed_files.insert form")
            yes = self.seq([], 0, blk[1][0][1], env, indent + "    ")
            return ("%ss_i <- state ;; if existsb (N.eqb %s) (s_indexed s_i) then\n%s\n%selse\n%s    (upd (fun s => set_files (s_trace s) (%s :: s_indexed s) s)) ;;\n%s"
                    % (indent, atom(a), yes, indent, indent, atom(a), rest().replace("\n", "\n    ") if False else rest()))
        # let parse = ctx.db.parse(f); let source_file = ast::SourceFile::cast(parse.syntax_node())?;
        if x[0] == "let" and x[3][0] == "mcall" and x[3][2] == "parse" and len(st) > 1 and st[1][0] == "let" and st[1][3][0] == "try" \
                and st[1][3][1][0] == "call" and st[1][3][1][1][1] == ["ast", "SourceFile", "cast"]:
            a, ta = self.tr(x[3][3][0], env)
            if ta != "FileId":
                self.no(line, "ctx.db.parse(%s)" % (ta,))
            v = st[1][1][1]
            env[v] = ("v_" + v, ("node", "SourceFile"))
            return "%sv_%s <- lift (nthN db_files %s) ;;\n%s" % (indent, v, atom(a), self.include_rest(st[2:], tail, env, indent, f))
        if x[0] == "expr" and x[1][0] == "mcall" and x[1][1] == ("path", ["ctx"], x[1][1][2]) and x[1][2] == "push_file":
            a, ta = self.tr(x[1][3][0], env)
            return "%s(push_file %s) ;;\n%s" % (indent, atom(a), rest())
        if x[0] == "expr" and x[1][0] == "mcall" and x[1][1] == ("path", ["ctx"], x[1][1][2]) and x[1][2] == "pop_file":
            return "%s(pop_file) ;;\n%s" % (indent, rest())
        if x[0] == "expr" and x[1][0] == "mcall" and x[1][2] == "index" and x[1][1][0] == "path" and len(x[1][1][1]) == 1 \
                and env.get(x[1][1][1][0], (0, 0))[1] == ("node", "SourceFile"):
            return "%s(%s %s) ;;\n%s" % (indent, self.ix("StatementList"), env[x[1][1][1][0]][0], rest())
        self.no(line, "Include::index: statement outside the subset")

    def dispatch(self, e, env, indent):
        """match self { ast::T::V(x) => x.index(ctx), .. }"""
        scrut, arms, line = e[1], e[2], e[3]
        if scrut[0] != "path" or scrut[1] != ["self"]:
            self.no(line, "match on something other than self")
        T = env["self"][1][1]
        if T not in ENUM_NODES:
            self.no(line, "match on node type %s" % T)
        coqty, table = ENUM_NODES[T]
        seen, texts = [], []
        for pat, body in arms:
            if pat[0] != "pvariant" or len(pat[1]) != 3 or pat[1][:2] != ["ast", T] or len(pat[2]) != 1 or pat[2][0][0] != "pbind":
                self.no(line, "dispatch pattern")
            v, x = pat[1][2], pat[2][0][1]
            row = [r for r in table if r[0] == v]
            if not row:
                self.no(line, "unknown variant %s::%s" % (T, v))
            ok = (not body[1] and body[2] is not None and body[2][0] == "mcall" and body[2][2] == "index"
                  and body[2][1] == ("path", [x], body[2][1][2]))
            if not ok:
                self.no(line, "dispatch arm that is not `x.index(ctx)`")
            seen.append(v)
            cpat, sub = row[0][1], row[0][2]
            if sub is None:
                texts.append("%s| %s => ix_stmt_%s (%s)" % (indent, cpat, v, cpat))
                if ("stmt_" + v) not in self.used:
                    self.used.append("stmt_" + v)
            elif sub[0] in self.rendered:
                texts.append("%s| %s => src_ix_%s %s" % (indent, cpat, sub[0], sub[1]))
            else:
                texts.append("%s| %s => ix_stmt_%s (%s)" % (indent, cpat, v, cpat))
                if ("stmt_" + v) not in self.used:
                    self.used.append("stmt_" + v)
        if sorted(seen) != sorted(r[0] for r in table):
            self.no(line, "dispatch does not cover exactly the variants of %s" % T)
        return "%smatch self_node with\n%s\n%send" % (indent, "\n".join(texts), indent)


def check_decls(scope, ctx):
    if scope["structs"].get("Scope") != SCOPE_STRUCT or scope["structs"].get("Scopes") != SCOPES_STRUCT:
        raise TranslateError("%s: struct Scope / Scopes differ from the modelled representation: %s" % (SCOPE, scope["structs"]))
    if scope["enums"].get("ScopeKind") != [(v, a) for v, a, _ in SCOPE_KIND]:
        raise TranslateError("%s: enum ScopeKind differs from the modelled one: %s" % (SCOPE, scope["enums"].get("ScopeKind")))
    if ctx["structs"].get("IndexCtx") != CTX_STRUCT:
        raise TranslateError("%s: struct IndexCtx differs from the modelled representation: %s" % (CONTEXT, ctx["structs"].get("IndexCtx")))


def translate(repo):
    scope, ctx = parse(repo, SCOPE), parse(repo, CONTEXT)
    check_decls(scope, ctx)
    g = Gen3()
    try:
        smsrc = open(os.path.join(repo, "crates/ide/src/symbol_map.rs")).read()
    except OSError:
        smsrc = ""
    dm = re.search(r"#\[derive\(([^)]*)\)\]\s*pub struct SymbolMap\b", smsrc)
    g.symbol_map_derives_default = bool(dm and "Default" in [x.strip() for x in dm.group(1).split(",")])
    out = ["(* GENERATED by tools/translate/t_indexer.py from crates/ide/src/index/scope.rs, index/context.rs (and, function by"
           " function, index.rs) -- do not edit *)",
           "From Coq Require Import List NArith Bool.", "From TG.Model Require Import CoreAst Scope BangOps Indexer IndexerSrc.",
           "Import ListNotations.", "Open Scope N_scope.", "Open Scope ix_scope.", ""]
    rendered, refused = [], []
    # Scope first (Scopes uses it), then Scopes, then IndexCtx; inside an impl callees first (two passes)
    todo = []
    for mod, rel in ((scope, SCOPE), (ctx, CONTEXT)):
        for target, trait, fns in mod["impls"]:
            for fn in fns:
                todo.append((rel, target, trait, fn))
    order = {"Scope": 0, "Scopes": 1, "IndexCtx": 2}
    todo.sort(key=lambda x: order.get(x[1], 9))
    pending = todo
    for _ in range(3):                       # a fn whose callee comes later in the file is retried
        nxt = []
        for rel, target, trait, fn in pending:
            g.fname = rel
            label = "%s::%s" % (target, fn["name"])
            if target not in order:
                refused.append((label, "impl for a type that is not translated"))
                continue
            if fn.get("unparsed"):
                refused.append((label, fn["unparsed"]))
                continue
            try:
                text = g.emit(target, fn)
                out.append("(* %s: %s *)" % (rel, label))
                out.append(text)
                rendered.append(label)
            except (Refuse, TranslateError) as ex:
                nxt.append((rel, target, trait, fn, str(ex)))
        if len(nxt) == len(pending):
            break
        pending = [x[:4] for x in nxt]
    for rel, target, trait, fn, why in nxt if 'nxt' in dir() else []:
        refused.append(("%s::%s" % (target, fn["name"]), why))
    # ---- index.rs, function by function (open recursion: the indexing of child nodes is a Section variable)
    idx = parse(repo, INDEX)
    ig = IxGen()
    ig.rendered = set()
    sec = ["", "Section IndexRs.",
           "  (* the indexing of child nodes (`child.index(ctx)`): parameters of every rendering below *)"]
    sec.append("  Variable db_files : list (list stmt).      (* the parsed files of the workspace (ctx.db.parse), by file number *)")
    sec.append("  (* CoreAst flattens a dag into (operator value?) ++ argument values and a !cond into its clause values: *)")
    sec.append("  Variable dag_split : list value -> option value * list value.")
    sec.append("  Variable cond_split : list value -> list (option value * option value).")
    for T, rt in IX_RET.items():
        sec.append("  Variable ix_%s : %s -> M %s." % (T, NODE_COQ[T], rt))
    for v in ("Include", "Def", "Defm", "Assert", "Class", "Defset", "Defvar", "Dump", "Foreach", "If", "Let", "MultiClass"):
        sec.append("  Variable ix_stmt_%s : stmt -> M unit." % v)
    for v in ("FieldDef", "FieldLet"):
        sec.append("  Variable ix_stmt_%s : item -> M unit." % v)
    for fnm, (cty, _, _) in FREE_FNS.items():
        sec.append("  Variable ix_%s : %s." % (fnm, cty))
    sec.append("")
    items = []
    if "utils" in idx["mods"]:
        for fn in idx["mods"]["utils"]["fns"]:
            items.append(("utils::" + fn["name"], None, fn))
    for target, trait, fns in idx["impls"]:
        if trait == "Indexable" and target.startswith("ast::"):
            for fn in fns:
                items.append(("impl Indexable for %s" % target, target[5:], fn))
    for fn in idx["fns"]:
        items.append((fn["name"], None, fn))
    # enum dispatchers last
    items.sort(key=lambda x: 1 if x[1] in ENUM_NODES else 0)      # (ENUM_NODES is complete by now)
    n_index_fns = 0
    ig.ctx_new_finish = ("IndexCtx::new" in rendered and "IndexCtx::finish" in rendered)
    items.sort(key=lambda x: 2 if x[0] == "index" else 0)          # the entry point last (stable: the dispatchers stay before it)
    for label, T, fn in items:
        n_index_fns += 1
        if label == "index" and not fn.get("unparsed"):
            try:
                text = ig.render_index(fn, "    ")
                sec.append("  (* %s: %s *)" % (INDEX, label))
                sec.append("  Definition src_index :=\n%s.\n" % text)
                rendered.append(label)
            except (Refuse, TranslateError) as ex:
                refused.append((label, str(ex)))
            continue
        if fn.get("unparsed"):
            refused.append((label, fn["unparsed"]))
            continue
        try:
            ig.used = []
            if T in ("ArgValue", "Include"):
                env, params, name, ret = {}, [], "", ""
            elif T is None and label == "utils::identifier":
                env = {"identifier": ("self", ("node", "Identifier")), "ctx": ("ctx", "ctx")}
                params = NODES["Identifier"][0]
                name, ret = "src_utils_identifier", "(name * rng)"
            elif T is None and label in ("resolve_class_ref_as_class", "resolve_class_ref_as_multiclass"):
                env = {"class_ref": ("self", ("node", "ClassRef")), "ctx": ("ctx", "ctx")}
                params = NODES["ClassRef"][0]
                name, ret = "src_" + label, "N"
            elif T is None and label == "check_template_args":
                env, params = {}, [("v_template_args", "list leaf"), ("v_arg_values", "list (option argv)"), ("v_range", "rng")]
                name, ret = "src_check_template_args", "unit"
            elif T is None and label == "index_name_value":
                env = {"value": ("v_value", ("node", "Value")), "ctx": ("ctx", "ctx")}
                params = [("v_value", "value")]
                name, ret = "src_index_name_value", "(name * rng)"
            elif T in ("Value", "InnerValue"):
                pn = NODES[T][0][0][0]
                env = {"self": (pn, ("node", T)), "ctx": ("ctx", "ctx")}
                params = NODES[T][0]
                name, ret = "src_ix_" + T, "mty"
            elif T is not None and (T in NODES or T in ENUM_NODES or T in VALUE_ENUMS):
                env = {"self": ("self", ("node", T)), "ctx": ("ctx", "ctx")}
                params = NODES[T][0] if T in NODES else [("self_node", ENUM_NODES[T][0] if T in ENUM_NODES else NODE_COQ[T])]
                name, ret = "src_ix_" + T, IX_RET.get(T, "unit")
            else:
                raise Refuse("%s:%d: no entry in the node table" % (INDEX, fn["line"]))
            body = fn["body"]
            if T == "ArgValue":
                params, name, ret = [("self_node", "arg")], "src_ix_ArgValue", "argv"
                text = ig.render_ArgValue(fn, "    ")
            elif T == "Include":
                params, name, ret = [("n_r", "rng"), ("n_target", "option N")], "src_ix_Include", "unit"
                text = ig.render_Include(fn, "    ")
            elif label == "check_template_args":
                text = ig.render_check_template_args(fn, "    ")
                params = ig.cta_params
            else:
                text = ig.seq(body[1], 0, body[2], env, "    ")
            sec.append("  (* %s: %s *)" % (INDEX, label))
            sec.append("  Definition %s %s : M %s :=\n%s.\n" % (name, " ".join("(%s : %s)" % p for p in params), ret, text))
            rendered.append(label)
            if T:
                ig.rendered.add(T)
        except (Refuse, TranslateError) as ex:
            refused.append((label, str(ex)))
    sec.append("End IndexRs.")
    out.extend(sec)
    out.append("(* index.rs: %d fns *)" % n_index_fns)
    out.append("(* rendered (%d): %s *)" % (len(rendered), ", ".join(rendered)))
    for label, why in refused:
        out.append("(* not rendered: %s: %s *)" % (label, why.replace("*)", "* )")))
    return {"GenIndexer.v": "\n".join(out)}


if __name__ == "__main__":
    import sys
    print(translate(sys.argv[1] if len(sys.argv) > 1 else "/repo")["GenIndexer.v"])
