"""T-libglue: the glue of crates/syntax/src/lib.rs -> coq/gen/GenLibGlue.v

`pub fn parse`, `impl Parse { syntax_node, source_file, errors }`, `impl rowan::Language for Language { kind_from_raw,
kind_to_raw }` (and the one-line `impl From<SyntaxKind> for rowan::SyntaxKind` of syntax_kind.rs that kind_to_raw goes through)
rendered statement by statement with the parser of t_astmethods.py (t_lineindex's + extensions) over the GENERATED
constructors g_new (lexer.rs), gp_new (preprocessor.rs), gpr_new / gpr_finish (parser.rs) and model/LibGlueApi.v.
`grammar::source_file(&mut parser)` is the grammar program: the rendering takes the interpreter run as a parameter
(`run_source_file : gps -> gres`, instantiated with GenParserEq.ggexec .. (ECall entry None) []).
The subset is exactly what these six functions use; anything else raises TranslateError (a broken tie)."""
import re
from rsutil import TranslateError, read, strip_comments, cut_tests
import t_lineindex as TL
from t_astmethods import AP, brace

SRC = "crates/syntax/src/lib.rs"
KSRC = "crates/syntax/src/syntax_kind.rs"


def fn_items(src, rel):
    out = {}
    for m in re.finditer(r"\bfn\s+(\w+)\s*\(", src):
        st = m.start()
        b = src.index("{", brace(src, src.index("(", st), "(", ")"))
        e = brace(src, b)
        line = 1 + src.count("\n", 0, st)
        p = AP(TL.tokenize(src[st:e + 1], rel, line), rel)
        fn = p.fn()
        if p.peek().kind != "EOF":
            p.err("trailing tokens after fn %s" % m.group(1))
        if m.group(1) in out:
            raise TranslateError("%s: duplicate fn %s" % (rel, m.group(1)))
        out[m.group(1)] = fn
    return out


def fail(rel, fn, msg):
    raise TranslateError("%s:%s: fn %s: %s" % (rel, fn.get("line", "?"), fn["name"], msg))


def is_path(e, *p):
    return e[0] == "path" and e[1] == list(p)


def render_parse(fn):
    """straight-line glue: every statement by its rule; `cont` is built backwards"""
    if [q[0] for q in fn["params"]] != ["text"]:
        fail(SRC, fn, "expected the single parameter `text`")
    stmts, tail = fn["body"][1], fn["body"][2]
    env = {"text": "text"}          # name -> sort

    def var(e, sort):
        if e[0] == "path" and len(e[1]) == 1 and env.get(e[1][0]) == sort:
            return e[1][0]
        fail(SRC, fn, "expected a local of sort %s, got %r" % (sort, e[:2]))
    # the tail: Parse { green_node, errors }
    if tail is None or tail[0] != "struct" or tail[1] != ["Parse"]:
        fail(SRC, fn, "the result must be the struct literal Parse { green_node, errors }")
    steps = []
    for s in stmts:
        if s[0] == "let":
            pat, _ty, e, els = s[1], s[2], s[3], s[4]
            if els is not None:
                fail(SRC, fn, "let-else")
            if pat[0] == "pmut":
                pat = pat[1]
            if e[0] == "call" and is_path(e[1], "Lexer", "new") and pat[0] == "pbind":
                a = var(e[2][0], "text")
                steps.append("let %s := g_new %s in" % (pat[1], a))
                env[pat[1]] = "lexer"
            elif e[0] == "call" and is_path(e[1], "PreProcessor", "new") and pat[0] == "pbind":
                a = var(e[2][0], "lexer")
                steps.append("let %s := gp_new %s in" % (pat[1], a))
                env[pat[1]] = "prep"
            elif e[0] == "call" and is_path(e[1], "Parser", "new") and pat[0] == "pbind":
                a = var(e[2][0], "prep")
                steps.append("match gpr_new %s with (FPanic, _) => GParsePanic | (FOof, _) => GParseOOF | (FNorm %s, _) =>" % (a, pat[1]))
                env[pat[1]] = "parser"
            elif e[0] == "mcall" and e[2] == "finish" and not e[3] and pat[0] == "ptuple" and len(pat[1]) == 2 \
                    and all(q[0] == "pbind" for q in pat[1]):
                a = var(e[1], "parser")
                g, es = pat[1][0][1], pat[1][1][1]
                steps.append("match gpr_finish %s with (FNorm (%s, %s), _) =>" % (a, g, es))
                env.pop(a)
                env[g], env[es] = "green", "errors"
            else:
                fail(SRC, fn, "unsupported let")
        elif s[0] == "expr" or s[0] == "semi":
            e = s[1]
            if e[0] == "call" and is_path(e[1], "grammar", "source_file") and len(e[2]) == 1 and e[2][0][0] == "un" \
                    and e[2][0][1] == "&mut":
                a = var(e[2][0][2], "parser")
                steps.append("match run_source_file %s with GVal _ _ %s | GRet _ _ %s =>" % (a, a, a))
            else:
                fail(SRC, fn, "unsupported statement")
        else:
            fail(SRC, fn, "unsupported statement %s" % s[0])
    fields = dict((f[0], f[1]) for f in tail[2])
    if set(fields) != {"green_node", "errors"}:
        fail(SRC, fn, "Parse { .. } must have exactly the fields green_node, errors")
    g = var(fields["green_node"], "green")
    es = var(fields["errors"], "errors")
    body = "GParseOk %s %s" % (g, es)
    for st in reversed(steps):
        if st.startswith("let "):
            body = "%s %s" % (st, body)
        elif st.startswith("match gpr_new"):
            body = "%s %s end" % (st, body)
        elif st.startswith("match run_source_file"):
            body = "%s %s | GBrk _ _ => GParsePanic | GPanic => GParsePanic | GOOF => GParseOOF end" % (st, body)
        else:
            body = "%s %s | _ => GParsePanic end" % (st, body)
    return "Definition glib_parse (run_source_file : gps -> gres) (text : text) : gparse_out :=\n  %s.\n" % body


def single_tail(rel, fn):
    if fn["body"][1] or fn["body"][2] is None:
        fail(rel, fn, "expected a body that is one expression")
    return fn["body"][2]


def translate(repo):
    src = cut_tests(strip_comments(read(repo, SRC)))
    ksrc = cut_tests(strip_comments(read(repo, KSRC)))
    norm = re.sub(r"\s+", "", src)
    for frag, what in (("pubstructParse{green_node:GreenNode,errors:Vec<SyntaxError>,}", "struct Parse { green_node: GreenNode, errors: Vec<SyntaxError> }"),
                       ("pubtypeSyntaxNode=rowan::SyntaxNode<Language>;", "type SyntaxNode = rowan::SyntaxNode<Language>"),
                       ("implrowan::LanguageforLanguage{typeKind=SyntaxKind;", "impl rowan::Language for Language { type Kind = SyntaxKind; .. }")):
        if frag not in norm:
            raise TranslateError("%s: item `%s` not found / changed" % (SRC, what))
    fns = fn_items(src, SRC)
    want = {"parse", "syntax_node", "source_file", "errors", "kind_from_raw", "kind_to_raw"}
    if set(fns) != want:
        raise TranslateError("%s: functions %s, expected %s" % (SRC, sorted(fns), sorted(want)))
    o = ["(* GENERATED by tools/translate/t_libglue.py from crates/syntax/src/lib.rs (+ From<SyntaxKind> of syntax_kind.rs) -- do not edit *)",
         "From Coq Require Import List NArith Bool String.",
         "From TG.Gen Require Import GenTokens GenLexer GenPrep GenParser.",
         "From TG.Model Require Import Chars Tree ScanMonad PrepMonad ParserPrims ParserMonad GInterp LibGlueApi.",
         "From TG.Proofs Require Import GenParserEq.", "Import ListNotations.", ""]
    o.append("(* struct Parse *)\nRecord parse_rec := mk_parse { pr_green : tree; pr_errors : list syntax_error }.\n")
    o.append("(* fn parse *)\n" + render_parse(fns["parse"]))
    # Parse::syntax_node
    t = single_tail(SRC, fns["syntax_node"])
    if not (t[0] == "call" and is_path(t[1], "SyntaxNode", "new_root") and len(t[2]) == 1 and t[2][0][0] == "mcall"
            and t[2][0][2] == "clone" and t[2][0][1][0] == "field" and is_path(t[2][0][1][1], "self") and t[2][0][1][2] == "green_node"):
        fail(SRC, fns["syntax_node"], "expected SyntaxNode::new_root(self.green_node.clone())")
    o.append("(* fn Parse::syntax_node *)\nDefinition glib_syntax_node (self_ : parse_rec) : lib_node := rw_new_root (pr_green self_).\n")
    # Parse::source_file
    t = single_tail(SRC, fns["source_file"])
    if not (t[0] == "call" and t[1][0] == "path" and len(t[1][1]) == 3 and t[1][1][0] == "ast" and t[1][1][2] == "cast"
            and len(t[2]) == 1 and t[2][0][0] == "mcall" and is_path(t[2][0][1], "self") and t[2][0][2] == "syntax_node"):
        fail(SRC, fns["source_file"], "expected ast::<Struct>::cast(self.syntax_node())")
    o.append("(* fn Parse::source_file *)\nDefinition glib_source_file (self_ : parse_rec) : option lib_node := ast_cast S_%s (glib_syntax_node self_).\n" % t[1][1][1])
    # Parse::errors
    t = single_tail(SRC, fns["errors"])
    if not (t[0] == "un" and t[1] == "&" and t[2][0] == "field" and is_path(t[2][1], "self") and t[2][2] == "errors"):
        fail(SRC, fns["errors"], "expected &self.errors")
    o.append("(* fn Parse::errors *)\nDefinition glib_errors (self_ : parse_rec) : list syntax_error := pr_errors self_.\n")
    # From<SyntaxKind> for rowan::SyntaxKind
    kn = re.sub(r"\s+", "", ksrc)
    if "implFrom<SyntaxKind>forrowan::SyntaxKind{fnfrom(kind:SyntaxKind)->Self{Self(kindasu16)}}" not in kn:
        raise TranslateError("%s: `impl From<SyntaxKind> for rowan::SyntaxKind { fn from(kind) -> Self { Self(kind as u16) } }` not found / changed" % KSRC)
    t = single_tail(SRC, fns["kind_to_raw"])
    if not (t[0] == "mcall" and t[2] == "into" and not t[3] and t[1][0] == "path" and t[1][1] == [fns["kind_to_raw"]["params"][0][0]]):
        fail(SRC, fns["kind_to_raw"], "expected <param>.into()")
    o.append("(* fn Language::kind_to_raw  (through From<SyntaxKind> for rowan::SyntaxKind: Self(kind as u16)) *)\n"
             "Definition glib_kind_to_raw (kind : SyntaxKind) : nat := sk_as_u16 kind.\n")
    # kind_from_raw
    f = fns["kind_from_raw"]
    raw = f["params"][0][0]
    st, tl = f["body"][1], f["body"][2]
    ok = (len(st) == 1 and st[0][0] in ("expr", "semi") and st[0][1][0] == "macro" and st[0][1][1] == ["assert"])
    if ok:
        c = st[0][1][2]
        ok = (len(c) == 1 and c[0][0] == "bin" and c[0][1] == "<" and c[0][2][0] == "field" and is_path(c[0][2][1], raw) and c[0][2][2] == "0"
              and c[0][3][0] == "as" and is_path(c[0][3][1], "SyntaxKind", "__LAST") and c[0][3][2] == "u16")
    if ok:
        ok = (tl is not None and tl[0] == "unsafe" and not tl[1][1] and tl[1][2] is not None and tl[1][2][0] == "call"
              and tl[1][2][1][0] == "path" and tl[1][2][1][1][-1] == "transmute" and len(tl[1][2][2]) == 1
              and tl[1][2][2][0][0] == "field" and is_path(tl[1][2][2][0][1], raw) and tl[1][2][2][0][2] == "0")
    if not ok:
        fail(SRC, f, "expected `assert!(raw.0 < SyntaxKind::__LAST as u16); unsafe { std::mem::transmute(raw.0) }`")
    o.append("(* fn Language::kind_from_raw: None = panic (the assert!, or transmute outside the enum) *)\n"
             "Definition glib_kind_from_raw (raw : nat) : lm SyntaxKind :=\n"
             "  if Nat.ltb raw sk_last then sk_transmute raw else lm_panic.\n")
    return {"GenLibGlue.v": "\n".join(o)}
