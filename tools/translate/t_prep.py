"""T-prep: crates/syntax/src/preprocessor.rs -> coq/gen/GenPrep.v

Renders EVERY function of preprocessor.rs (`impl TokenStream for PreProcessor<T>`: eat, cursor, text, take_error;
`new`, `define_macro`, `macros`, `next_token`, `error`, `process_if`, `process_else`, `process_endif`,
`process_define`, `next_not_trivia`, `eat_until_else_or_endif`) and the enum `IfKind` as Gallina in the SHALLOW
state-monad embedding of coq/model/PrepMonad.v, one definition `gp_<name>` per Rust function, statement by statement,
in source order of effects.  Tokenizer, parser and the statement / expression / match generator are those of
t_lexer.py (imported and subclassed); added here:

  * `struct PreProcessor<T: TokenStream> { token_stream, macros, error, open_conditionals }` (exactly these fields
    and types) -> the record PrepMonad.pp; `Self { .. }` -> `mk_pp`
  * `self.token_stream.eat() / .cursor() / .text(a..b) / .take_error()` -> `ts_eat / ts_cursor / ts_text / ts_take_error`
    (PrepMonad binds them to the GENERATED lexer functions GenLexer.g_*: the instance T = Lexer)
  * `self.open_conditionals` (read, `= e`, `+= e`), `.saturating_sub(e)`; `self.error` (`= e`, `.is_some()`, `.take()`);
    `self.macros.insert(x) / .contains(x)`, `&self.macros`, `HashSet::new()`
  * `self.f(..)` -> `call (gp_f ..)`; every function is closed by `pfn_body` (`return e;` with a value of ANY type)
  * tuples `(a, b)`; patterns `(p, q)`, `TokenKind::X`, `T![..]`, `Enum::Variant`, `true / false`, bindings, `_`, `a | b`,
    guards; `if let p | q = e { .. }` without bindings; a field-less `enum` -> an Inductive with a boolean equality
  * a `loop` without `break` in tail position of a function: the code after it is `p_unreachable`
Not semantic and normalised away: comments, formatting, attributes, `use`, lifetimes, visibility, the test module.
Anything outside this subset raises TranslateError with file and line: a broken tie, never silently skipped."""
import re
from rsutil import TranslateError, read, strip_comments, cut_tests
import t_tokens
from t_lexer import Parser, tokenize, Gen, pretty

SRC = "crates/syntax/src/preprocessor.rs"
STRUCT = "PreProcessor"
FIELDS = [("token_stream", "T"), ("macros", "HashSet<EcoString>"), ("error", "Option<EcoString>"),
          ("open_conditionals", "usize")]
IMPLS = ["< T : TokenStream > TokenStream for PreProcessor < T >", "< T : TokenStream > PreProcessor < T >"]
TRAIT_FNS = {"eat": ("mut", [], "TokenKind"), "cursor": ("ref", [], "usize"), "text": ("ref", ["Range<usize>"], "str"),
             "take_error": ("mut", [], "Option<EcoString>")}
TYPES = {"usize": "N", "TokenKind": "TokenKind", "bool": "bool", "str": "text", "Range<usize>": "(N * N)%type",
         "Option<EcoString>": "(option string)", "implInto<EcoString>": "string", "EcoString": "text", "T": "lx",
         "Self": "pp", "HashSet<EcoString>": "(list text)", "(usize,TokenKind)": "(N * TokenKind)%type"}


class PGen(Gen):
    RET, EARLY, UNREACH, LOOP, FUEL = "pret", "pearly", "p_unreachable", "p_loop", "p_loop_fuel"
    SRC = SRC
    # canonical names of the private functions in call-graph discovery order (t_lexer.Gen.canonicalize)
    CANON_PRIVATE = ["next_token", "process_if", "next_not_trivia", "eat_until_else_or_endif", "error", "process_else",
                     "process_endif", "process_define"]

    def __init__(self, repo):
        tt = t_tokens.parse(repo)
        self.T = tt["T"]
        self.tks = set(tt["tks"])
        src = cut_tests(strip_comments(read(repo, SRC)))
        m = re.search(r"#!?\[\s*(cfg|cfg_attr|path|macro_use)\b", src)
        if m:                                   # conditional compilation would make the rendering depend on features
            raise TranslateError("%s:%d: attribute `%s` outside the test module is outside the subset"
                                 % (SRC, src.count("\n", 0, m.start()) + 1, m.group(0)))
        if not re.search(r"\bstruct\s+%s\s*<\s*T\s*:\s*TokenStream\s*>\s*\{" % STRUCT, src):
            raise TranslateError("%s: expected `struct %s<T: TokenStream> {`" % (SRC, STRUCT))
        p = Parser(tokenize(src, SRC), SRC)
        self.fns, self.structs = p.items()
        self.enums = p.enums
        if list(self.structs) != [STRUCT] or self.structs[STRUCT] != FIELDS:
            raise TranslateError("%s: struct %s must have exactly the fields %s (found %s)"
                                 % (SRC, STRUCT, ", ".join("%s: %s" % f for f in FIELDS), self.structs))
        self.by_name = {}
        self.cur_line = 0
        for f in self.fns:
            if f["name"] in self.by_name:
                raise TranslateError("%s:%d: two functions named %s" % (SRC, f["line"], f["name"]))
            if f["impl"] not in IMPLS:
                raise TranslateError("%s:%d: fn %s: unexpected impl header `%s`" % (SRC, f["line"], f["name"], f["impl"]))
            self.by_name[f["name"]] = f
        # the TokenStream impl: exactly the four functions of the trait, with the trait's signatures
        got = {f["name"] for f in self.fns if f["impl"] == IMPLS[0]}
        if got != set(TRAIT_FNS):
            raise TranslateError("%s: `impl TokenStream for %s` must define exactly %s (found %s)"
                                 % (SRC, STRUCT, sorted(TRAIT_FNS), sorted(got)))
        for n, (selfk, ptys, ret) in TRAIT_FNS.items():
            f = self.by_name[n]
            if (f["self"], [t for _, t in f["params"]], f["ret"]) != (selfk, ptys, ret):
                raise TranslateError("%s:%d: fn %s does not have the signature of TokenStream::%s" % (SRC, f["line"], n, n))
        for en, vs in self.enums.items():
            if en in TYPES or not vs or len(set(vs)) != len(vs):
                raise TranslateError("%s: bad enum %s" % (SRC, en))
        self.tmp = 0
        self.canonicalize()

    def fail(self, line, msg):
        raise TranslateError("%s:%d: %s" % (SRC, line or self.cur_line, msg))

    def ty(self, t, line):
        if t in self.enums:
            return t
        if t not in TYPES:
            self.fail(line, "type %s is outside the subset" % t)
        return TYPES[t]

    def ctor(self, enum, variant, line):
        if variant not in self.enums[enum]:
            self.fail(line, "unknown variant %s::%s" % (enum, variant))
        return "%s_%s" % (enum, variant)

    # ------------------------------------------------------------------ fields of self
    def field_read(self, field, line):
        if field == "open_conditionals":
            return ("m", "get_open")
        if field == "error":
            return ("m", "get_perror")
        if field == "macros":
            return ("m", "get_macros")
        self.fail(line, "read of self.%s is outside the subset" % field)

    def assign_field(self, field, op, e, ctx, line):
        if field == "open_conditionals" and op == "=":
            return self.lift([e], ctx, lambda a: ("m", "set_open (%s)" % a[0]))
        if field == "open_conditionals" and op == "+=":
            rhs = ("arith", "+", ("field", ("path", ["self"], line), field), e)
            return self.lift([rhs], ctx, lambda a: ("m", "set_open (%s)" % a[0]))
        if field == "error" and op == "=":
            return self.lift([e], ctx, lambda a: ("m", "set_perror (%s)" % a[0]))
        self.fail(line, "`self.%s %s ..` is outside the subset" % (field, op))

    # ------------------------------------------------------------------ expressions
    def E(self, e, ctx):
        t = e[0]
        if t == "tuple":
            if len(e[1]) != 2:
                self.fail(e[2], "only pairs are inside the subset")
            return self.lift(e[1], ctx, lambda a: ("p", "(%s, %s)" % (a[0], a[1])))
        if t == "ref":
            if e[1][0] == "field" and self.is_self(e[1][1]) and e[1][2] == "macros":
                return self.field_read("macros", e[2])
            self.fail(e[2], "references other than `&self.macros` are outside the subset")
        if t == "field":
            if self.is_self(e[1]):
                if not ctx["self_ok"]:
                    self.fail(0, "self used in a pure context")
                return self.field_read(e[2], 0)
            self.fail(0, "field access .%s is outside the subset" % e[2])
        if t == "path" and len(e[1]) == 2 and e[1][0] in self.enums:
            return ("p", self.ctor(e[1][0], e[1][1], e[2]))
        if t == "struct":
            if e[1] != ["Self"] or [f for f, _ in e[2]] != [f for f, _ in FIELDS]:
                self.fail(e[3], "only `Self { %s }` is supported" % ", ".join(f for f, _ in FIELDS))
            return self.lift([x for _, x in e[2]], ctx, lambda a: ("p", "mk_pp (%s) (%s) (%s) (%s)" % tuple(a)))
        if t in ("char", "closure", "cast", "matches"):
            self.fail(0, "expression %r is outside the subset" % (t,))
        return super().E(e, ctx)

    def call(self, e, ctx):
        f, args, line = e[1], e[2], e[3]
        if f[0] == "path" and f[1] == ["Some"] and len(args) == 1:
            return self.lift(args, ctx, lambda a: ("p", "Some (%s)" % a[0]))
        if f[0] == "path" and f[1] == ["HashSet", "new"] and not args:
            return ("p", "hashset_new")
        self.fail(line, "call of %s is outside the subset" % ("::".join(f[1]) if f[0] == "path" else "an expression"))

    def method(self, e, ctx):
        recv, m, fish, args, line = e[1], e[2], e[3], e[4], e[5]
        if fish is not None:
            self.fail(line, "turbofish is outside the subset")
        # self.<fn>(..)
        if self.is_self(recv):
            if not ctx["self_ok"]:
                self.fail(line, "self used in a pure context")
            f = self.by_name.get(m)
            if f is None or f["self"] is None:
                self.fail(line, "unknown method self.%s" % m)
            if len(args) != len(f["params"]):
                self.fail(line, "self.%s expects %d arguments" % (m, len(f["params"])))
            # a string literal is a Coq string exactly where the parameter is `impl Into<EcoString>` (a message)
            c2 = dict(ctx, str_as="string") if any(t == "implInto<EcoString>" for _, t in f["params"]) else ctx
            return self.lift(args, c2, lambda a: ("m", "call (gp_%s%s)" % (self.cn(m), "".join(" (%s)" % x for x in a))))
        if recv[0] == "field" and self.is_self(recv[1]):
            if not ctx["self_ok"]:
                self.fail(line, "self used in a pure context")
            fld = recv[2]
            # the inner stream  T: TokenStream
            if fld == "token_stream":
                if m in ("eat", "cursor", "take_error") and not args:
                    return ("m", "ts_" + m)
                if m == "text" and len(args) == 1:
                    return self.lift(args, ctx, lambda a: ("m", "ts_text %s" % a[0]))
                self.fail(line, "self.token_stream.%s is not a function of TokenStream" % m)
            if fld == "macros":
                if m in ("insert", "contains") and len(args) == 1:
                    return self.lift(args, ctx, lambda a: ("m", "macros_%s (%s)" % (m, a[0])))
                self.fail(line, "self.macros.%s is outside the subset" % m)
            if fld == "error" and m == "take" and not args:
                return ("m", "take_perror")
            if fld not in ("error", "open_conditionals"):
                self.fail(line, "self.%s.%s is outside the subset" % (fld, m))
        # methods on values
        if m == "is_trivia" and not args:
            return self.lift([recv], ctx, lambda a: ("p", "is_trivia %s" % a[0]))
        if m == "into" and not args:
            return self.E(recv, ctx)
        if m == "saturating_sub" and len(args) == 1:
            return self.lift([recv, args[0]], ctx, lambda a: ("p", "saturating_sub %s %s" % (a[0], a[1])))
        if m == "is_some" and not args:
            return self.lift([recv], ctx, lambda a: ("p", "opt_is_some (%s)" % a[0]))
        self.fail(line, "method .%s() is outside the subset" % m)

    # ------------------------------------------------------------------ patterns
    def pat_test(self, p, v, line):
        k = p[0]
        if k == "tmac":
            if p[1] not in self.T:
                self.fail(p[2], "T![%s] unknown" % p[1])
            return "tk_eqb %s T_%s" % (v, self.T[p[1]]), []
        if k == "path":
            path = p[1]
            if len(path) == 2 and path[0] == "TokenKind":
                return "tk_eqb %s %s" % (v, self.kind(path[1], p[2])), []
            if len(path) == 2 and path[0] in self.enums:
                return "%s_eqb %s %s" % (path[0], v, self.ctor(path[0], path[1], p[2])), []
            self.fail(p[2], "unsupported pattern %s" % "::".join(path))
        if k == "bool":
            return "Bool.eqb %s %s" % (v, "true" if p[1] else "false"), []
        if k == "tuple":
            if len(p[1]) != 2:
                self.fail(line, "only pair patterns are inside the subset")
            t1, b1 = self.pat_test(p[1][0], "(fst %s)" % v, line)
            t2, b2 = self.pat_test(p[1][1], "(snd %s)" % v, line)
            tests = [t for t in (t1, t2) if t != "true"]
            test = "true" if not tests else tests[0] if len(tests) == 1 else "(%s && %s)" % (tests[0], tests[1])
            return test, b1 + b2
        if k == "bind":
            if not (p[1][0].islower() or p[1][0] == "_"):
                self.fail(line, "binding pattern `%s` does not start with a lower-case letter (a constant?)" % p[1])
            return super().pat_test(p, v, line)
        if k == "wild":
            return super().pat_test(p, v, line)
        self.fail(line, "unsupported pattern %r" % (p,))

    def cond(self, c, ctx):
        if c[0] == "iflet":
            pats = c[1][1] if c[1][0] == "or" else [c[1]]
            v = self.fresh("v")

            def f(a):
                test, binds = self.pats_test(pats, v, 0)
                if binds:
                    self.fail(0, "bindings in `if let` patterns are outside the subset")
                return ("p", "(let %s := %s in %s)" % (v, a[0], test))
            return self.lift([c[2]], ctx, f), None
        return super().cond(c, ctx)

    # ------------------------------------------------------------------ statements
    def stmts(self, sts, i, ctx, tail):
        if i == len(sts) - 1 and sts[i][0] == "loop" and tail[0] == "value" and ctx.get("loop") is None \
                and not self.has(sts[i][1], "break") and len(sts[i]) == 3:
            # `loop` without `break` has type `!`: nothing after it is ever executed
            line = sts[i][2]
            return super().stmts(sts + [("expr", ("unreachable", line), True, line)], i, ctx, tail)
        if i < len(sts) and sts[i][0] == "while":
            self.fail(sts[i][-1], "`while` is outside the subset")
        return super().stmts(sts, i, ctx, tail)

    # ------------------------------------------------------------------ functions
    def function(self, f):
        self.tmp = 0
        name, line = f["name"], f["line"]
        self.cur_line = line
        params = [(self.var(p), self.ty(t, line)) for p, t in f["params"]]
        ps = "".join(" (%s : %s)" % p for p in params)
        ret = self.ty(f["ret"], line) if f["ret"] else "unit"
        if f["self"] == "val":
            self.fail(line, "`self` by value is outside the subset")
        ctx = {"locals": {p for p, _ in f["params"]}, "muts": set(), "self_ok": f["self"] is not None,
               "can_return": f["self"] is not None, "loop": None}
        if f["self"] is None:
            if f["ret"] != "Self":
                self.fail(line, "a function without `self` must be a constructor (-> Self)")
            k, t = self.block_value(f["body"], ctx)
            if k != "p":
                self.fail(line, "constructor %s is not a pure expression" % name)
            return "Definition gp_%s%s : %s :=\n  %s." % (self.cn(name), ps, ret, t)
        body = self.stmts(f["body"][1], 0, ctx, ("value",))
        return "Definition gp_%s%s : PF %s :=\n  pfn_body (%s)." % (self.cn(name), ps, ret, body)

    def enum_defs(self):
        out = []
        for en, vs in self.enums.items():
            cs = ["%s_%s" % (en, v) for v in vs]
            out.append("(* enum %s *)" % en)
            out.append("Inductive %s : Type := %s." % (en, " | ".join(cs)))
            rows = " | ".join("%s, %s => true" % (c, c) for c in cs)
            out.append("Definition %s_eqb (a b : %s) : bool :=\n  match a, b with %s%s end."
                       % (en, en, rows, " | _, _ => false" if len(cs) > 1 else ""))
            out.append("")
        return out


def translate(repo):
    g = PGen(repo)
    o = ["(* GENERATED by tools/translate/t_prep.py from crates/syntax/src/preprocessor.rs -- do not edit *)",
         "From Coq Require Import List NArith Bool String.",
         "From TG.Gen Require Import GenTokens.",
         "From TG.Model Require Import Chars ScanMonad PrepMonad.",
         "Import ListNotations.", "Open Scope N_scope.", "Open Scope p_scope.", ""]
    o += g.enum_defs()
    names = g.order()
    for n in names:
        f = g.by_name[n]
        o.append("(* fn %s  [impl %s] *)" % (g.cn(n), f["impl"]))
        o.append(pretty(g.function(f)))
        o.append("")
    o.append("Definition gen_prep_functions : list string :=\n  [ %s ]%%string." % "; ".join('"%s"' % g.cn(n) for n in names))
    return {"GenPrep.v": "\n".join(o) + "\n"}


if __name__ == "__main__":
    import sys
    print(translate(sys.argv[1] if len(sys.argv) > 1 else "/repo")["GenPrep.v"])
