"""T-panicsites (group C03; maintained by group grammar): inventory of every panic site of the `ide` crate outside test
code: `panic!`, `unreachable!`, `unimplemented!`, `todo!`, `(debug_)assert*!`, `.unwrap()`, `.expect(..)` (+ `_err`
variants), index expressions `x[..]` (slice / map indexing), and calls of library functions that assert their arguments
(rowan `covering_element`, `token_at_offset`, `TextRange::new`, iset `insert` / `iter` with a possibly empty range).
Output: coq/gen/GenPanicSites.v with
  panic_sites : list (string * string * string * string * nat)
                     (file, enclosing fn, kind of construct, callee / macro name, ordinal)
The IDENTITY of a site deliberately contains no source text:
  * kind    = "macro" | "method" | "index" | "libcall"
  * callee  = macro name (`panic`, `assert_eq`, ..) | method name (`unwrap`, `expect`, ..) | for an index expression
              `self.<field>` when a field of self is indexed and `_` otherwise (locals / parameters / temporaries are all
              `_`) | the library function (`covering_element`, `token_at_offset`, `TextRange::new`, `iset.iter(range)`,
              `iset.insert(range)`)
  * ordinal = number of earlier sites with the same (file, fn, kind, callee), in source order
  * enclosing fn = innermost `fn` item whose body contains the site (brace matching on the comment- and literal-free
              text), `<top>` outside every fn; methods of the same name in one file share a name space.
Hence renaming locals / parameters / closure parameters, changing comments, messages of `expect` / `panic!`, white space or
line breaks does not change the inventory; an ADDED site (new ordinal), a site that MOVES to another function or file, or
a site whose construct changes does.  The readable text of every site is emitted as a Coq comment only.
The disposition of each site (proved / oracle / other property) lives in proofs/SymbolPanicSites.v; a site without a
disposition breaks the obligation `C03_panic_sites_inventoried`."""
import os
import re

# ---- comment / literal stripping (keeps offsets irrelevant; literals are replaced by `""` / `' '`)
_LEX = re.compile(
    r'//[^\n]*'                                   # line comment (incl. doc comments)
    r'|/\*'                                       # block comment start (nesting handled by hand)
    r'|b?r(#*)"'                                  # raw string start
    r'|b?"(?:\\.|[^"\\])*"'                       # string literal
    r"|b?'(?:\\(?:x[0-9a-fA-F]{2}|u\{[0-9a-fA-F_]+\}|.)|[^\\'\n])'",   # char / byte literal (a lifetime has no closing quote)
    re.S)


def strip_source(src):
    """returns (code, literals): code without comments, every string literal replaced by "<n>" where n indexes literals"""
    out, lits = [], []
    i = 0
    while True:
        m = _LEX.search(src, i)
        if not m:
            out.append(src[i:])
            break
        out.append(src[i:m.start()])
        t = m.group(0)
        if t.startswith("//"):
            out.append(" ")
            i = m.end()
        elif t == "/*":
            depth, j = 1, m.end()
            while depth and j < len(src):
                if src.startswith("/*", j):
                    depth += 1
                    j += 2
                elif src.startswith("*/", j):
                    depth -= 1
                    j += 2
                else:
                    j += 1
            out.append(" ")
            i = j
        elif t.endswith('"') and m.group(1) is not None and re.match(r'b?r#*"$', t):
            close = '"' + m.group(1)
            j = src.find(close, m.end())
            j = len(src) if j < 0 else j
            lits.append(src[m.end():j])
            out.append('"%d"' % (len(lits) - 1))
            i = j + len(close)
        elif t.endswith('"'):
            lits.append(t[t.index('"') + 1:-1])
            out.append('"%d"' % (len(lits) - 1))
            i = m.end()
        else:
            out.append("' '")
            i = m.end()
    return "".join(out), lits


MACROS = ("panic", "unreachable", "unimplemented", "todo", "debug_assert_eq", "debug_assert_ne", "debug_assert",
          "assert_eq", "assert_ne", "assert")
METHODS = ("unwrap", "expect", "unwrap_err", "expect_err")
TOKEN = re.compile(
    r'(?P<fn>\bfn\s+(?P<fname>[A-Za-z_][A-Za-z0-9_]*))'
    r'|(?P<macro>\b(?:%s)\s*!\s*[\(\[\{])' % "|".join(MACROS) +
    r'|(?P<method>\.\s*(?:%s)\s*\()' % "|".join(METHODS) +
    r'|(?P<lib>\b(?:covering_element|token_at_offset)\s*\(|\bTextRange\s*::\s*new\s*\('
    r'|\.\s*iter\s*\(\s*[A-Za-z0-9_\.]+\.range\s*\)|\.\s*insert\s*\(\s*[A-Za-z0-9_\.]+\.range\s*\.\s*into\s*\(\s*\))'
    r'|(?P<index>(?<=[A-Za-z0-9_\)\]\?])\[)'
    r'|(?P<open>[\{\(\[])|(?P<close>[\}\)\]])|(?P<semi>;)')
INDEX_BASE = re.compile(r'(self\s*\.\s*[A-Za-z_][A-Za-z0-9_]*)\s*$')
KEYWORDS_BEFORE_BRACKET = re.compile(r'\b(?:in|return|break|else|match|if|while|mut|ref|move|as|let|const|static|dyn|impl|for|where)$')


def _snippet(code, lits, start, n=48):
    s = re.sub(r"\s+", " ", code[start:start + n].split("\n")[0]).strip()
    return re.sub(r'"(\d+)"', lambda m: '"%s"' % lits[int(m.group(1))].replace("\n", " ")[:40], s)


def sites_of(path, rel):
    src = open(path, encoding="utf-8").read()
    cut = src.find("#[cfg(test)]")          # test modules sit at the end of every file of this crate
    if cut >= 0:
        src = src[:cut]
    code, lits = strip_source(src)
    out, counts = [], {}
    stack = []                  # (fn name, brace depth of its body)
    pending = None              # (fn name, bracket depth at the `fn` keyword): waiting for the body `{` or a `;`
    depth = 0                   # depth over all of { ( [

    def add(kind, callee, pos):
        fn = stack[-1][0] if stack else "<top>"
        key = (rel, fn, kind, callee)
        n = counts.get(key, 0)
        counts[key] = n + 1
        out.append((rel, fn, kind, callee, n, _snippet(code, lits, pos)))

    for m in TOKEN.finditer(code):
        if m.group("fn"):
            pending = (m.group("fname"), depth)
        elif m.group("macro"):
            add("macro", re.match(r'[a-z_]+', m.group("macro")).group(0), m.start())
            depth += 1                                  # the macro's opening delimiter
        elif m.group("method"):
            add("method", re.search(r'[a-z_]+', m.group("method")).group(0), m.start())
            depth += 1
        elif m.group("lib"):
            t = re.sub(r"\s+", "", m.group("lib"))
            if t.startswith(".iter("):
                add("libcall", "iset.iter(range)", m.start())       # the whole call is matched: depth unchanged
            elif t.startswith(".insert("):
                add("libcall", "iset.insert(range)", m.start())
                depth += 1                              # `.insert(` stays open, `into()` is matched completely
            else:
                add("libcall", t[:-1], m.start())
                depth += 1
        elif m.group("index"):
            pre = code[max(0, m.start() - 80):m.start()]
            if not KEYWORDS_BEFORE_BRACKET.search(pre):
                b = INDEX_BASE.search(pre)
                add("index", re.sub(r"\s+", "", b.group(1)) if b else "_", m.start())
            depth += 1
        elif m.group("open"):
            if m.group("open") == "{" and pending is not None and depth == pending[1]:
                stack.append((pending[0], depth))
                pending = None
            depth += 1
        elif m.group("close"):
            if depth > 0:
                depth -= 1
            if m.group("close") == "}" and stack and stack[-1][1] == depth:
                stack.pop()
        elif m.group("semi"):
            if pending is not None and depth == pending[1]:
                pending = None                          # a declaration without body (trait method)
    return out


def coq_str(s):
    return '"' + s.replace('"', '""') + '"'


def scan(repo):
    root = os.path.join(repo, "crates", "ide", "src")
    sites = []
    for d, _, fs in sorted(os.walk(root)):
        for f in sorted(fs):
            if not f.endswith(".rs") or f == "tests.rs":
                continue
            p = os.path.join(d, f)
            rel = os.path.relpath(p, root)
            if rel.startswith("bin" + os.sep):
                continue                # the dump binary is not part of the analysis
            sites += sites_of(p, rel)
    return sites


def translate(repo):
    sites = scan(repo)
    if not sites:
        raise ValueError("no panic site found: the scanner no longer understands the sources")
    lines = []
    for i, (a, b, k, c, n, text) in enumerate(sites):
        sep = ";" if i + 1 < len(sites) else ""
        lines.append("  (%s, %s, %s, %s, %d%%nat)%s (* %s *)" % (coq_str(a), coq_str(b), coq_str(k), coq_str(c), n, sep,
                                                           text.replace("(*", "( *").replace("*)", "* )")))
    v = ("(** GENERATED by tools/translate/t_panicsites.py from crates/ide/src -- do not edit.\n"
         "    (file, enclosing fn, kind of construct, callee / macro name, ordinal among the sites with the same first four\n"
         "    components); the source text of a site is a comment only and not part of its identity. *)\n"
         "From Coq Require Import String List.\nImport ListNotations.\nOpen Scope string_scope.\n\n"
         "Definition panic_sites : list (string * string * string * string * nat) := [\n%s\n].\n" % "\n".join(lines))
    return {"GenPanicSites.v": v}


if __name__ == "__main__":
    import sys
    print(translate(sys.argv[1] if len(sys.argv) > 1 else "/repo")["GenPanicSites.v"])
