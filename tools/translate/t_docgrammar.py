"""T-docgrammar: syntax.md + the `// Rule ::= ...` comments of crates/syntax/src/grammar*.rs -> GenDocGrammar.v

Four grammars over one nonterminal numbering (lib/docgrammar.py does the reading, lib/c04deltas.py holds the known deltas):
  doc_rules        the documented grammar as read (union of syntax.md and the rule comments)
  doc_rules_trail  + a trailing separator allowed in bracketed lists (the allowance of the property text)
  doc_rules_sound  = trail + the ACCEPT deltas (known findings): "zero errors => sentence" is stated against this one
  doc_rules_must   = doc + the REJECT deltas (known findings): its sentences must parse with zero errors
Every quoted literal is mapped to a token kind through the T! macro table; GenDocGrammar.v carries the literal texts so
that the Coq side re-lexes each one with the lexer model (the documented grammar cannot drift from the token table)."""
import os
import sys

from rsutil import TranslateError, coq_str_codes, coq_string_lit
import t_tokens

sys.path.insert(0, os.path.join(os.path.dirname(os.path.dirname(os.path.dirname(os.path.abspath(__file__)))), "lib"))
import docgrammar as D
import c04deltas as CD


def spelling_table(tok):
    T = {}
    for k, v in tok["T"].items():
        T[k[1] if len(k) == 3 and k[0] == "'" and k[2] == "'" else k.replace(" ", "")] = v
    return T


def load(repo):
    tok = t_tokens.parse(repo)
    T = spelling_table(tok)
    try:
        g = D.read_documented(repo)
    except D.GrammarError as ex:
        raise TranslateError(str(ex))
    rules = g["rules"]
    trail, places = D.trailing_transform(rules)
    try:
        sound = D.apply_edits(trail, [e for d in CD.ACCEPT for e in d["edits"]])
        must = D.apply_edits(rules, [e for d in CD.REJECT for e in d["edits"]])
    except D.GrammarError as ex:
        raise TranslateError("delta edits: %s" % ex)
    term_kinds = dict(D.TERMINALS)
    term_kinds["BANGOP"] = list(tok["bang"])
    term_kinds["CONDOP"] = list(tok["cond"])
    lits = set()

    def collect(r):
        if r[0] == "lit":
            lits.add(r[1])
        elif r[0] in ("seq", "alt"):
            for x in r[1]:
                collect(x)
        elif r[0] in ("star", "plus", "opt", "group"):
            collect(r[1])
    for gr in (rules, trail, sound, must):
        for r in gr.values():
            collect(r)
    for l in sorted(lits):
        if l not in T:
            raise TranslateError("documented grammar: literal %r is not a spelling of the T! macro" % l)
    for gr, nm in ((trail, "trail"), (sound, "sound"), (must, "must")):
        for n, r in gr.items():
            und = [x for x in D.nts_of(r) if x not in gr]
            if und:
                raise TranslateError("grammar %s: rule %s mentions undefined %s" % (nm, n, und))
    return {"tok": tok, "T": T, "doc": g, "rules": rules, "trail": trail, "sound": sound, "must": must,
            "places": places, "term_kinds": term_kinds, "lits": sorted(lits)}


def covering_sentences(d, repo):
    """deterministic covering set: for every alternative of every rule of the must-grammar one small sentence that uses it
    (each verified by the Earley recogniser to be a sentence of the must-grammar).  Returns list of (nt, alt index, text)."""
    import random
    import t_lextables
    lt = t_lextables.parse(repo)
    bang_sp = {v: k for k, v in lt["bang"]}
    T = d["T"]

    def lex_term(t, rng):
        if t == "INT":
            return ("IntVal", "1")
        if t == "ID":
            return ("Id", rng.choice(["a", "b", "X"]))
        if t == "STRING":
            return ("StrVal", '"s"')
        if t == "CODE":
            return ("CodeFragment", "[{ c }]")
        if t == "VARNAME":
            return ("VarName", "$x")
        if t == "BANGOP":
            return ("XAdd", "!add") if "XAdd" in bang_sp else (d["tok"]["bang"][0], "!" + bang_sp[d["tok"]["bang"][0]])
        if t == "CONDOP":
            return ("XCond", "!cond")
        if t == "@IntVal":
            return ("IntVal", "3")
        if t == "@BinaryIntVal":
            return ("BinaryIntVal", "0b1")
        if t.startswith("@X") and t[1:] in bang_sp:
            return (t[1:], "!" + bang_sp[t[1:]])
        raise TranslateError("no lexeme for terminal %s" % t)
    rules = d["must"]
    cfg = D.CFG(rules, "SourceFile", lambda s_: T[s_], d["term_kinds"])
    rng = random.Random(4)
    gen = D.SentenceGen(rules, rng, lambda s_: (T[s_], s_), lex_term)
    out = []
    for nt in sorted(rules):
        r = rules[nt]
        alts = r[1] if r[0] == "alt" else [r]
        for i in range(len(alts)):
            best = None
            for b in (6, 6, 10, 14):
                s_ = gen.gen("SourceFile", b, force=(nt, i))
                if (nt, i) in gen.used and len(s_) <= 40 and cfg.recognise([k for k, _ in s_]):
                    if best is None or len(s_) < len(best):
                        best = s_
            if best is not None:
                out.append((nt, i, " ".join(x for _, x in best)))
    return out


def translate(repo):
    d = load(repo)
    names = list(d["doc"]["order"])
    for gr in (d["trail"], d["sound"], d["must"]):
        for n in gr:
            if n not in names:
                names.append(n)
    idx = {n: i for i, n in enumerate(names)}
    tks = set(d["tok"]["tks"])

    def kinds(ks):
        for k in ks:
            if k not in tks:
                raise TranslateError("unknown token kind %s in documented grammar" % k)
        return "[" + "; ".join("T_" + k for k in ks) + "]"

    def rx(r):
        k = r[0]
        if k == "lit":
            return "(RSym (DTok %s))" % kinds([d["T"][r[1]]])
        if k == "term":
            return "(RSym (DTok %s))" % ("term_" + r[1])
        if k == "kind":
            return "(RSym (DTok %s))" % kinds([r[1]])
        if k == "nt":
            return "(RSym (DNT %d))" % idx[r[1]]
        if k == "seq":
            if not r[1]:
                return "REps"
            out = rx(r[1][-1])
            for x in reversed(r[1][:-1]):
                out = "(RSeq %s %s)" % (rx(x), out)
            return out
        if k == "alt":
            out = rx(r[1][-1])
            for x in reversed(r[1][:-1]):
                out = "(RAlt %s %s)" % (rx(x), out)
            return out
        if k == "opt":
            return "(ropt %s)" % rx(r[1])
        if k == "star":
            return "(RStar %s)" % rx(r[1])
        if k == "plus":
            return "(rplus %s)" % rx(r[1])
        if k == "group":
            return rx(r[1])
        raise TranslateError("bad regex node %r" % (k,))
    o = ["(* GENERATED by tools/translate/t_docgrammar.py from syntax.md and the rule comments of crates/syntax/src/grammar*.rs -- do not edit *)",
         "From Coq Require Import List NArith String.", "From TG.Gen Require Import GenTokens.",
         "From TG.Model Require Import DocGrammar.", "Import ListNotations.", "Local Open Scope string_scope.", ""]
    o.append("(* reconciliation of the two documents (lib/docgrammar.py):")
    for n in d["doc"]["notes"]:
        o.append("   - " + n.replace("*)", "* )").replace("(*", "( *").replace('"', "'"))
    o.append("   trailing separator allowed at: " + "; ".join(d["places"]).replace('"', "'"))
    o.append("*)\n")
    for t in ("INT", "STRING", "CODE", "ID", "VARNAME", "BANGOP", "CONDOP"):
        o.append("Definition term_%s : list TokenKind := %s." % (t, kinds(d["term_kinds"][t])))
    o.append("")
    o.append("Definition doc_nt_names : list string :=\n  [ %s ].\n" % "; ".join(coq_string_lit(n) for n in names))
    o.append("Definition doc_start : nat := %d. (* SourceFile *)\n" % idx["SourceFile"])

    def table(name, gr, comment):
        o.append("(* %s *)" % comment)
        o.append("Definition %s : grammar :=\n  [ %s ].\n" % (name, "\n  ; ".join(
            "%s (* %d %s *)" % (rx(gr[n]) if n in gr else "RNone", i, n) for i, n in enumerate(names))))
    table("doc_rules", d["rules"], "the documented grammar as read")
    table("doc_rules_trail", d["trail"], "+ trailing separator in bracketed lists")
    table("doc_rules_sound", d["sound"], "trail + ACCEPT deltas: " + ", ".join(x["key"] for x in CD.ACCEPT))
    table("doc_rules_must", d["must"], "doc + REJECT deltas: " + ", ".join(x["key"] for x in CD.REJECT))
    o.append("(* every quoted literal of the documents with the token kind the T! macro gives it *)")
    o.append("Definition doc_literals : list (list N * TokenKind) :=\n  [ %s ].\n" % "\n  ; ".join(
        "(%s, T_%s)" % (coq_str_codes(l), d["T"][l]) for l in d["lits"]))
    cov = covering_sentences(d, repo)
    seen = set()
    rows = []
    for nt, i, text in cov:
        if text not in seen:
            seen.add(text)
            rows.append((nt, i, text))
    o.append("(* a covering set of sentences of doc_rules_must: one per alternative of every rule that the generator reached *)")
    o.append("Definition doc_cover_sentences : list (list N) :=\n  [ %s ].\n" % "\n  ; ".join(
        "%s (* %s/%d: %s *)" % (coq_str_codes(t), nt, i, t.replace("*)", "* )").replace("(*", "( *").replace('"', "'")) for nt, i, t in rows))
    o.append("Definition doc_delta_keys : list string :=\n  [ %s ].\n" % "; ".join(coq_string_lit(x["key"]) for x in CD.ACCEPT + CD.REJECT))
    return {"GenDocGrammar.v": "\n".join(o)}


if __name__ == "__main__":
    print(translate(sys.argv[1] if len(sys.argv) > 1 else "/repo")["GenDocGrammar.v"])
