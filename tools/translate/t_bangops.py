"""T-bangops (see design/notes-translator-bangops.md): crates/ide/src/index/bang_operator.rs -> coq/gen/GenBangOps.v

`impl Indexable for ast::BangOperator` is ONE `match self.kind()? { .. }`; every arm of that match and every fn of
`mod common` is read from the CURRENT source (parser of t_indexer.py, extended here by range literals, `TY![..]`,
`matches!`, match guards and `return` as a match-arm value) and rendered one-to-one as a computation in the monad
`Scope.M` of the hand model of group scope: one Coq definition per arm (`src_arm_<first operator of the arm>`), one per
helper (`src_common_<fn>`), plus the dispatcher `bang_arm_of : bop -> option bang_arm` read from the match patterns.
The indexing of child nodes (`value.index(ctx)`, `typ.index(ctx)`) and `utils::identifier` are the fields of the parameter
`E : ix_env` every definition takes (open recursion, as in t_indexer.py).  Control flow is rendered in continuation style: `?`, `return`, `let .. else`,
`continue` end the enclosing function / loop body; a statement that cannot leave its block is a unit computation
followed by `;;`.  Locals are renamed x1, x2, .. in binding order, so comments, formatting and local names are
normalised away.

An ARM outside the subset is reported (file:line, reason), listed in `bang_arms_not_rendered`, and the translation goes
on with the next arm; a failure in one of the five `common` helpers the arms are written with (or in the shape of the
dispatcher) is a TranslateError: a broken tie.  TG.Proofs.GenBangOpsEq proves, arm by arm, that the rendering equals
`Indexer.index_bang` (annotation, arity, operands, diagnostics in emission order, result type, final state)."""
import re
from rsutil import TranslateError, read, strip_comments, cut_tests
import t_lineindex as base
import t_indexer as ti

FILE = "crates/ide/src/index/bang_operator.rs"
Refuse = ti.Refuse

# CoreAst.bop (the operators that have an arm; checked by Coq: an unknown constructor does not compile)
BOPS = ("XAdd XAnd XMul XOr XXor XDiv XSub XSrl XSra XShl XCast XCon XDag XEmpty XEq XNe XExists XFilter XFind XFoldl XForEach "
        "XGe XGt XLe XLt XGetDagArg XGetDagName XGetDagOp XHead XIf XInitialized XInterleave XIsA XListConcat XListFlatten "
        "XListRemove XListSplat XLog2 XNot XRange XRepr XSetDagArg XSetDagName XSetDagOp XSize XStrConcat XSubst XSubstr "
        "XTail XToLower XToUpper").split()
REQUIRED_HELPERS = ["expect_type_annotation", "unexpect_type_annotation", "expect_values", "index_values",
                    "index_values_and_check_types"]
# diagnostic message -> dkind: the regular expressions of lib/scopelib.py MSG_CLASSES (the projection under which the
# checks C05 / C13 compare model and implementation), applied to the format string with every {placeholder} replaced by 0
MESSAGES = [("DExpectAnnot", r"^expected type annotation$"), ("DUnexpectAnnot", r"^unexpected type annotation$"),
            ("DArity", r"^expected \d+( to \d+)?( or more)? arguments, found \d+$"),
            ("DOperand", r"^(expected .*[,;] found .*|expected .*, found .*|inconsistent types .* for !if)$")]
TYPE_CONSTS = {"Unknown": "MUnknown", "Int": "MInt", "Bit": "MBit", "String": "MString", "Code": "MCode", "Dag": "MDag",
               "Uninitialized": "MUninit", "Any": "MAny"}
TY_MACRO = {"bit": "MBit", "int": "MInt", "string": "MString", "code": "MCode", "dag": "MDag", "?": "MUninit"}
SCOPE_KINDS = {"XFilter": "KXFilter", "XFoldl": "KXFoldl", "XForeach": "KXForeach"}
atom = base.atom


# ----------------------------------------------------------------------------- parser

class P4(ti.P3):
    """t_indexer.P3 + range literals as call arguments, TY![..], matches!(..), match guards, `return` as an arm value;
    an arm of an outermost `match` whose body is outside the parser's subset is kept as ("unparsed", reason)"""
    match_depth = 0

    def args(self):
        a = []
        while not self.isp(")"):
            e = self.expr()
            if self.isp("..=") or self.isp(".."):
                incl = self.eat().val == "..="
                hi = None if (self.isp(")") or self.isp(",")) else self.expr()
                if incl and hi is None:
                    self.err("`..=` without an upper bound")
                e = ("rangelit", e, hi, incl, self.peek().line)
            a.append(e)
            if self.isp(","):
                self.eat()
            elif not self.isp(")"):
                self.err("expected ',' or ')'")
        self.expect_p(")")
        return a

    def ty_macro(self):
        if self.isp("?"):
            self.eat()
            return ("c", "?")
        name = self.expect_id()
        if name in ("list", "bits"):
            self.expect_p("<")
            if name == "list":
                inner = self.ty_macro()
            else:
                if self.peek().kind != "NUM":
                    self.err("bits<..> width")
                inner = self.eat().val[0]
            if self.isp(">>"):                      # list<list<int>>: split the token
                self.t[self.i] = base.Tok("P", ">", self.peek().line)
            else:
                self.expect_p(">")
            return (name, inner)
        return ("c", name)

    def primary(self, ns):
        tk = self.peek()
        if tk.kind == "ID" and tk.val == "TY" and self.isp("!", 1) and self.isp("[", 2):
            self.eat()
            self.eat()
            self.eat()
            t = self.ty_macro()
            self.expect_p("]")
            return ("ty", t, tk.line)
        if tk.kind == "ID" and tk.val == "matches" and self.isp("!", 1) and self.isp("(", 2):
            self.eat()
            self.eat()
            self.eat()
            e = self.expr()
            self.expect_p(",")
            pats = [self.pattern()]
            while self.isp("|"):
                self.eat()
                pats.append(self.pattern())
            if self.isp(","):
                self.eat()
            self.expect_p(")")
            return ("matches", e, pats, tk.line)
        return super().primary(ns)

    def match_(self):
        line = self.peek().line
        self.expect_id("match")
        scrut = self.expr(no_struct=True)
        self.expect_p("{")
        self.match_depth += 1
        arms = []
        while not self.isp("}"):
            aline = self.peek().line
            pats = [self.pattern()]
            while self.isp("|"):
                self.eat()
                pats.append(self.pattern())
            guard = None
            if self.isid("if"):
                self.eat()
                guard = self.expr(no_struct=True)
            self.expect_p("=>")
            if self.isp("{"):
                start = self.i
                try:
                    body = self.block()
                except TranslateError as ex:
                    if self.match_depth != 1:
                        raise
                    self.i = start
                    depth = 0
                    while True:
                        t2 = self.eat()
                        if t2.kind == "P" and t2.val == "{":
                            depth += 1
                        elif t2.kind == "P" and t2.val == "}":
                            depth -= 1
                            if depth == 0:
                                break
                        elif t2.kind == "EOF":
                            self.err("unterminated match arm")
                    body = ("unparsed", str(ex))
                if self.isp(","):
                    self.eat()
            else:
                if self.isid("return"):
                    rl = self.eat().line
                    body = ("block", [("return", self.expr(), rl)], None)
                else:
                    body = ("block", [], self.expr())
                if self.isp(","):
                    self.eat()
                elif not self.isp("}"):
                    self.err("expected ',' after match arm")
            arms.append((pats, guard, body, aline))
        self.expect_p("}")
        self.match_depth -= 1
        return ("match", scrut, arms, line)


def parse(repo):
    src = cut_tests(strip_comments(read(repo, FILE)))
    p = P4(base.tokenize(src, FILE), FILE)
    m = p.items()
    if p.peek().kind != "EOF":
        p.err("unexpected '}'")
    return m


# ----------------------------------------------------------------------------- types

COQ_TY = {"node": "bang_node", "Value": "value", "TypeNode": "(ty * rng)", "Inner": "inner", "Simple": "simple", "Ident": "ident",
          "mty": "mty", "rng": "rng", "bool": "bool", "nat": "nat", "unit": "unit", "name": "name", "leaf": "leaf",
          "skind": "skind", "bounds": "range_bounds", "bound": "bound"}


def coq_ty(t):
    if isinstance(t, tuple):
        if t[0] == "opt":
            return "(option %s)" % coq_ty(t[1])
        if t[0] in ("list", "iter"):
            return "(list %s)" % coq_ty(t[1])
        if t[0] == "tuple":
            return "(" + " * ".join(coq_ty(x) for x in t[1]) + ")"
    return COQ_TY[t]


def rust_ty(t, where):
    t = t.replace("super::", "").replace("'_", "")
    m = re.fullmatch(r"Option<(.*)>", t)
    if m:
        return ("opt", rust_ty(m.group(1), where))
    m = re.fullmatch(r"Vec<(.*)>", t)
    if m:
        return ("list", rust_ty(m.group(1), where))
    m = re.fullmatch(r"\((.*),(.*)\)", t)
    if m and "(" not in m.group(1) and "<" not in m.group(1):
        return ("tuple", [rust_ty(m.group(1), where), rust_ty(m.group(2), where)])
    table = {"IndexCtx": "ctx", "ast::BangOperator": "node", "ast::Value": "Value", "Type": "mty", "TextRange": "rng",
             "implRangeBounds<usize>": "bounds", "EcoString": "name", "FileRange": "rng", "usize": "nat", "bool": "bool",
             "Self::Output": "mty"}
    if t in table:
        return table[t]
    raise Refuse("%s: unsupported type %r" % (where, t))


def is_opt(t):
    return isinstance(t, tuple) and t[0] == "opt"


def is_seq(t):
    return isinstance(t, tuple) and t[0] in ("list", "iter")


def strip(e):
    """parentheses, borrows, derefs and clones do not change the value"""
    while True:
        if e[0] == "paren":
            e = e[1]
        elif e[0] == "un" and e[1] in ("&", "*", "&mut"):
            e = e[2]
        elif e[0] == "mcall" and e[2] in ("clone", "cloned") and not e[3]:
            e = e[1]
        else:
            return e


def line_of(x):
    if isinstance(x, tuple) and x and isinstance(x[-1], int) and not isinstance(x[-1], bool):
        return x[-1]
    if isinstance(x, (tuple, list)):
        for y in x:
            ln = line_of(y)
            if ln:
                return ln
    return 0


# ----------------------------------------------------------------------------- renderer

class BG:
    def __init__(self):
        self.sigs = {}            # helper name -> (coq name, [param types without ctx], ret type, "opt" | "plain")
        self.n = 0
        self.loop = 0
        self.sv, self.sv_used = None, False
        self.fn_opt = True

    def no(self, where, msg):
        raise Refuse("%s:%d: %s" % (FILE, line_of(where) if not isinstance(where, int) else where, msg))

    def fresh(self, p="x"):
        self.n += 1
        return "%s%d" % (p, self.n)

    # ---- patterns: (coq pattern, env additions, irrefutable)
    def pat(self, p, t, env, where):
        k = p[0]
        if k in ("pref", "pmut"):
            return self.pat(p[1], t, env, where)
        if k == "pwild":
            return "_", True
        if k == "pbind":
            v = self.fresh()
            env[p[1]] = (v, t)
            return v, True
        if k == "ptuple":
            if not (isinstance(t, tuple) and t[0] == "tuple" and len(t[1]) == len(p[1])):
                self.no(where, "tuple pattern against %s" % (t,))
            parts, irr = [], True
            for q, qt in zip(p[1], t[1]):
                c, i2 = self.pat(q, qt, env, where)
                parts.append(c)
                irr = irr and i2
            return "(" + ", ".join(parts) + ")", irr
        if k == "psome":
            if not is_opt(t):
                self.no(where, "Some(..) pattern against %s" % (t,))
            c, _ = self.pat(p[1], t[1], env, where)
            return "Some %s" % atom(c), False
        if k == "pnone":
            if not is_opt(t):
                self.no(where, "None pattern against %s" % (t,))
            return "None", False
        if k == "pvariant":
            path, subs = p[1], p[2]
            if t == "mty" and len(path) == 2 and path[0] in ("Type", "Self"):
                if path[1] in TYPE_CONSTS and not subs:
                    return TYPE_CONSTS[path[1]], False
                if path[1] == "List" and len(subs) == 1:
                    c, _ = self.pat(subs[0], "mty", env, where)
                    return "MList %s" % atom(c), False
                if path[1] == "Bits" and len(subs) == 1:
                    c, _ = self.pat(subs[0], "N", env, where)
                    return "MBits %s" % atom(c), False
                if path[1] == "Record" and len(subs) == 2:
                    a, _ = self.pat(subs[0], "N", env, where)
                    b, _ = self.pat(subs[1], "name", env, where)
                    return "MRecord %s %s" % (atom(a), atom(b)), False
            if t == "Simple" and path[-2:] == ["SimpleValue", "Identifier"] and len(subs) == 1:
                c, _ = self.pat(subs[0], "Ident", env, where)
                return "SId %s" % atom(c), False
            if t == "bound" and len(path) == 2 and path[0] == "Bound":
                if path[1] in ("Included", "Excluded") and len(subs) == 1:
                    c, _ = self.pat(subs[0], "nat", env, where)
                    return "%s %s" % (path[1], atom(c)), False
                if path[1] == "Unbounded" and not subs:
                    return "Unbounded", False
            self.no(where, "pattern %s against %s" % ("::".join(path), t))
        self.no(where, "pattern %s" % k)

    # ---- pure expressions: (code, type)
    def state_var(self, where):
        if self.sv is None:
            self.no(where, "the context is read in a position where no state is available")
        self.sv_used = True
        return self.sv

    def pure_st(self, e, env):
        old = (self.sv, self.sv_used)
        self.sv, self.sv_used = self.fresh("s"), False
        try:
            c, t = self.pure(e, env)
            pre = "%s <- state ;; " % self.sv if self.sv_used else ""
        finally:
            self.sv, self.sv_used = old
        return pre, c, t

    def is_symbol_map(self, a):
        a = strip(a)
        return a[0] == "field" and a[2] == "symbol_map" and a[1][0] == "path" and a[1][1] == ["ctx"]

    def pure(self, e, env):
        e = strip(e)
        k = e[0]
        if k == "path":
            path = e[1]
            if len(path) == 1:
                if path[0] == "None":
                    return "None", ("opt", None)
                if path[0] not in env:
                    self.no(e, "unknown name %s" % path[0])
                c, t = env[path[0]]
                if t == "ctx":
                    self.no(e, "the context used as a value")
                return c, t
            if len(path) == 2 and path[0] == "Type" and path[1] in TYPE_CONSTS:
                return TYPE_CONSTS[path[1]], "mty"
            if len(path) == 2 and path[0] == "ScopeKind" and path[1] in SCOPE_KINDS:
                return SCOPE_KINDS[path[1]], "skind"
            self.no(e, "path %s" % "::".join(path))
        if k == "ty":
            def go(t):
                if t[0] == "c":
                    if t[1] not in TY_MACRO:
                        self.no(e, "TY![%s]" % t[1])
                    return TY_MACRO[t[1]]
                if t[0] == "list":
                    return "MList %s" % atom(go(t[1]))
                return "MBits %d" % t[1]
            return go(e[1]), "mty"
        if k == "num":
            return "%d%%nat" % e[1], "nat"
        if k == "bool":
            return ("true" if e[1] else "false"), "bool"
        if k == "tuple":
            cs = [self.pure(x, env) for x in e[1]]
            return "(" + ", ".join(c for c, _ in cs) + ")", ("tuple", [t for _, t in cs])
        if k == "rangelit":
            lo, tl_ = self.pure(e[1], env)
            if tl_ != "nat":
                self.no(e, "range bound of type %s" % (tl_,))
            if e[2] is None:
                return "mkRB (Included %s) Unbounded" % atom(lo), "bounds"
            hi, th = self.pure(e[2], env)
            if th != "nat":
                self.no(e, "range bound of type %s" % (th,))
            return "mkRB (Included %s) (%s %s)" % (atom(lo), "Included" if e[3] else "Excluded", atom(hi)), "bounds"
        if k == "un" and e[1] == "!":
            c, t = self.pure(e[2], env)
            if t != "bool":
                self.no(e, "`!` on %s" % (t,))
            return "negb %s" % atom(c), "bool"
        if k == "bin":
            op = e[1]
            a, ta = self.pure(e[2], env)
            b, tb = self.pure(e[3], env)
            if op in ("||", "&&") and ta == tb == "bool":
                return "(%s %s %s)" % (atom(a), op, atom(b)), "bool"
            if ta == tb == "nat":
                if op == "==":
                    return "Nat.eqb %s %s" % (atom(a), atom(b)), "bool"
                if op == "!=":
                    return "negb (Nat.eqb %s %s)" % (atom(a), atom(b)), "bool"
                if op == "<":
                    return "Nat.ltb %s %s" % (atom(a), atom(b)), "bool"
                if op == "<=":
                    return "Nat.leb %s %s" % (atom(a), atom(b)), "bool"
                if op == ">":
                    return "Nat.ltb %s %s" % (atom(b), atom(a)), "bool"
                if op == ">=":
                    return "Nat.leb %s %s" % (atom(b), atom(a)), "bool"
            if ta == tb == "mty":
                if op == "==":
                    return "mty_eqb %s %s" % (atom(a), atom(b)), "bool"
                if op == "!=":
                    return "negb (mty_eqb %s %s)" % (atom(a), atom(b)), "bool"
            self.no(e, "operator %s on %s / %s" % (op, ta, tb))
        if k == "matches":
            c, t = self.pure(e[1], env)
            env2 = dict(env)
            ps = []
            for p in e[2]:
                pc, _ = self.pat(p, t, env2, e)
                if set(env2) != set(env):
                    self.no(e, "matches! pattern that binds a variable")
                ps.append(pc)
            return "match %s with %s => true | _ => false end" % (c, " | ".join(ps)), "bool"
        if k == "call":
            f, args = e[1], e[2]
            name = "::".join(f[1]) if f[0] == "path" else "?"
            if name == "Some" and len(args) == 1:
                c, t = self.pure(args[0], env)
                return "Some %s" % atom(c), ("opt", t)
            if name == "Type::List" and len(args) == 1:
                a = strip(args[0])
                if a[0] == "call" and a[1][0] == "path" and a[1][1] == ["Box", "new"] and len(a[2]) == 1:
                    a = a[2][0]
                c, t = self.pure(a, env)
                if t != "mty":
                    self.no(e, "Type::List(%s)" % (t,))
                return "MList %s" % atom(c), "mty"
            if name == "Variable::new" and len(args) == 4:
                cn, tn = self.pure(args[0], env)
                ct, tt = self.pure(args[1], env)
                kind = strip(args[2])
                cl, tl_ = self.pure(args[3], env)
                if (tn, tt, tl_) != ("name", "mty", "rng") or kind[0] != "path" or kind[1][0] != "VariableKind":
                    self.no(e, "Variable::new(%s, %s, .., %s)" % (tn, tt, tl_))
                return "mkLeaf LVar %s %s false %s" % (atom(cn), atom(ct), atom(cl)), "leaf"
            self.no(e, "call of %s" % name)
        if k == "mcall":
            recv, m, args = e[1], e[2], e[3]
            rs = strip(recv)
            if m == "next" and not args and rs[0] == "path" and len(rs[1]) == 1:
                self.no(e, "`.next()` on an iterator variable in a position that is not hoisted")
            c, t = self.pure(recv, env)
            if t == "node" and not args:
                if m == "type":
                    return "bn_annot %s" % atom(c), ("opt", "TypeNode")
                if m == "values":
                    return "bn_values %s" % atom(c), ("iter", "Value")
                if m == "syntax":
                    return c, ("syntax", "node")
            if t in ("Value", "TypeNode") and m == "syntax" and not args:
                return c, ("syntax", t)
            if isinstance(t, tuple) and t[0] == "syntax" and m == "text_range" and not args:
                return {"node": "bn_range %s", "Value": "value_rng %s", "TypeNode": "snd %s"}[t[1]] % atom(c), "rng"
            if t == "Value" and m == "inner_values" and not args:
                return "value_inners %s" % atom(c), ("iter", "Inner")
            if t == "Inner" and m == "simple_value" and not args:
                return "Some (inner_simple %s)" % atom(c), ("opt", "Simple")
            if t == "bounds" and m in ("start_bound", "end_bound") and not args:
                return "%s %s" % (m, atom(c)), "bound"
            if t == "mty":
                if m in ("is_list", "is_bits", "is_record") and not args:
                    return "%s %s" % (m, atom(c)), "bool"
                if m == "element_typ" and not args:
                    return "element_typ %s" % atom(c), ("opt", "mty")
                if m == "can_be_casted_to" and len(args) == 2:
                    if not self.is_symbol_map(args[0]):
                        self.no(e, "can_be_casted_to on a symbol map that is not ctx.symbol_map")
                    b, tb = self.pure(args[1], env)
                    if tb != "mty":
                        self.no(e, "can_be_casted_to(.., %s)" % (tb,))
                    return "can_cast %s %s %s" % (self.state_var(e), atom(c), atom(b)), "bool"
            if is_seq(t):
                if m in ("into_iter", "iter") and not args:
                    return c, ("iter", t[1])
                if m == "collect" and not args:
                    return c, ("list", t[1])
                if m == "len" and not args and t[0] == "list":
                    return "List.length %s" % atom(c), "nat"
                if m == "is_empty" and not args and t[0] == "list":
                    return "match %s with [] => true | _ => false end" % c, "bool"
                if m == "first" and not args and t[0] == "list":
                    return "hd_error %s" % atom(c), ("opt", t[1])
                if m == "get" and len(args) == 1 and t[0] == "list":
                    i, ti_ = self.pure(args[0], env)
                    if ti_ != "nat":
                        self.no(e, "get(%s)" % (ti_,))
                    return "nth_error %s %s" % (atom(c), atom(i)), ("opt", t[1])
                if m == "take" and len(args) == 1 and t[0] == "iter":
                    i, ti_ = self.pure(args[0], env)
                    if ti_ != "nat":
                        self.no(e, "take(%s)" % (ti_,))
                    return "firstn %s %s" % (atom(i), atom(c)), ("iter", t[1])
                if m == "next" and not args and t[0] == "iter":        # on a temporary: the rest is dropped
                    return "hd_error %s" % atom(c), ("opt", t[1])
            if is_opt(t):
                if m == "is_some" and not args:
                    return "is_some %s" % atom(c), "bool"
                if m == "is_none" and not args:
                    return "negb (is_some %s)" % atom(c), "bool"
                if m == "unwrap_or" and len(args) == 1:
                    d, td = self.pure(args[0], env)
                    if td != t[1]:
                        self.no(e, "unwrap_or(%s) on %s" % (td, t))
                    return "match %s with Some x => x | None => %s end" % (c, d), td
            self.no(e, "method .%s on %s" % (m, t))
        self.no(e, "expression %s" % k)

    def message_kind(self, e):
        e = strip(e)
        txt = None
        if e[0] == "str":
            txt = e[1]
        elif e[0] == "macro" and e[1] == ["format"] and e[2] and e[2][0][0] == "str":
            txt = e[2][0][1]
        if txt is None:
            self.no(e, "diagnostic message that is not a literal / format!")
        probe = re.sub(r"\{[^}]*\}", "0", txt)
        for kind, rx in MESSAGES:
            if re.match(rx, probe, re.S):
                return kind
        self.no(e, "diagnostic message %r has no class in the table" % txt[:50])

    # ---- calls with effects: (M term, result type, "opt" | "plain") or None
    def mcall(self, e, env):
        e = strip(e)
        if e[0] == "mcall":
            recv, m, args = e[1], e[2], e[3]
            rs = strip(recv)
            if m == "index" and len(args) == 1 and strip(args[0]) == ("path", ["ctx"], strip(args[0])[2]):
                c, t = self.pure(recv, env)
                if t == "Value":
                    return "ix_Value E %s" % atom(c), "mty", "opt"
                if t == "TypeNode":
                    return "ix_Type E (fst %s)" % atom(c), "mty", "opt"
                self.no(e, ".index(ctx) on %s" % (t,))
            if rs[0] == "path" and rs[1] == ["ctx"]:
                if m == "error" and len(args) == 2:
                    r, rt = self.pure(args[0], env)
                    if rt != "rng":
                        self.no(e, "ctx.error(%s, ..)" % (rt,))
                    return "err %s %s" % (atom(r), self.message_kind(args[1])), "unit", "plain"
                self.no(e, "ctx.%s" % m)
            if rs[0] == "field" and rs[1][0] == "path" and rs[1][1] == ["ctx"]:
                if rs[2] == "scopes":
                    if m == "push" and len(args) == 1:
                        c, t = self.pure(args[0], env)
                        if t != "skind":
                            self.no(e, "scopes.push(%s)" % (t,))
                        return "push_scope %s" % atom(c), "unit", "plain"
                    if m == "pop" and not args:
                        return "pop_scope", "unit", "plain"
                    if m == "add_variable" and len(args) == 2 and self.is_symbol_map(args[0]):
                        c, t = self.pure(args[1], env)
                        if t != "leaf":
                            self.no(e, "scopes.add_variable(.., %s)" % (t,))
                        return "scopes_add_variable %s" % atom(c), "unit", "plain"
                self.no(e, "ctx.%s.%s" % (rs[2], m))
            # opt.and_then(|x| <effect returning an Option>)
            if m == "and_then" and len(args) == 1 and args[0][0] == "closure" and len(args[0][1]) == 1:
                c, t = self.pure(recv, env)
                if not is_opt(t):
                    self.no(e, "and_then on %s" % (t,))
                env2 = dict(env)
                pc, _ = self.pat(args[0][1][0], t[1], env2, e)
                inner = self.mcall(args[0][2], env2)
                if inner is None or inner[2] != "opt":
                    self.no(e, "and_then closure that is not a call returning an Option")
                return "match %s with Some %s => %s | None => none end" % (c, atom(pc), inner[0]), inner[1], "opt"
            # iter.map(|x| <value with effects>).collect()
            if m == "collect" and not args and rs[0] == "mcall" and rs[2] == "map" and len(rs[3]) == 1 and rs[3][0][0] == "closure" \
                    and len(rs[3][0][1]) == 1:
                c, t = self.pure(rs[1], env)
                if not is_seq(t):
                    self.no(e, "map on %s" % (t,))
                env2 = dict(env)
                pc, irr = self.pat(rs[3][0][1][0], t[1], env2, e)
                if not irr:
                    self.no(e, "refutable closure parameter")
                out = {}

                def k(c2, t2, env3):
                    out["t"] = t2
                    return "ret %s" % atom(c2)
                self.loop += 1
                try:
                    body = self.value(rs[3][0][2], env2, k)
                finally:
                    self.loop -= 1
                return "collectM (fun %s => %s) %s" % (pc, body, atom(c)), ("list", out["t"]), "plain"
            return None
        if e[0] == "call" and e[1][0] == "path":
            path, args = e[1][1], e[2]
            if path[-2:] == ["utils", "identifier"] and len(args) == 2:
                c, t = self.pure(args[0], env)
                if t != "Ident":
                    self.no(e, "utils::identifier(%s)" % (t,))
                return "utils_identifier E %s" % atom(c), ("tuple", ["name", "rng"]), "opt"
            fname = path[-1]
            if (path[:-1] in ([], ["common"], ["super", "common"], ["self"])) and fname in self.sigs:
                coq, params, ret, kind = self.sigs[fname]
                if not args or strip(args[0])[:2] != ("path", ["ctx"]):
                    self.no(e, "call of %s whose first argument is not ctx" % fname)
                if len(args) - 1 != len(params):
                    self.no(e, "call of %s with %d arguments" % (fname, len(args) - 1))
                cs = []
                for a, pt in zip(args[1:], params):
                    c, t = self.pure(a, env)
                    if t != pt and not (is_seq(t) and is_seq(pt) and t[1] == pt[1]):
                        self.no(e, "%s: argument of type %s, expected %s" % (fname, t, pt))
                    cs.append(atom(c))
                return ("%s E %s" % (coq, " ".join(cs))).strip(), ret, kind
            if path[-1] not in ("Some", "new") and (path[:-1] in (["common"], ["super", "common"])):
                self.no(e, "call of common::%s, which is not rendered" % fname)
        return None

    def effectful(self, x, env):
        """does evaluating x have an effect / leave the block (not looking into closures)"""
        if isinstance(x, tuple):
            if x and x[0] == "closure":
                return False
            if x and x[0] in ("try", "return", "continue", "match", "if", "iflet", "block"):
                return True
            if x and x[0] == "macro" and x[1][-1] in ("unreachable", "unimplemented", "panic", "todo"):
                return True
            if x and x[0] == "mcall":
                r = strip(x[1])
                if x[2] == "index" or (r[0] == "path" and r[1] == ["ctx"]) or \
                        (r[0] == "field" and r[1][0] == "path" and r[1][1] == ["ctx"] and r[2] == "scopes"):
                    return True
                if x[2] == "next" and r[0] == "path" and len(r[1]) == 1:
                    return True
                if x[2] == "collect" and r[0] == "mcall" and r[2] == "map":
                    return self.effectful_closure(r[3])
                if x[2] == "and_then":
                    return self.effectful_closure(x[3])
            if x and x[0] == "call" and x[1][0] == "path":
                p = x[1][1]
                if p[-2:] == ["utils", "identifier"] or p[-1] in self.sigs or p[:-1] in (["common"], ["super", "common"]):
                    return True
            return any(self.effectful(y, env) for y in x)
        if isinstance(x, list):
            return any(self.effectful(y, env) for y in x)
        return False

    def effectful_closure(self, args):
        return any(a[0] == "closure" and self.effectful(a[2], None) for a in args)

    def escapes(self, x):
        """can control leave the block x other than by reaching its end; or does x advance an iterator variable"""
        if isinstance(x, tuple):
            if x and x[0] == "closure":
                return False
            if x and x[0] in ("try", "return", "continue"):
                return True
            if x and x[0] == "macro" and x[1][-1] in ("unreachable", "unimplemented", "panic", "todo"):
                return True
            if x and x[0] == "mcall" and x[2] == "next" and strip(x[1])[0] == "path":
                return True
            if x and x[0] == "let" and x[4] is not None:
                return True
            return any(self.escapes(y) for y in x)
        if isinstance(x, list):
            return any(self.escapes(y) for y in x)
        return False

    # ---- values with effects, continuation style: k(code, type, env) -> text of what follows
    def value(self, e, env, k):
        e0 = e
        e = strip(e)
        kd = e[0]
        if kd == "try":
            if self.loop:
                self.no(e, "`?` inside a loop body / closure")
            if not self.fn_opt:
                self.no(e, "`?` in a function that does not return an Option")
            inner = strip(e[1])
            mc = self.mcall(inner, env)
            if mc is not None:
                if mc[2] != "opt":
                    self.no(e, "`?` on a call that does not return an Option")
                q = self.fresh()
                return "%s <- %s ;;\n%s" % (q, mc[0], k(q, mc[1], env))

            def k2(c, t, env2):
                if not is_opt(t):
                    self.no(e, "`?` on %s" % (t,))
                q = self.fresh()
                return "%s <- lift %s ;;\n%s" % (q, atom(c), k(q, t[1], env2))
            return self.value(inner, env, k2)
        mc = self.mcall(e, env)
        if mc is not None:
            q = self.fresh()
            if mc[2] == "opt":
                return "%s <- try_ (%s) ;;\n%s" % (q, mc[0], k(q, ("opt", mc[1]), env))
            return "%s <- %s ;;\n%s" % (q, mc[0], k(q, mc[1], env))
        if kd == "mcall" and self.effectful(e[1], env):
            recv, m, args = e[1], e[2], e[3]
            rs = strip(recv)
            if any(self.effectful(a, env) for a in args):
                self.no(e, "effect in a method argument")

            def k3(c, t, env2):
                simple = re.fullmatch(r"\w+", c) is not None
                v = c if simple else self.fresh()
                env3 = dict(env2)
                env3["%recv"] = (v, t)
                c2, t2 = self.pure(("mcall", ("path", ["%recv"], line_of(e)), m, args, line_of(e)), env3)
                return ("" if simple else "let %s := %s in\n" % (v, c)) + k(c2, t2, env2)
            return self.value(recv, env, k3)
        if kd == "mcall" and e[2] == "next" and not e[3] and strip(e[1])[0] == "path" and len(strip(e[1])[1]) == 1:
            name = strip(e[1])[1][0]
            if name not in env or not (isinstance(env[name][1], tuple) and env[name][1][0] == "iter"):
                self.no(e, "`.next()` on %s" % (env.get(name, (None, "an unknown name"))[1],))
            if self.loop:
                self.no(e, "iterator advanced inside a loop body / closure")
            cur, t = env[name]
            q, nxt = self.fresh(), self.fresh()
            env2 = dict(env)
            env2[name] = (nxt, t)
            return "let %s := hd_error %s in\nlet %s := tl %s in\n%s" % (q, cur, nxt, cur, k(q, ("opt", t[1]), env2))
        if kd == "tuple" and self.effectful(e[1], env):
            parts = []

            def go(i, env2):
                if i == len(e[1]):
                    return k("(" + ", ".join(c for c, _ in parts) + ")", ("tuple", [t for _, t in parts]), env2)
                x = e[1][i]
                if not self.effectful(x, env2):
                    old = (self.sv, self.sv_used)
                    self.sv = None                       # a state read before a later effect would need ordering: refuse
                    try:
                        parts.append(self.pure(x, env2))
                    finally:
                        self.sv, self.sv_used = old
                    return go(i + 1, env2)

                def k4(c, t, env3):
                    parts.append((c, t))
                    return go(i + 1, env3)
                return self.value(x, env2, k4)
            return go(0, env)
        if kd in ("match", "if", "iflet", "block"):
            def fin(tail, env2):
                if tail is None:
                    return k("tt", "unit", env2)
                return self.value(tail, env2, k)
            return self.iflike(e, env, fin)
        if kd == "macro" and e[1][-1] in ("unreachable", "unimplemented", "panic", "todo"):
            return "bad"
        pre, c, t = self.pure_st(e0, env)
        return pre + k(c, t, env)

    # ---- if / if let / match / block whose branches end with fin(tail, env)
    def iflike(self, e, env, fin):
        kd = e[0]
        if kd == "block":
            return self.block(e[1], 0, e[2], dict(env), fin)
        if kd == "if":
            def k(c, t, env2):
                if t != "bool":
                    self.no(e, "condition of type %s" % (t,))
                a = self.block(e[2][1], 0, e[2][2], dict(env2), fin)
                b = self.block(e[3][1], 0, e[3][2], dict(env2), fin) if e[3] is not None else fin(None, dict(env2))
                return "if %s then\n%s\nelse\n%s" % (c, a, b)
            return self.value(e[1], env, k)
        if kd == "iflet":
            pat, ex, a, b = e[1], e[2], e[3], e[4]

            def k(c, t, env2):
                env3 = dict(env2)
                pc, irr = self.pat(pat, t, env3, e)
                ya = self.block(a[1], 0, a[2], env3, fin)
                if irr:
                    return "match %s with %s =>\n%s\nend" % (c, pc, ya)
                nb = self.block(b[1], 0, b[2], dict(env2), fin) if b is not None else fin(None, dict(env2))
                return "match %s with\n| %s =>\n%s\n| _ =>\n%s\nend" % (c, pc, ya, nb)
            return self.value(ex, env, k)
        if kd == "match":
            scrut, arms = e[1], e[2]

            def k(c, t, env2):
                guarded = any(g is not None for _, g, _, _ in arms)
                sv = c
                pre = ""
                if guarded and not re.fullmatch(r"\w+", c):
                    sv = self.fresh()
                    pre = "let %s := %s in\n" % (sv, c)

                def chain(i):
                    """text for arms[i:]"""
                    if i == len(arms):
                        return "bad"
                    if all(g is None for _, g, _, _ in arms[i:]):
                        texts = []
                        for pats, g, body, ln in arms[i:]:
                            env3 = dict(env2)
                            pcs = []
                            irr = False
                            for p in pats:
                                pc, irr = self.pat(p, t, env3, ln)
                                pcs.append(pc)
                            if len(pcs) > 1 and any(v[0] not in [w[0] for w in env2.values()] for v in env3.values()):
                                self.no(ln, "or-pattern that binds variables")
                            texts.append("| %s =>\n%s" % (" | ".join(pcs), self.arm_body(body, env3, fin, ln)))
                            if irr and len(pats) == 1:
                                break
                        return "match %s with\n%s\nend" % (sv, "\n".join(texts))
                    pats, g, body, ln = arms[i]
                    if len(pats) != 1:
                        self.no(ln, "or-pattern in a match with guards")
                    kv = self.fresh("k")
                    rest = chain(i + 1)
                    env3 = dict(env2)
                    pc, irr = self.pat(pats[0], t, env3, ln)
                    yes = self.arm_body(body, env3, fin, ln)
                    if g is not None:
                        gp, gc, gt = self.pure_st(g, env3)
                        if gt != "bool":
                            self.no(ln, "guard of type %s" % (gt,))
                        yes = "%sif %s then\n%s\nelse %s" % (gp, gc, yes, kv)
                    other = "" if irr else "\n| _ => %s" % kv
                    return "let %s :=\n%s in\nmatch %s with\n| %s =>\n%s%s\nend" % (kv, rest, sv, pc, yes, other)
                return pre + chain(0)
            return self.value(scrut, env, k)
        self.no(e, "statement form %s" % kd)

    def arm_body(self, body, env, fin, ln):
        if body[0] == "unparsed":
            self.no(ln, "match arm outside the parser's subset: %s" % body[1])
        return self.block(body[1], 0, body[2], env, fin)

    def fin_unit(self, tail, env):
        if tail is None:
            return "ret tt"
        t = strip(tail)
        if t[0] in ("if", "iflet", "match", "block"):
            return self.iflike(t, env, self.fin_unit)
        mc = self.mcall(t, env)
        if mc is not None and mc[1] == "unit":
            return mc[0]
        if t[0] == "tuple" and not t[1]:
            return "ret tt"
        if t[0] == "macro" and t[1][-1] in ("unreachable", "unimplemented", "panic", "todo"):
            return "bad"
        self.no(tail, "block that ends in a value where none is used")

    def fin_fn(self, tail, env):
        """the value of the function"""
        if tail is None:
            if self.fn_ret == "unit":
                return "ret tt"
            self.no(0, "function body without a value")
        t = strip(tail)
        if t[0] in ("if", "iflet", "match", "block"):
            return self.iflike(t, env, self.fin_fn)
        if t[0] == "macro" and t[1][-1] in ("unreachable", "unimplemented", "panic", "todo"):
            return "bad"
        if not self.fn_opt:
            mc = self.mcall(t, env)
            if mc is not None and mc[2] == "plain" and (mc[1] == self.fn_ret or (is_seq(mc[1]) and is_seq(self.fn_ret) and mc[1][1] == self.fn_ret[1])):
                return mc[0]

            def k(c, ty, env2):
                if ty != self.fn_ret and not (is_seq(ty) and is_seq(self.fn_ret) and ty[1] == self.fn_ret[1]):
                    self.no(tail, "value of type %s, expected %s" % (ty, self.fn_ret))
                return "ret %s" % atom(c)
            return self.value(tail, env, k)
        if t[0] == "path" and t[1] == ["None"]:
            return "none"
        if t[0] == "call" and t[1][0] == "path" and t[1][1] == ["Some"] and len(t[2]) == 1:
            def k(c, ty, env2):
                if ty != self.fn_ret:
                    self.no(tail, "Some(%s), expected %s" % (ty, self.fn_ret))
                return "ret %s" % atom(c)
            return self.value(t[2][0], env, k)
        mc = self.mcall(t, env)
        if mc is not None:
            if mc[2] != "opt" or mc[1] != self.fn_ret:
                self.no(tail, "the function ends in a call of type %s" % (mc[1],))
            return mc[0]

        def k(c, ty, env2):
            if not is_opt(ty) or ty[1] not in (self.fn_ret, None):
                self.no(tail, "value of type %s, expected an Option of %s" % (ty, self.fn_ret))
            return "lift %s" % atom(c)
        return self.value(tail, env, k)

    # ---- statements
    def block(self, stmts, i, tail, env, fin):
        if i == len(stmts):
            return fin(tail, env)
        s = stmts[i]
        kd = s[0]
        if i == len(stmts) - 1 and tail is None and kd in ("ifstmt", "matchstmt"):
            return fin(s[1], env)                      # `if let .. else ..` / `match` as the last thing of a block
        rest = lambda env2: self.block(stmts, i + 1, tail, env2, fin)
        if kd == "let":
            pat, ty, e, els = s[1], s[2], s[3], s[4]

            def k(c, t, env2):
                if ty is not None:
                    want = rust_ty(ty, "%s:%d" % (FILE, s[5]))
                    if is_seq(t) and is_seq(want) and t[1] == want[1]:
                        t = want
                    elif t != want:
                        self.no(s, "let of type %s annotated %s" % (t, want))
                env3 = dict(env2)
                pb = pat
                while pb[0] in ("pref", "pmut"):
                    pb = pb[1]
                if els is None and pb[0] == "pbind" and re.fullmatch(r"\w+", c):
                    env3[pb[1]] = (c, t)                # an alias: no Coq binding needed
                    return rest(env3)
                pc, irr = self.pat(pat, t, env3, s)
                if els is None:
                    if not irr:
                        self.no(s, "refutable pattern in a let without else")
                    if re.fullmatch(r"\w+", pc) and pc != "_":
                        return "let %s := %s in\n%s" % (pc, c, rest(env3))
                    if pc == "_":
                        return rest(env3)
                    return "match %s with %s =>\n%s\nend" % (c, pc, rest(env3))

                def diverge(t2, env4):
                    self.no(s, "the else block of a let-else can fall through")
                if irr:
                    self.no(s, "let-else with an irrefutable pattern")
                other = self.block(els[1], 0, els[2], dict(env2), diverge)
                return "match %s with\n| %s =>\n%s\n| _ =>\n%s\nend" % (c, pc, rest(env3), other)
            return self.value(e, env, k)
        if kd == "expr":
            e = strip(s[1])
            if e[0] == "macro" and e[1][-1] in ("unreachable", "unimplemented", "panic", "todo"):
                return "bad"
            mc = self.mcall(e, env)
            if mc is not None:
                return "%s ;;\n%s" % (atom(mc[0]), rest(env))
            return self.value(e, env, lambda c, t, env2: rest(env2))
        if kd in ("ifstmt", "matchstmt"):
            e = s[1]
            # the condition / scrutinee is evaluated first (it may advance an iterator: its bindings scope over the rest)
            if e[0] == "if":
                scrut, parts = e[1], [e[2], e[3]]
            elif e[0] == "iflet":
                scrut, parts = e[2], [e[3], e[4]]
            elif e[0] == "match":
                scrut, parts = e[1], [(g, b) for _, g, b, _ in e[2]]
            else:
                self.no(s, "statement form %s" % e[0])
            esc = self.escapes(parts)

            def k(c, t, env2):
                envs = dict(env2)
                envs["%scrut"] = (c, t)
                sp = ("path", ["%scrut"], line_of(e))
                if e[0] == "if":
                    e2 = ("if", sp, e[2], e[3], e[4])
                elif e[0] == "iflet":
                    e2 = ("iflet", e[1], sp, e[3], e[4], e[5])
                else:
                    e2 = ("match", sp, e[2], e[3])
                if not esc:
                    # a statement that can only reach its end: a unit computation
                    return "(%s) ;;\n%s" % (self.iflike(e2, envs, self.fin_unit), rest(env2))

                def fin_cont(tail2, env4):
                    nxt = self.outer(env2, env4)
                    if tail2 is not None:
                        t2 = strip(tail2)
                        if t2[0] in ("if", "iflet", "match", "block"):
                            return self.iflike(t2, env4, fin_cont)
                        mc = self.mcall(t2, env4)
                        if mc is not None and mc[1] == "unit":
                            return "%s ;;\n%s" % (atom(mc[0]), rest(nxt))
                        if t2[0] == "macro" and t2[1][-1] in ("unreachable", "unimplemented", "panic", "todo"):
                            return "bad"
                        self.no(tail2, "block that ends in a value where none is used")
                    return rest(nxt)
                return self.iflike(e2, envs, fin_cont)
            return self.value(scrut, env, k)
        if kd == "for":
            pat, it, body = s[1], s[2], s[3]
            if self.has_return(body):
                self.no(s, "`return` / `?` inside a for body")

            def k(c, t, env2):
                if not is_seq(t):
                    self.no(s, "for over %s" % (t,))
                env3 = dict(env2)
                pc, irr = self.pat(pat, t[1], env3, s)
                if not irr:
                    self.no(s, "refutable for pattern")
                self.loop += 1
                try:
                    b = self.block(body[1], 0, body[2], env3, self.fin_unit)
                finally:
                    self.loop -= 1
                v = self.fresh()
                head = "fun %s => " % pc if re.fullmatch(r"\w+", pc) else "fun %s => match %s with %s =>\n" % (v, v, pc)
                tail_ = "" if re.fullmatch(r"\w+", pc) else "\nend"
                return "iterM (%s%s%s) %s ;;\n%s" % (head, b, tail_, atom(c), rest(env2))
            return self.value(it, env, k)
        if kd == "return":
            if self.loop:
                self.no(s, "`return` inside a loop body / closure")
            return self.fin_fn(s[1], env)
        if kd == "continue":
            if not self.loop:
                self.no(s, "`continue` outside a loop")
            return "ret tt"
        self.no(s, "statement %s" % kd)

    def has_return(self, x):
        if isinstance(x, tuple):
            if x and x[0] == "closure":
                return False
            if x and x[0] in ("try", "return"):
                return True
            return any(self.has_return(y) for y in x)
        if isinstance(x, list):
            return any(self.has_return(y) for y in x)
        return False

    def outer(self, env, env2):
        """after a nested block: the names of the enclosing block, with the current version of each iterator variable"""
        return {n: (env2[n] if n in env2 and env2[n][1] == v[1] and isinstance(v[1], tuple) and v[1][0] == "iter" else v)
                for n, v in env.items() if n != "%scrut"}

    # ---- one fn of `mod common`
    def helper(self, fn):
        where = "%s:%d" % (FILE, fn["line"])
        self.n = 0
        env, cparams, ptypes = {}, [], []
        for pn, pt in fn["params"]:
            t = rust_ty(pt[5:] if pt.startswith("&mut ") else pt, where)
            if t == "ctx":
                env[pn] = ("ctx", "ctx")
                continue
            v = self.fresh()
            env[pn] = (v, t)
            ptypes.append(t)
            cparams.append("(%s : %s)" % (v, coq_ty(t)))
        if "ctx" not in [v[1] for v in env.values()]:
            raise Refuse("%s: helper without a ctx parameter" % where)
        if [v[1] for v in env.values()][0] != "ctx":
            raise Refuse("%s: ctx is not the first parameter" % where)
        ret = rust_ty(fn["ret"], where) if fn["ret"] else "unit"
        self.fn_opt = is_opt(ret)
        self.fn_ret = ret[1] if self.fn_opt else ret
        self.loop = 0
        body = fn["body"]
        text = self.block(body[1], 0, body[2], env, self.fin_fn)
        coq = "src_common_" + fn["name"]
        self.sigs[fn["name"]] = (coq, ptypes, self.fn_ret, "opt" if self.fn_opt else "plain")
        return "Definition %s (E : ix_env) %s : M %s :=\n%s." % (coq, " ".join(cparams), coq_ty(self.fn_ret), indent(text, 2))

    def arm(self, name, body, ln):
        self.n = 0
        self.fn_opt, self.fn_ret, self.loop = True, "mty", 0
        env = {"self": ("self", "node"), "ctx": ("ctx", "ctx")}
        text = self.arm_body(body, env, self.fin_fn, ln)
        return "Definition src_%s (E : ix_env) (self : bang_node) : M mty :=\n%s." % (name, indent(text, 2))


def indent(text, n):
    """re-indent a rendering by nesting depth of match / let / if"""
    out, depth = [], 0
    for line in text.split("\n"):
        s = line.strip()
        if not s:
            continue
        if s.startswith("end") or s.startswith("| ") or s.startswith("else"):
            d = max(depth - 1, 0)
        else:
            d = depth
        out.append(" " * (n + 2 * d) + s)
        opens = len(re.findall(r"\bmatch\b", s)) + len(re.findall(r"\bif\b", s))
        closes = len(re.findall(r"\bend\b", s))
        # an `if` is closed by the end of its else branch: keep it simple, count only matches for depth
        depth += len(re.findall(r"\bmatch\b", s)) - closes
        depth = max(depth, 0)
    return "\n".join(out)


# ----------------------------------------------------------------------------- driver

def translate(repo):
    m = parse(repo)
    if "common" not in m["mods"]:
        raise TranslateError("%s: mod common not found" % FILE)
    impls = [(t, tr, fns) for t, tr, fns in m["impls"] if tr == "Indexable" and t == "ast::BangOperator"]
    if len(impls) != 1 or len(impls[0][2]) != 1 or impls[0][2][0]["name"] != "index":
        raise TranslateError("%s: expected exactly one `impl Indexable for ast::BangOperator` with one fn index" % FILE)
    fn = impls[0][2][0]
    if fn.get("unparsed"):
        raise TranslateError("%s: fn index is outside the parser's subset: %s" % (FILE, fn["unparsed"]))
    if [p for p, _ in fn["params"]] != ["self", "ctx"] or (fn["ret"] or "").replace(" ", "") != "Option<Self::Output>":
        raise TranslateError("%s:%d: signature of fn index" % (FILE, fn["line"]))
    body = fn["body"]
    tail = body[2]
    ok = (not body[1] and tail is not None and tail[0] == "match" and tail[1][0] == "try" and tail[1][1][0] == "mcall"
          and tail[1][1][1][:2] == ("path", ["self"]) and tail[1][1][2] == "kind" and not tail[1][1][3])
    if not ok:
        raise TranslateError("%s:%d: fn index is expected to be `match self.kind()? { .. }`" % (FILE, fn["line"]))
    g = BG()
    out = ["(* GENERATED by tools/translate/t_bangops.py from %s -- do not edit *)" % FILE,
           "From Coq Require Import List NArith Bool.", "From Coq Require String.", 'Set Warnings "-unused-pattern-matching-variable".',
           "From TG.Model Require Import CoreAst Scope BangOps Indexer IndexerSrc BangOpsSrc.",
           "Import ListNotations.", "Open Scope N_scope.", "Open Scope ix_scope.", "",
           "(* BEGIN RENDERING: every definition takes E : ix_env = what `value.index(ctx)`, `typ.index(ctx)` and",
           "   `utils::identifier(&identifier, ctx)` do (open recursion) *)", ""]
    # ---- mod common (callees first: a fn that calls a later one is retried)
    helpers_not_rendered = []
    pending = [f for f in m["mods"]["common"]["fns"]]
    rendered_helpers = []
    for _ in range(4):
        nxt = []
        for f in pending:
            if f.get("unparsed"):
                nxt.append((f, f["unparsed"]))
                continue
            try:
                text = g.helper(f)
                out.append("  (* %s:%d: common::%s *)" % (FILE, f["line"], f["name"]))
                out.append(indent_def(text))
                out.append("")
                rendered_helpers.append(f["name"])
            except (Refuse, TranslateError) as ex:
                nxt.append((f, str(ex)))
        if len(nxt) == len(pending):
            break
        pending = [f for f, _ in nxt]
    for f, why in (nxt if pending else []):
        if f["name"] in REQUIRED_HELPERS:
            raise TranslateError("common::%s is outside the subset: %s" % (f["name"], why))
        helpers_not_rendered.append((f["name"], why))
    for h in REQUIRED_HELPERS:
        if h not in rendered_helpers:
            raise TranslateError("%s: common::%s not found" % (FILE, h))
    # ---- the arms
    arms = tail[2]
    arm_of, arm_ids, not_rendered, defs, wild = {}, [], [], [], None
    for pats, guard, abody, ln in arms:
        if guard is not None:
            raise TranslateError("%s:%d: guard in the dispatcher" % (FILE, ln))
        if len(pats) == 1 and pats[0][0] == "pwild":
            b = abody
            if b[0] == "unparsed" or b[1] or b[2] is None or b[2][0] != "macro" or b[2][1] != ["unreachable"]:
                raise TranslateError("%s:%d: the `_` arm of the dispatcher is expected to be unreachable!(..)" % (FILE, ln))
            wild = ln
            continue
        if wild is not None:
            raise TranslateError("%s:%d: arm after the `_` arm" % (FILE, ln))
        ops = []
        for p in pats:
            if p[0] != "pvariant" or len(p[1]) != 2 or p[1][0] != "SyntaxKind" or p[2]:
                raise TranslateError("%s:%d: dispatcher pattern" % (FILE, ln))
            if p[1][1] not in BOPS:
                raise TranslateError("%s:%d: SyntaxKind::%s is not an operator of CoreAst.bop" % (FILE, ln, p[1][1]))
            if p[1][1] in arm_of:
                raise TranslateError("%s:%d: two arms for SyntaxKind::%s" % (FILE, ln, p[1][1]))
            ops.append(p[1][1])
        name = "arm_" + ops[0]
        arm_ids.append((name, ops, ln))
        for o in ops:
            arm_of[o] = name
        try:
            text = g.arm(name, abody, ln)
            defs.append((name, ops, ln, text))
        except (Refuse, TranslateError) as ex:
            not_rendered.append((name, ops, ln, str(ex)))
    for name, ops, ln, text in defs:
        out.append("  (* %s:%d: %s *)" % (FILE, ln, " | ".join("SyntaxKind::" + o for o in ops)))
        out.append(indent_def(text))
        out.append("")
    # ---- the dispatcher
    ids = [n for n, _, _ in arm_ids]
    pre_section = ["Inductive bang_arm : Set := %s." % " | ".join("A" + n[1:] for n in ids)]
    rows = []
    for o in BOPS:
        rows.append("    | %s => %s" % (o, "Some A" + arm_of[o][1:] if o in arm_of else "None   (* the `_` arm: unreachable!() *)"))
    pre_section.append("(* the dispatcher: which SyntaxKind goes to which arm (read from the match patterns) *)")
    pre_section.append("Definition bang_arm_of (op : bop) : option bang_arm :=\n  match op with\n%s\n  end.\n" % "\n".join(r[2:] for r in rows))
    k = [i for i, l in enumerate(out) if l.startswith("(* BEGIN RENDERING")][0]
    out[k:k] = pre_section
    ok_names = {n for n, _, _, _ in defs}
    out.append("  Definition src_bang_arm (E : ix_env) (a : bang_arm) : option (bang_node -> M mty) :=\n    match a with\n%s\n    end." % "\n".join(
        "    | A%s => %s" % (n[1:], "Some (src_" + n + " E)" if n in ok_names else "None") for n in ids))
    out.append("  (* `match self.kind()? { .. }` (the kind is present on a Core tree; an operator without an arm, or whose arm is"
               " not rendered, is the distinguished outcome `bad`) *)")
    out.append("  Definition src_ix_BangOperator (E : ix_env) (op : bop) (self : bang_node) : M mty :=\n"
               "    match bang_arm_of op with\n    | Some a => match src_bang_arm E a with Some f => f self | None => bad end\n"
               "    | None => bad\n    end.")
    out.append("(* END RENDERING *)")
    out.append("")
    out.append("Import String.")
    out.append("Definition bang_arms_not_rendered : list String.string := [%s]%%string." % "; ".join(
        '"%s"' % ("%s (%s)" % (n, " ".join(ops))) for n, ops, _, _ in not_rendered))
    out.append("Definition bang_helpers_rendered : list String.string := [%s]%%string." % "; ".join('"%s"' % h for h in rendered_helpers))
    for h in rendered_helpers:
        out.append("#[global] Hint Unfold src_common_%s : bang_src." % h)
    out.append("(* arms: %d, rendered: %d *)" % (len(arm_ids), len(defs)))
    for n, ops, ln, why in not_rendered:
        out.append("(* not rendered: %s (%s): %s *)" % (n, " | ".join(ops), why.replace("*)", "* )").replace("(*", "( *")))
    for h, why in helpers_not_rendered:
        out.append("(* helper not rendered: common::%s: %s *)" % (h, why.replace("*)", "* )").replace("(*", "( *")))
    return {"GenBangOps.v": "\n".join(out) + "\n"}


def indent_def(text):
    return "\n".join("  " + l for l in text.split("\n"))


if __name__ == "__main__":
    import sys
    print(translate(sys.argv[1] if len(sys.argv) > 1 else "/repo")["GenBangOps.v"])
