"""T-handlers: the purely syntactic handler code of crates/ide
      handlers/folding_range.rs  exec
      utils.rs                   range_excluding_trivia
      handlers/hover.rs          extract_doc_comments, prev_token
-> coq/gen/GenHandlers.v  (src_folding_exec, src_range_excluding_trivia, src_extract_doc_comments, src_prev_token)

The Rust text is read with the tokenizer / recursive-descent parser of t_lineindex.py, extended here (subclass HP) with what
these functions are written in: `loop`, `while let`, `if let`, `let .. else`, `?`, turbofish, path / tuple-struct / or-patterns,
match guards.  It is type-checked against a closed table of the rowan / std operations they use and rendered one-to-one in
Gallina over coq/model/HandlerApi.v:
  * a fn without control effects (no `?`, `return`, loop, panicking call) is rendered as a pure term;
  * otherwise its body is rendered in the control monad `hm R B A` (value / return / break with the loop state / out of fuel /
    panic) in Rust's evaluation order: `e?` -> `htry`, `return e` -> `Ret`, `break` -> `Brk st`, a call of another rendered
    effectful fn -> `hcall`, rowan's `covering_element` (asserts) -> `hassert`; `loop` / `while` / `while let` -> `hloop`
    (`hforever` when the body has no `break`) over the tuple of the enclosing-scope variables the body assigns, in declaration
    order; an `if` / `match` statement yields the tuple of the variables its branches assign (join point);
  * `while let P = e {b}` is read as `loop { match e { P => b, _ => break } }`, `let P = e else {d}` as `match e { P => .., _ => d }`,
    `if let` as a two-arm match, a `match` on bool as `if`, a `match` on a SyntaxKind (or-patterns included) as a chain of
    `sk_eqb` tests, `a == SyntaxKind::K` as `sk_eqb`;
  * a Rust loop has no measure: the fuel of each loop is the translator's annotation (MEASURES, by fn and loop ordinal, over the
    first cursor-typed state variable); TG.Proofs.GenHandlersEq proves the rendering equal to the hand models, which are proven
    never to run out of fuel, so a wrong annotation breaks the obligation.
Comments, formatting and the names of locals / parameters (all become v_<name>) are normalised away.  Anything outside the
subset raises TranslateError naming file and line: a broken tie, never silently skipped."""
import re
from rsutil import TranslateError, read, strip_comments, cut_tests, matching_brace, enum_variants
from t_lineindex import P as BaseP, tokenize, ASSIGN_OPS

FOLDING = "crates/ide/src/handlers/folding_range.rs"
UTILS = "crates/ide/src/utils.rs"
HOVER = "crates/ide/src/handlers/hover.rs"
DOCSYM = "crates/ide/src/handlers/document_symbol.rs"
INLAY = "crates/ide/src/handlers/inlay_hint.rs"
GOTO = "crates/ide/src/handlers/goto_definition.rs"
REFS = "crates/ide/src/handlers/references.rs"
VARIABLE = "crates/ide/src/symbol_map/variable.rs"
COMPLETION = "crates/ide/src/handlers/completion.rs"
DOCLINK = "crates/ide/src/handlers/document_link.rs"
DIAGNOSTICS = "crates/ide/src/handlers/diagnostics.rs"
# `ctx.complete_x()` of completion.rs: the vocabulary methods are read as TABLES by t_completion.py (GenCompletion.v)
CTX_METHODS = {"complete_bang_operators": (0, "bang_operator_items"), "complete_toplevel_keywords": (0, "toplevel_keyword_items"),
               "complete_primitive_values": (0, "primitive_value_items"), "complete_primitive_types": (0, "primitive_type_items"),
               "complete_classes": (1, "complete_classes (cm_classes %s)")}

# ----------------------------------------------------------------------------- parser extension


class HP(BaseP):
    # ---- patterns
    def pattern(self):
        p = self.pattern1()
        if self.isp("|"):
            alts = [p]
            while self.isp("|"):
                self.eat()
                alts.append(self.pattern1())
            return ("por", alts)
        return p

    def pattern1(self):
        tk = self.peek()
        if tk.kind == "ID" and tk.val in ("true", "false"):
            self.eat()
            return ("pbool", tk.val == "true")
        if tk.kind == "ID" and self.isp("::", 1):
            path = [self.eat().val]
            while self.isp("::"):
                self.eat()
                path.append(self.expect_id())
            if self.isp("("):
                self.eat()
                ps = []
                while not self.isp(")"):
                    ps.append(self.pattern())
                    if self.isp(","):
                        self.eat()
                self.expect_p(")")
                return ("pctor", path, ps)
            if self.isp("{"):
                self.err("struct pattern")
            return ("ppath", path)
        if tk.kind == "ID" and tk.val not in ("mut", "_", "Some", "None") and self.isp("(", 1):
            name = self.eat().val
            self.eat()
            ps = []
            while not self.isp(")"):
                ps.append(self.pattern())
                if self.isp(","):
                    self.eat()
            self.expect_p(")")
            return ("pctor", [name], ps)
        return BaseP.pattern(self)

    def type_(self):
        out, depth = [], 0
        while True:
            tk = self.peek()
            if tk.kind == "P" and tk.val in ("<", "(", "["):
                depth += 1
            elif tk.kind == "P" and tk.val in (">", ")", "]", ">>"):
                need = 2 if tk.val == ">>" else 1
                if depth < need:
                    if depth == 0:
                        break
                    self.err("unbalanced type")
                depth -= need
            elif tk.kind == "P" and tk.val in (",", "{", "}", "=", ";") and depth == 0:
                break
            elif tk.kind == "EOF":
                self.err("bad type")
            out.append(str(self.eat().val))
        return "".join(out).replace("&", "")

    # ---- statements
    def stmt(self):
        line = self.peek().line
        if self.isid("loop"):
            self.eat()
            return ("loop", self.block(), line)
        if self.isid("while") and self.isid("let", 1):
            self.eat()
            self.eat()
            pat = self.pattern()
            self.expect_p("=")
            e = self.expr(no_struct=True)
            return ("whilelet", pat, e, self.block(), line)
        if self.isid("match"):
            e = self.match_()
            if self.isp("}"):
                return ("tail", e)
            if self.isp(";"):
                self.eat()
            elif self.isp(".") or self.isp("?"):
                self.err("postfix after a match statement")
            return ("matchstmt", e, line)
        if self.isid("if"):
            e = self.if_()
            els = e[4] if e[0] == "iflet" else e[3]
            if self.isp("}") and els is not None:
                return ("tail", e)
            return ("ifstmt", e, line)
        return BaseP.stmt(self)

    # ---- expressions
    def postfix(self, ns):
        e = self.primary(ns)
        while True:
            line = self.peek().line
            if self.isp("."):
                self.eat()
                if self.peek().kind == "NUM":
                    self.err("tuple field")
                m = self.expect_id()
                if self.isp("::"):
                    self.eat()
                    self.expect_p("<")
                    depth = 1
                    while depth:
                        tk = self.eat()
                        if tk.kind == "EOF":
                            self.err("unterminated turbofish")
                        if tk.kind == "P" and tk.val == "<":
                            depth += 1
                        elif tk.kind == "P" and tk.val == ">":
                            depth -= 1
                        elif tk.kind == "P" and tk.val == ">>":
                            depth -= 2
                if self.isp("("):
                    self.eat()
                    e = ("mcall", e, m, self.args(), line)
                else:
                    e = ("field", e, m, line)
            elif self.isp("("):
                self.eat()
                e = ("call", e, self.args(), line)
            elif self.isp("["):
                self.err("indexing")
            elif self.isp("?"):
                self.eat()
                e = ("try", e, line)
            else:
                return e

    def primary(self, ns):
        tk = self.peek()
        if tk.kind == "P" and tk.val == "|":
            self.eat()
            pats = []
            while not self.isp("|"):
                pats.append(self.pattern1())
                if self.isp(":"):
                    self.err("typed closure parameter")
                if self.isp(","):
                    self.eat()
            self.expect_p("|")
            if self.isp("{"):
                return ("closure", pats, self.block(), tk.line)
            return ("closure", pats, self.expr(), tk.line)
        return BaseP.primary(self, ns)

    def if_(self):
        line = self.peek().line
        self.expect_id("if")
        pat = None
        if self.isid("let"):
            self.eat()
            pat = self.pattern()
            self.expect_p("=")
        c = self.expr(no_struct=True)
        a = self.block()
        b = None
        if self.isid("else"):
            self.eat()
            if self.isid("if"):
                b = ("block", [], self.if_())
            else:
                b = self.block()
        if pat is not None:
            return ("iflet", pat, c, a, b, line)
        return ("if", c, a, b, line)

    def match_(self):
        line = self.peek().line
        self.expect_id("match")
        scrut = self.expr(no_struct=True)
        self.expect_p("{")
        arms = []
        while not self.isp("}"):
            pat = self.pattern()
            guard = None
            if self.isid("if"):
                self.eat()
                guard = self.expr(no_struct=True)
            self.expect_p("=>")
            if self.isp("{"):
                body = self.block()
                if self.isp(","):
                    self.eat()
            else:
                if self.isid("return"):
                    l2 = self.peek().line
                    self.eat()
                    e = None if (self.isp(",") or self.isp("}")) else self.expr()
                    body = ("block", [("return", e, l2)], None)
                elif self.isid("break"):
                    l2 = self.peek().line
                    self.eat()
                    body = ("block", [("break", l2)], None)
                else:
                    body = ("block", [], self.expr())
                if self.isp(","):
                    self.eat()
                elif not self.isp("}"):
                    self.err("expected ',' after match arm")
            arms.append((pat, guard, body))
        self.expect_p("}")
        return ("match", scrut, arms, line)


def parse_top_fn(repo, rel, name):
    """a top-level `fn name` of a file whose other items are not read"""
    src = cut_tests(strip_comments(read(repo, rel)))
    ms = [m for m in re.finditer(r"(?m)^(pub(\([a-z]+\))?\s+)?fn\s+%s\s*[(<]" % re.escape(name), src)]
    if len(ms) != 1:
        raise TranslateError("%s: expected exactly one top-level fn %s, found %d" % (rel, name, len(ms)))
    start = ms[0].start()
    i = src.index("{", matching_brace(src, src.index("(", ms[0].end() - 1), "(", ")"))
    j = matching_brace(src, i)
    text = src[start:j + 1]
    p = HP(tokenize(text, rel, 1 + src.count("\n", 0, start)), rel)
    p.vis()
    fn = p.fn()
    if p.peek().kind != "EOF":
        p.err("trailing tokens after fn %s" % name)
    fn["file"] = rel
    return fn


def top_fn_names(repo, rel):
    src = cut_tests(strip_comments(read(repo, rel)))
    return [m.group(3) for m in re.finditer(r"(?m)^(pub(\([a-z]+\))?\s+)?fn\s+([A-Za-z_][A-Za-z0-9_]*)\s*[(<]", src)]


# ----------------------------------------------------------------------------- types

CURSORISH = ("node", "token", "element")
ENTRY_TYPES = ("record", "targ", "field", "variable", "defset", "multiclass", "defm")
SV_CTORS = [("Record", "record"), ("TemplateArgument", "targ"), ("RecordField", "field"), ("Variable", "variable"),
            ("Defset", "defset"), ("Multiclass", "multiclass"), ("Defm", "defm")]
SM_EFFECT_METHODS = ("template_arg", "record_field", "record", "symbol", "iter_symbols_in_range", "find_symbol_at")
IGNORED_MACROS = ("tracing",)
RUST_TYPES = {"DocumentLink": "doclink", "Diagnostic": "diag", "CompletionItem": "compitem", "FilePosition": "filepos", "Hover": "hover", "SymbolMap": "symmap", "Symbol": "symview", "dynIndexDatabase": "idb", "DocumentSymbol": "docsym",
              "FileRange": "filerange", "Record": "record", "RecordField": "field", "InlayHint": "hint",
              "SyntaxNode": "node", "SyntaxToken": "token", "SyntaxElement": "element", "TextRange": "range",
              "TextSize": "size", "String": "str", "str": "str", "FileId": "fileid", "dynSourceDatabase": "db",
              "FoldingRange": "range", "bool": "bool", "usize": "usize", "SyntaxKind": "kind"}


def rust_type(t, fname, line):
    if t is None:
        return "unit"
    m = re.fullmatch(r"Option<(.*)>", t)
    if m:
        return ("opt", rust_type(m.group(1), fname, line))
    m = re.fullmatch(r"Vec<(.*)>", t)
    if m:
        return ("list", rust_type(m.group(1), fname, line))
    if t == "HashMap<FileId,Vec<Diagnostic>>":
        return "dmap"
    if t.startswith("(") and t.endswith(")"):
        parts, depth, cur = [], 0, ""
        for ch in t[1:-1]:
            if ch in "<(":
                depth += 1
            elif ch in ">)":
                depth -= 1
            if ch == "," and depth == 0:
                parts.append(cur)
                cur = ""
            else:
                cur += ch
        if cur:
            parts.append(cur)
        return ("tuple", [rust_type(x, fname, line) for x in parts])
    if t in RUST_TYPES:
        return RUST_TYPES[t]
    raise TranslateError("%s:%d: unsupported type %s" % (fname, line, t))


def coq_type(t):
    if t in CURSORISH:
        return "cursor"
    if isinstance(t, tuple):
        if t[0] == "opt":
            return "option (%s)" % coq_type(t[1])
        if t[0] == "list":
            return "list (%s)" % coq_type(t[1])
        if t[0] == "tuple":
            return "(" + " * ".join(coq_type(x) for x in t[1]) + ")%type"
        if t[0] == "ast":
            return "cursor"
    if t in ENTRY_TYPES:
        return "entry"
    if isinstance(t, tuple) and t[0] == "ast":
        return "cursor"
    if t in ("symid", "recordid", "targid", "fieldid"):
        return {"symid": "symbol_id"}.get(t, "N")
    return {"symmap": "symbol_map", "symview": "symview", "idb": "index_db", "index": "index_db", "docsym": "docsym",
            "filerange": "file_range", "rkind": "option record_kind", "dskind": "ds_kind", "tytype": "name",
            "hint": "hint", "hkind": "hint_kind", "filepos": "file_pos", "hover": "hover_result", "vkind": "unit", "compitem": "comp_item", "cctx": "list comp_item", "hdb": "host_db", "incmap": "list (rng * N)",
            "hparse": "(tree * list perr)%type", "perr": "perr", "diag": "diag", "dmap": "dmap", "doclink": "(rng * N)%type",
            "incid": "rng", "nodeptr": "rng", "msgtype": "text",
            "kind": "SyntaxKind", "range": "trange", "size": "N", "usize": "nat", "bool": "bool", "str": "text",
            "char": "N", "unit": "unit", "tree": "tree", "db": "parse_db", "fileid": "N"}[t]


def same(a, b):
    """loose type equality: None is unknown; the three rowan cursor types coerce into each other (`.into()`, `&`)"""
    if a is None or b is None:
        return True
    if a in CURSORISH and b in CURSORISH:
        return True
    if isinstance(a, tuple) and isinstance(b, tuple) and a[0] == b[0]:
        if a[0] == "tuple":
            return len(a[1]) == len(b[1]) and all(same(x, y) for x, y in zip(a[1], b[1]))
        return same(a[1], b[1])
    return a == b


def atom(t):
    t = t.strip()
    if re.fullmatch(r"[A-Za-z_0-9'.%\[\]]+", t) or (t.startswith("(") and matching_paren(t) == len(t) - 1):
        return t
    return "(" + t + ")"


def matching_paren(t):
    d = 0
    for i, c in enumerate(t):
        if c == "(":
            d += 1
        elif c == ")":
            d -= 1
            if d == 0:
                return i
    return -1


def tuple_term(names):
    if not names:
        return "tt"
    out = names[0]
    for n in names[1:]:
        out = "(%s, %s)" % (out, n)
    return out


def tuple_projs(n, st):
    """projections of a left-nested n-tuple st"""
    if n == 1:
        return [st]
    outs = []
    cur = st
    for k in range(n - 1, 0, -1):
        outs.append("snd %s" % atom(cur))
        cur = "fst %s" % atom(cur)
    outs.append(cur)
    return list(reversed(outs))


# the recursion depth a self-recursive fn is given by its callers (validated by the equality proof)
REC_FUEL = {"symbol_to_document_symbol": "2%nat"}

# the fuel of each rendered loop: (fn, ordinal of the loop in the fn, in source order) -> measure over the first state
# variable of cursor type.  Validated by the equality proof (the hand models never run out of fuel: DocProofs.v).
MEASURES = {
    ("prev_token", 0): "S (cur_measure %s)",
    ("prev_token", 1): "S (tree_size (focus %s))",
    ("extract_doc_comments", 0): "S (length (leaves_before %s))",
}


class Emit:
    """binds / lets collected while an expression is translated, in evaluation order"""
    def __init__(self):
        self.lines = []

    def bind(self, gen, mterm):
        v = gen.fresh()
        self.lines.append("%s <- %s ;;" % (v, mterm))
        return v

    def prefix(self):
        return "".join(l + "\n" for l in self.lines)


class OptEmit(Emit):
    """`?` inside an Option-valued closure: nested `match .. with Some x => .. | None => None end`"""
    def bind(self, gen, mterm):
        if not mterm.startswith("htry "):
            raise TranslateError("effect other than `?` inside an Option-valued closure: %s" % mterm[:60])
        v = gen.fresh()
        self.lines.append(("opt", v, mterm[5:]))
        return v

    def let(self, name, term):
        self.lines.append(("let", name, term))

    def wrap(self, final):
        out = final
        for kind, v, t in reversed(self.lines):
            if kind == "opt":
                out = "match %s with\n| Some %s =>\n%s\n| None => None\nend" % (t, v, out)
            else:
                out = "let %s := %s in\n%s" % (v, t, out)
        return out


class Ctx:
    def __init__(self, fn, loop_state=None):
        self.fn = fn
        self.loop_state = loop_state       # names (rust) of the innermost loop's state, or None


class Gen:
    def __init__(self, repo):
        self.repo = repo
        self.n = 0
        self.fns = {}          # rust name -> dict(coq, params [(name, ty)], ret, effect bool)
        self.loop_ord = {}

    def fresh(self):
        self.n += 1
        return "t%d" % self.n

    def fail(self, line, msg):
        raise TranslateError("%s:%s: %s" % (self.cur_file, line, msg))

    # ------------------------------------------------------------------ effect analysis (syntactic)
    def has_effect(self, x):
        if isinstance(x, tuple):
            if x and x[0] in ("try", "return", "break", "loop", "whilelet", "while", "for"):
                return True
            if x and x[0] == "macro" and x[1] == ["unreachable"]:
                return True
            if x and x[0] == "closure":
                return False          # a closure is a value; its own effects are handled where it is applied
            if x and x[0] == "mcall" and x[2] in ("map", "filter", "filter_map") and len(x[3]) == 1 \
                    and x[3][0][0] == "closure" and self.has_effect(x[3][0][2]) and not self.only_try(x[3][0][2]):
                return True
            if x and x[0] == "mcall" and x[2] == "covering_element":
                return True
            if x and x[0] == "mcall" and x[2] in SM_EFFECT_METHODS and len(x[3]) == 1:
                return True
            if x and x[0] == "call" and x[1][0] == "path" and x[1][1][-1] == getattr(self, "cur_fn", None):
                return True
            if x and x[0] == "call" and x[1][0] == "path" and x[1][1][-1] in self.fns and self.fns[x[1][1][-1]]["effect"]:
                return True
            return any(self.has_effect(y) for y in x)
        if isinstance(x, list):
            return any(self.has_effect(y) for y in x)
        return False

    def only_try(self, x):
        """the only control effect inside x is `?` (an Option-returning closure body rendered as nested matches)"""
        if isinstance(x, tuple):
            if x and x[0] == "try":
                return self.only_try(x[1])
            if x and x[0] in ("return", "break", "loop", "whilelet", "while", "for"):
                return False
            if x and x[0] == "closure":
                return True
            if x and x[0] == "mcall" and (x[2] == "covering_element" or (x[2] in SM_EFFECT_METHODS and len(x[3]) == 1)):
                return False
            if x and x[0] == "macro" and x[1] == ["unreachable"]:
                return False
            if x and x[0] == "call" and x[1][0] == "path" and (
                    (x[1][1][-1] in self.fns and self.fns[x[1][1][-1]]["effect"]) or x[1][1][-1] == getattr(self, "cur_fn", None)):
                return False
            return all(self.only_try(y) for y in x)
        if isinstance(x, list):
            return all(self.only_try(y) for y in x)
        return True

    def opt_block(self, body, env, want=None):
        """a block / expression whose `?`s return None from the enclosing Option-valued closure -> (pure option term, type)"""
        em = OptEmit()
        if body[0] == "block":
            e2 = env
            for st in body[1]:
                if st[0] != "let" or st[4] is not None:
                    self.fail(st[-1], "statement in an Option-valued closure body")
                p = st[1]
                while p[0] in ("pmut", "pref"):
                    p = p[1]
                if p[0] != "pbind":
                    self.fail(st[5], "let pattern in an Option-valued closure body")
                t, ty = self.tr(st[3], e2, em)
                em.let(self.v(p[1]), t)
                e2 = self.env_bind(e2, p[1], ty)
            if body[2] is None:
                self.fail("?", "closure body without a value")
            t, ty = self.tr(body[2], e2, em, want)
        else:
            t, ty = self.tr(body, env, em, want)
        if not (isinstance(ty, tuple) and ty[0] == "opt"):
            self.fail("?", "a closure body using `?` must return an Option")
        return em.wrap(t), ty

    def has_break(self, x):
        """a `break` that belongs to THIS loop body (not to a nested loop)"""
        if isinstance(x, tuple):
            if x and x[0] == "break":
                return True
            if x and x[0] in ("loop", "whilelet", "while", "for"):
                return False
            return any(self.has_break(y) for y in x)
        if isinstance(x, list):
            return any(self.has_break(y) for y in x)
        return False

    def pat_names(self, p, acc):
        if p[0] == "pbind":
            acc.add(p[1])
        elif p[0] in ("pmut", "psome", "pref"):
            self.pat_names(p[1], acc)
        elif p[0] == "ptuple":
            for q in p[1]:
                self.pat_names(q, acc)
        elif p[0] == "pctor":
            for q in p[2]:
                self.pat_names(q, acc)
        elif p[0] == "por":
            for q in p[1]:
                self.pat_names(q, acc)

    def assigned(self, x, local, acc):
        """names assigned (`x = ..`, `x.push(..)`, `x.extend(..)`) that are not declared inside"""
        if isinstance(x, list):
            for y in x:
                self.assigned(y, local, acc)
            return
        if not isinstance(x, tuple) or not x:
            return
        k = x[0]
        if k == "block":
            loc = set(local)
            for s in x[1]:
                self.assigned(s, loc, acc)
                if s[0] == "let":
                    self.pat_names(s[1], loc)
            if x[2] is not None:
                self.assigned(x[2], loc, acc)
            return
        if k == "assign":
            if x[2][0] == "path" and len(x[2][1]) == 1:
                if x[2][1][0] not in local:
                    acc.append(x[2][1][0])
            else:
                self.fail(x[4], "assignment to something that is not a local variable")
            self.assigned(x[3], local, acc)
            return
        if k == "mcall" and (x[2] in ("push", "extend", "retain", "insert", "entry") or x[2] in CTX_METHODS) and x[1][0] == "path" and len(x[1][1]) == 1:
            if x[1][1][0] not in local:
                acc.append(x[1][1][0])
            self.assigned(x[3], local, acc)
            return
        if k == "match":
            self.assigned(x[1], local, acc)
            for pat, guard, body in x[2]:
                loc = set(local)
                self.pat_names(pat, loc)
                self.assigned(body, loc, acc)
            return
        if k in ("iflet", "whilelet"):
            loc = set(local)
            self.pat_names(x[1], loc)
            self.assigned(x[2], local, acc)
            for y in x[3:]:
                self.assigned(y, loc, acc)
            return
        if k == "closure":
            return
        for y in x[1:]:
            self.assigned(y, local, acc)

    def state_names(self, body, env):
        acc = []
        self.assigned(body, set(), acc)
        return [n for n in env["order"] if n in set(acc)]

    # ------------------------------------------------------------------ environment
    def env_new(self):
        return {"vars": {}, "order": []}

    def env_bind(self, env, name, ty):
        e2 = {"vars": dict(env["vars"]), "order": list(env["order"])}
        e2["vars"][name] = ty
        if name not in e2["order"]:
            e2["order"].append(name)
        return e2

    def v(self, name):
        return "v_" + name

    # ------------------------------------------------------------------ expressions
    def tr(self, e, env, em, expect=None):
        """-> (coq term, type).  em: Emit (effects allowed, bound in evaluation order) or None (pure context)."""
        k = e[0]
        if k == "paren":
            return self.tr(e[1], env, em, expect)
        if k == "un":
            if e[1] in ("&", "*"):
                return self.tr(e[2], env, em, expect)
            if e[1] == "!":
                t, ty = self.tr(e[2], env, em, "bool")
                if ty != "bool":
                    self.fail(e[3], "`!` on a non-bool")
                return "negb %s" % atom(t), "bool"
            self.fail(e[3], "unsupported unary operator %s" % e[1])
        if k == "path":
            p = e[1]
            if len(p) == 1 and p[0] in env["vars"]:
                return self.v(p[0]), env["vars"][p[0]]
            if len(p) == 1 and p[0] == "None":
                return "None", ("opt", expect[1] if isinstance(expect, tuple) and expect[0] == "opt" else None)
            if len(p) == 2 and p[0] == "SyntaxKind":
                return "S_" + p[1], "kind"
            if len(p) == 2 and p[0] == "RecordKind" and p[1] in ("Class", "Def"):
                return "(Some RK%s)" % p[1], "rkind"
            if len(p) == 2 and p[0] == "DocumentSymbolKind":
                return "DK" + p[1], "dskind"
            if len(p) == 2 and p[0] == "InlayHintKind":
                return "HK" + p[1], "hkind"
            self.fail(e[2], "unknown name %s" % "::".join(p))
        if k == "num":
            if expect == "usize":
                return "%d%%nat" % e[1], "usize"
            if expect == "size":
                return "%d" % e[1], "size"
            self.fail("?", "numeric literal of unknown type")
        if k == "char":
            return "%d" % e[1], "char"
        if k == "str":
            from rsutil import unescape_rust_str
            s = unescape_rust_str(e[1])
            return "[" + "; ".join(str(ord(c)) for c in s) + "]", "str"
        if k == "bool":
            return ("true" if e[1] else "false"), "bool"
        if k == "try":
            if em is None:
                self.fail(e[2], "`?` in a pure context")
            t, ty = self.tr(e[1], env, em)
            if not (isinstance(ty, tuple) and ty[0] == "opt"):
                self.fail(e[2], "`?` on a non-Option")
            return em.bind(self, "htry %s" % atom(t)), ty[1]
        if k == "bin":
            return self.tr_bin(e, env, em)
        if k == "call":
            return self.tr_call(e, env, em, expect)
        if k == "mcall":
            return self.tr_mcall(e, env, em, expect)
        if k == "struct":
            if e[1] == ["FoldingRange"] and [f for f, _ in e[2]] == ["range"]:
                t, ty = self.tr(e[2][0][1], env, em, "range")
                if ty != "range":
                    self.fail(e[3], "FoldingRange { range } of a non-range")
                return "mk_folding_range %s" % atom(t), "range"
            if e[1] == ["DocumentLink"] and [f for f, _ in e[2]] == ["range", "target"]:
                a0, t0 = self.tr(e[2][0][1], env, em, "range")
                a1, t1 = self.tr(e[2][1][1], env, em, "fileid")
                if (t0, t1) != ("range", "fileid"):
                    self.fail(e[3], "DocumentLink { range: %s, target: %s }" % (t0, t1))
                return "mk_document_link %s %s" % (atom(a0), atom(a1)), "doclink"
            if e[1] == ["Hover"] and [f for f, _ in e[2]] == ["signature", "document"]:
                a0, t0 = self.tr(e[2][0][1], env, em, "str")
                a1, t1 = self.tr(e[2][1][1], env, em, ("opt", "str"))
                if t0 != "str" or not same(t1, ("opt", "str")):
                    self.fail(e[3], "Hover { signature: %s, document: %s }" % (t0, t1))
                return "mk_hover %s %s" % (atom(a0), atom(a1)), "hover"
            if e[1] == ["DocumentSymbol"] and [f for f, _ in e[2]] == ["name", "typ", "range", "kind", "children"]:
                want = ["str", "str", "range", "dskind", ("list", "docsym")]
                ts = []
                for (f, x), w in zip(e[2], want):
                    t, ty = self.tr(x, env, em, w)
                    if not same(ty, w):
                        self.fail(e[3], "DocumentSymbol.%s: %s, expected %s" % (f, ty, w))
                    ts.append(atom(t))
                return "mk_document_symbol " + " ".join(ts), "docsym"
            self.fail(e[3], "unsupported struct literal %s" % "::".join(e[1]))
        if k in ("match", "if", "iflet", "block"):
            return self.tr_control(e, env, em, expect)
        if k == "field":
            return self.tr_field(e, env, em)
        if k == "tuple" and len(e[1]) >= 2:
            want = expect[1] if isinstance(expect, tuple) and expect[0] == "tuple" and len(expect[1]) == len(e[1]) else [None] * len(e[1])
            ts, tys = [], []
            for x, w in zip(e[1], want):
                t, ty = self.tr(x, env, em, w)
                ts.append(t)
                tys.append(ty)
            return tuple_term(ts), ("tuple", tys)
        if k == "closure":
            self.fail(e[3], "closure outside a call argument")
        if k == "macro":
            if e[1] == ["unreachable"]:
                if em is None:
                    self.fail(e[3], "unreachable! in a pure context")
                return em.bind(self, "Panic"), None
            if e[1] == ["format"] and e[2] and e[2][0][0] == "str":
                from rsutil import unescape_rust_str
                lit = unescape_rust_str(e[2][0][1])
                parts = re.split(r"(\{[A-Za-z_0-9]*\})", lit)
                rest_args = list(e[2][1:])
                pieces = []
                for part in parts:
                    if re.fullmatch(r"\{[A-Za-z_0-9]*\}", part):
                        if part == "{}":
                            if not rest_args:
                                self.fail(e[3], "format!: too few arguments")
                            x = rest_args.pop(0)
                        else:
                            x = ("path", [part[1:-1]], e[3])
                        t, ty = self.tr(x, env, em)
                        if ty not in ("str", "tytype"):
                            self.fail(e[3], "format!: argument of type %s" % (ty,))
                        pieces.append(atom(t))
                    elif part:
                        if "{" in part or "}" in part:
                            self.fail(e[3], "format!: unsupported format spec in %r" % lit)
                        pieces.append("[" + "; ".join(str(ord(c)) for c in part) + "]")
                if rest_args:
                    self.fail(e[3], "format!: too many arguments")
                return (" ++ ".join(pieces) if pieces else "[]"), "str"
            if e[1] == ["matches"] and len(e[2]) == 2 and e[2][1][0] == "call" and e[2][1][1][0] == "path" \
                    and e[2][1][1][1][:2] == ["ast", "ArgValue"] and len(e[2][1][1][1]) == 3 \
                    and e[2][1][2] == [("path", ["_"], e[2][1][2][0][2])] :
                t, ty = self.tr(e[2][0], env, em)
                if ty != ("ast", "ArgValue"):
                    self.fail(e[3], "matches! on a %s" % (ty,))
                return "sk_eqb (rw_kind %s) S_%s" % (atom(t), e[2][1][1][1][2]), "bool"
            if e[1] == ["vec"] and not e[2]:
                return "[]", ("list", expect[1] if isinstance(expect, tuple) and expect[0] == "list" else None)
            if e[1] == ["vec"] and len(e[2]) == 1:
                t, ty = self.tr(e[2][0], env, em, expect[1] if isinstance(expect, tuple) and expect[0] == "list" else None)
                return "[%s]" % t, ("list", ty)
            self.fail(e[3], "unsupported macro %s!" % "::".join(e[1]))
        self.fail("?", "unsupported expression form %s" % k)

    def tr_bin(self, e, env, em):
        op, a, b, line = e[1], e[2], e[3], e[4]
        if op in ("&&", "||"):
            ta, tya = self.tr(a, env, em, "bool")
            if self.has_effect(b):
                self.fail(line, "effect in a conditionally evaluated operand")
            tb, tyb = self.tr(b, env, None, "bool")
            if tya != "bool" or tyb != "bool":
                self.fail(line, "%s on non-bool" % op)
            return "%s %s %s" % (atom(ta), op, atom(tb)), "bool"
        if op in ("==", "!="):
            if a[0] == "num":
                tb, tyb = self.tr(b, env, em)
                ta, tya = self.tr(a, env, em, tyb)
            else:
                ta, tya = self.tr(a, env, em)
                tb, tyb = self.tr(b, env, em, tya)
            if not same(tya, tyb):
                self.fail(line, "comparison of %s with %s" % (tya, tyb))
            eq = {"kind": "sk_eqb", "usize": "Nat.eqb", "size": "N.eqb", "bool": "Bool.eqb", "char": "N.eqb",
                  "rkind": "opt_rk_eqb", "fileid": "N.eqb"}.get(tya)
            if isinstance(tya, tuple) and tya == ("opt", "str") and same(tyb, tya):
                eq = "opt_text_eqb"
            if eq is None:
                self.fail(line, "== on type %s" % (tya,))
            t = "%s %s %s" % (eq, atom(ta), atom(tb))
            return (t if op == "==" else "negb (%s)" % t), "bool"
        self.fail(line, "unsupported binary operator %s" % op)

    def closure(self, cl, argtys, env, want=None):
        """-> (fun term, result type); closures are pure"""
        if cl[0] != "closure":
            self.fail("?", "expected a closure")
        pats, body, line = cl[1], cl[2], cl[3]
        if len(pats) != len(argtys):
            self.fail(line, "closure arity")
        optional = False
        if self.has_effect(body):
            if not self.only_try(body):
                self.fail(line, "effect inside a closure")
            optional = True
        e2 = env
        names = []
        for p, ty in zip(pats, argtys):
            while p[0] in ("pref", "pmut"):
                p = p[1]
            if p[0] == "pbind":
                e2 = self.env_bind(e2, p[1], ty)
                names.append(self.v(p[1]))
            elif p[0] == "pwild":
                names.append("_")
            else:
                self.fail(line, "closure parameter pattern")
        if optional:
            t, ty = self.opt_block(body, e2, want)
        elif body[0] == "block":
            t, ty = self.pure_control(body, e2, want)
        else:
            t, ty = self.tr(body, e2, None, want)
        return "(fun %s =>\n%s)" % (" ".join(names), t), ty

    def tr_field(self, e, env, em):
        t, ty = self.tr(e[1], env, em)
        f, line = e[2], e[3]
        a = atom(t)
        if ty in ENTRY_TYPES:
            if f == "name":
                return "en_name %s" % a, "str"
            if f == "typ" and ty in ("targ", "field", "variable", "defset"):
                return "en_typ %s" % a, "tytype"
            if f == "define_loc":
                return "en_define_loc %s" % a, "filerange"
            if f == "kind" and ty == "record":
                return "en_rkind %s" % a, "rkind"
            if f == "def_list" and ty == "defset":
                return "en_def_list %s" % a, ("list", "recordid")
        if ty == "filerange":
            if f == "range":
                return "fr_range %s" % a, "range"
            if f == "file":
                return "fr_file %s" % a, "fileid"
        if ty == "perr" and f == "range":
            return "pe_range %s" % a, "range"
        if ty == "perr" and f == "message":
            return "pe_message %s" % a, "msgtype"
        if ty == "diag" and f == "location":
            return "dg_location %s" % a, "filerange"
        if ty == "field" and f == "parent":
            return "en_field_parent %s" % a, "recordid"
        if ty == "variable" and f == "kind":
            return "en_vkind %s" % a, "vkind"
        if ty == "filepos" and f == "file":
            return "fp_file %s" % a, "fileid"
        if ty == "filepos" and f == "position":
            return "fp_position %s" % a, "size"
        if ty == "hint" and f == "position":
            return "h_pos %s" % a, "size"
        self.fail(line, "unsupported field .%s of %s" % (f, ty))

    def mclosure(self, cl, argtys, env, want=None):
        """a closure whose body has effects -> (fun .. => hm term yielding its value, result type)"""
        pats, body, line = cl[1], cl[2], cl[3]
        if len(pats) != len(argtys):
            self.fail(line, "closure arity")
        e2 = env
        names = []
        for p, ty in zip(pats, argtys):
            while p[0] in ("pref", "pmut"):
                p = p[1]
            if p[0] == "pbind":
                e2 = self.env_bind(e2, p[1], ty)
                names.append(self.v(p[1]))
            elif p[0] == "pwild":
                names.append("_")
            else:
                self.fail(line, "closure parameter pattern")
        old = self.cur_ctx
        self.cur_ctx = Ctx(old.fn if old else self.cur_fn, None)      # no `break` out of a closure
        try:
            em = Emit()
            t, ty = self.tr(body, e2, em, want)
        finally:
            self.cur_ctx = old
        return "(fun %s =>\n%sVal %s)" % (" ".join(names), em.prefix(), atom(t)), ty

    def tr_call(self, e, env, em, expect):
        f, args, line = e[1], e[2], e[3]
        if f[0] != "path":
            self.fail(line, "call of a non-path")
        p = f[1]
        if p == ["Some"] and len(args) == 1:
            want = expect[1] if isinstance(expect, tuple) and expect[0] == "opt" else None
            t, ty = self.tr(args[0], env, em, want)
            return "Some %s" % atom(t), ("opt", ty)
        if p == ["SyntaxElement", "from"] and len(args) == 1:
            t, ty = self.tr(args[0], env, em)
            if ty not in CURSORISH:
                self.fail(line, "SyntaxElement::from of %s" % (ty,))
            return t, "element"
        if p == ["TextRange", "new"] and len(args) == 2:
            ta, tya = self.tr(args[0], env, em, "size")
            tb, tyb = self.tr(args[1], env, em, "size")
            if tya != "size" or tyb != "size":
                self.fail(line, "TextRange::new of non-TextSize")
            return "rg_new %s %s" % (atom(ta), atom(tb)), "range"
        if len(p) == 3 and p[0] == "ast" and p[2] == "cast" and p[1] in ("ClassRef", "ClassValue") and len(args) == 1:
            t, ty = self.tr(args[0], env, em, "node")
            if ty != "node":
                self.fail(line, "ast cast of a %s" % (ty,))
            return "ast_cast S_%s %s" % (p[1], atom(t)), ("opt", ("ast", p[1]))
        if p == ["InlayHint", "new"] and len(args) == 3:
            a0, t0 = self.tr(args[0], env, em, "size")
            a1, t1 = self.tr(args[1], env, em, "str")
            a2, t2 = self.tr(args[2], env, em, "hkind")
            if (t0, t1, t2) != ("size", "str", "hkind"):
                self.fail(line, "InlayHint::new(%s, %s, %s)" % (t0, t1, t2))
            return "mk_inlay_hint %s %s %s" % (atom(a0), atom(a1), atom(a2)), "hint"
        if p == ["ast", "Include", "cast"] and len(args) == 1:
            t, ty = self.tr(args[0], env, em, "node")
            if ty != "node":
                self.fail(line, "ast cast of a %s" % (ty,))
            return "ast_cast S_Include %s" % atom(t), ("opt", ("ast", "Include"))
        if p == ["SyntaxNodePtr", "new"] and len(args) == 1:
            t, ty = self.tr(args[0], env, em, "node")
            if ty != "node":
                self.fail(line, "SyntaxNodePtr::new of a %s" % (ty,))
            return "node_ptr %s" % atom(t), "nodeptr"
        if p == ["IncludeId"] and len(args) == 1:
            t, ty = self.tr(args[0], env, em, "nodeptr")
            if ty != "nodeptr":
                self.fail(line, "IncludeId of a %s" % (ty,))
            return t, "incid"
        if p == ["FileRange", "new"] and len(args) == 2:
            a0, t0 = self.tr(args[0], env, em, "fileid")
            a1, t1 = self.tr(args[1], env, em, "range")
            if (t0, t1) != ("fileid", "range"):
                self.fail(line, "FileRange::new(%s, %s)" % (t0, t1))
            return "mk_file_range %s %s" % (atom(a0), atom(a1)), "filerange"
        if p == ["Diagnostic", "new"] and len(args) == 2:
            a0, t0 = self.tr(args[0], env, em, "filerange")
            a1, t1 = self.tr(args[1], env, em, "str")
            if (t0, t1) != ("filerange", "str"):
                self.fail(line, "Diagnostic::new(%s, %s)" % (t0, t1))
            return "mk_diagnostic %s %s" % (atom(a0), atom(a1)), "diag"
        if p == ["HashMap", "new"] and not args:
            return "[]", "dmap"
        if p == ["CompletionContext", "new"] and not args:
            return "[]", "cctx"
        if p == ["ast", "Type", "can_cast"] and len(args) == 1:
            t, ty = self.tr(args[0], env, em, "kind")
            if ty != "kind":
                self.fail(line, "can_cast of %s" % (ty,))
            return "ast_type_can_cast %s" % atom(t), "bool"
        if p == ["Vec", "new"] and not args:
            return "[]", ("list", None)
        name = p[-1]
        if name in self.fns and (len(p) == 1 or p[:-1] in (["utils"], ["super"], ["crate", "utils"])):
            sig = self.fns[name]
            if len(args) != len(sig["params"]):
                self.fail(line, "arity of %s" % name)
            ts = []
            for a, (pn, pty) in zip(args, sig["params"]):
                t, ty = self.tr(a, env, em, pty)
                if not same(ty, pty):
                    self.fail(line, "argument %s of %s: %s, expected %s" % (pn, name, ty, pty))
                ts.append(atom(t))
            call = "%s %s" % (sig["coq"], " ".join(ts))
            if sig.get("rec"):
                fuel = "fuel" if name == self.cur_fn else REC_FUEL[name]
                call = "%s %s %s" % (sig["coq"], fuel, " ".join(ts))
            if sig["effect"]:
                if em is None:
                    self.fail(line, "call of the effectful fn %s in a pure context" % name)
                return em.bind(self, "hcall (%s)" % call), sig["ret"]
            return call, sig["ret"]
        self.fail(line, "unsupported call %s" % "::".join(p))

    def tr_mcall(self, e, env, em, expect):
        recv, m, args, line = e[1], e[2], e[3], e[4]
        # `s.matches(c).count()`
        if m == "count" and not args and recv[0] == "mcall" and recv[2] == "matches" and len(recv[3]) == 1:
            ts, tys = self.tr(recv[1], env, em)
            tc, tyc = self.tr(recv[3][0], env, em)
            if tys != "str" or tyc != "char":
                self.fail(line, "matches(..).count() on %s / %s" % (tys, tyc))
            return "st_count_char %s %s" % (atom(ts), atom(tc)), "usize"
        if m == "left_biased" and not args and recv[0] == "mcall" and recv[2] == "token_at_offset" and len(recv[3]) == 1:
            tn, tyn = self.tr(recv[1], env, em)
            to, tyo = self.tr(recv[3][0], env, em, "size")
            if tyn != "node" or tyo != "size":
                self.fail(line, "token_at_offset(..).left_biased() on %s / %s" % (tyn, tyo))
            return "rw_token_at_offset_left %s %s" % (atom(tn), atom(to)), ("opt", "token")
        t, ty = self.tr(recv, env, em)
        a = atom(t)
        n = len(args)

        def arg(i, want=None):
            x, xt = self.tr(args[i], env, em, want)
            if want is not None and not same(xt, want):
                self.fail(line, "argument %d of .%s(): %s, expected %s" % (i, m, xt, want))
            return atom(x), xt

        if ty in CURSORISH:
            simple = {
                ("kind", 0): ("rw_kind %s", "kind", CURSORISH),
                ("parent", 0): ("rw_parent %s", ("opt", "node"), CURSORISH),
                ("into_node", 0): ("rw_into_node %s", ("opt", "node"), ("element",)),
                ("as_node", 0): ("rw_into_node %s", ("opt", "node"), ("element",)),
                ("into_token", 0): ("rw_into_token %s", ("opt", "token"), ("element",)),
                ("as_token", 0): ("rw_into_token %s", ("opt", "token"), ("element",)),
                ("prev_sibling_or_token", 0): ("rw_prev_sibling_or_token %s", ("opt", "element"), CURSORISH),
                ("last_child_or_token", 0): ("rw_last_child_or_token %s", ("opt", "element"), ("node",)),
                ("first_token", 0): ("rw_first_token %s", ("opt", "token"), ("node",)),
                ("text_range", 0): ("rw_text_range %s", "range", CURSORISH),
                ("text", 0): ("rw_text %s", "str", ("token",)),
                ("descendants", 0): ("rw_descendants %s", ("list", "node"), ("node",)),
                ("descendants_with_tokens", 0): ("rw_descendants_with_tokens %s", ("list", "element"), ("node",)),
                ("clone", 0): ("%s", ty, CURSORISH),
            }
            if (m, n) in simple:
                fmt, rty, allowed = simple[(m, n)]
                if ty not in allowed:
                    self.fail(line, ".%s() on a %s" % (m, ty))
                return fmt % a, rty
            if m == "into" and n == 0:
                return t, "element"
            if m == "token_at_offset" and n == 1 and ty == "node":
                x, _ = arg(0, "size")
                return "(%s, %s)" % (a, x), "tokenatoffset"
            if m == "covering_element" and n == 1 and ty == "node":
                if em is None:
                    self.fail(line, "covering_element (asserts) in a pure context")
                r, _ = arg(0, "range")
                return em.bind(self, "hassert (rw_covering_element %s %s)" % (a, r)), "element"
            self.fail(line, "unsupported method .%s/%d on %s" % (m, n, ty))
        if ty == "kind":
            if (m, n) == ("is_trivia", 0):
                return "sk_is_trivia %s" % a, "bool"
        if ty == "range":
            if (m, n) == ("start", 0):
                return "rg_start %s" % a, "size"
            if (m, n) == ("end", 0):
                return "rg_end %s" % a, "size"
            if (m, n) == ("is_empty", 0):
                return "rg_is_empty %s" % a, "bool"
        if ty == "db" and (m, n) == ("parse", 1):
            f, _ = arg(0, "fileid")
            return "db_parse %s %s" % (a, f), "tree"
        if ty == "tree" and (m, n) == ("syntax_node", 0):
            return "rw_syntax_node %s" % a, "node"
        if ty == "str":
            if (m, n) == ("starts_with", 1):
                p, _ = arg(0, "str")
                return "st_starts_with %s %s" % (a, p), "bool"
            if (m, n) == ("trim_start_matches", 1):
                c, _ = arg(0, "char")
                return "st_trim_start_matches_char %s %s" % (a, c), "str"
            if (m, n) == ("trim_start", 0):
                return "st_trim_start %s" % a, "str"
            if (m, n) in (("to_string", 0), ("to_owned", 0), ("clone", 0), ("as_str", 0)):
                return t, "str"
            if (m, n) == ("is_empty", 0):
                return "st_is_empty %s" % a, "bool"
        if isinstance(ty, tuple) and ty[0] == "opt":
            if (m, n) == ("map", 1):
                f, rty = self.closure(args[0], [ty[1]], env)
                return "option_map %s %s" % (f, a), ("opt", rty)
            if (m, n) == ("map_or", 2):
                d, dty = arg(0)
                f, rty = self.closure(args[1], [ty[1]], env, dty)
                if not same(dty, rty):
                    self.fail(line, "map_or: default %s, closure %s" % (dty, rty))
                return "opt_map_or %s %s %s" % (a, d, f), rty
            if (m, n) == ("and_then", 1):
                f, rty = self.closure(args[0], [ty[1]], env)
                if not (isinstance(rty, tuple) and rty[0] == "opt"):
                    self.fail(line, "and_then: closure does not return an Option")
                return "opt_and_then %s %s" % (a, f), rty
        if isinstance(ty, tuple) and ty[0] == "ast":
            if ty[1] in ("ClassRef", "ClassValue") and (m, n) == ("arg_value_list", 0):
                return "ast_arg_value_list %s" % a, ("opt", ("ast", "ArgValueList"))
            if ty[1] == "ArgValueList" and (m, n) == ("arg_values", 0):
                return "ast_arg_values %s" % a, ("list", ("ast", "ArgValue"))
            if (m, n) == ("syntax", 0):
                return t, "node"
        if ty == "range" and (m, n) == ("contains_inclusive", 1):
            x, _ = arg(0, "size")
            return "rg_contains_inclusive %s %s" % (a, x), "bool"
        if ty == "idb" and (m, n) == ("index", 0):
            return "db_index %s" % a, "index"
        if ty == "idb" and (m, n) == ("parse", 1):
            f, _ = arg(0, "fileid")
            return "idb_parse %s %s" % (a, f), "tree"
        if ty == "index" and (m, n) == ("symbol_map", 0):
            return "index_symbol_map %s" % a, "symmap"
        if ty == "symmap":
            if (m, n) == ("iter_symbols_in_file", 1):
                f, _ = arg(0, "fileid")
                return "sm_iter_symbols_in_file %s %s" % (a, f), ("opt", ("list", "symid"))
            acc = {"find_symbol_at": ("sm_find_symbol_at", "filepos", ("opt", "symview")),
                   "symbol": ("sm_symbol", "symid", "symview"), "template_arg": ("sm_template_arg", "targid", "targ"),
                   "record_field": ("sm_record_field", "fieldid", "field"), "record": ("sm_record", "recordid", "record"),
                   "iter_symbols_in_range": ("sm_iter_symbols_in_range", "filerange",
                                             ("opt", ("list", ("tuple", ["filerange", "symid"]))))}
            if m in acc and n == 1:
                if em is None:
                    self.fail(line, "panicking accessor .%s() in a pure context" % m)
                fn_, aty, rty = acc[m]
                x, _ = arg(0, aty)
                return em.bind(self, "hsres (%s %s %s)" % (fn_, a, x)), rty
        if ty == "hdb":
            if (m, n) == ("resolved_include_map", 1):
                f, _ = arg(0, "fileid")
                return "hdb_resolved_include_map %s %s" % (a, f), "incmap"
            if (m, n) == ("parse", 1):
                f, _ = arg(0, "fileid")
                return "hdb_parse_of %s %s" % (a, f), "hparse"
            if (m, n) == ("source_root", 0):
                return "hdb_source_root %s" % a, "sroot"
            if (m, n) == ("index", 0):
                return "hdb_index %s" % a, "hindex"
        if ty == "hparse" and (m, n) == ("syntax_node", 0):
            return "hp_syntax_node %s" % a, "node"
        if ty == "hparse" and (m, n) == ("errors", 0):
            return "hp_errors %s" % a, ("list", "perr")
        if ty == "sroot" and (m, n) == ("iter_files", 0):
            return t, ("list", "fileid")
        if ty == "hindex" and (m, n) == ("diagnostics", 0):
            return t, ("list", "diag")
        if ty == "incmap" and (m, n) == ("get", 1):
            k, _ = arg(0, "incid")
            return "incmap_get %s %s" % (a, k), ("opt", "fileid")
        if ty == ("ast", "Include") and (m, n) == ("path", 0):
            return "ast_field_child %s \"path\"%%string" % a, ("opt", ("ast", "String"))
        if ty == "msgtype" and (m, n) == ("to_string", 0):
            return t, "str"
        if isinstance(ty, tuple) and ty[0] == "list" and (m, n) == ("cloned", 0):
            return t, ty
        if ty == "cctx" and (m, n) == ("finish", 0):
            return t, ("list", "compitem")
        if ty == "node" and (m, n) == ("token_at_offset", 1):
            x, _ = arg(0, "size")
            return "(%s, %s)" % (a, x), "tokenatoffset"
        if ty == "tokenatoffset" and (m, n) == ("left_biased", 0):
            return "rw_token_at_offset_left (fst %s) (snd %s)" % (a, a), ("opt", "token")
        if ty == "symview" and (m, n) == ("define_loc", 0):
            return "sv_define_loc %s" % a, "filerange"
        if ty == "symview" and (m, n) == ("reference_locs", 0):
            return "sv_reference_locs %s" % a, ("list", "filerange")
        if isinstance(ty, tuple) and ty[0] == "list" and (m, n) == ("to_vec", 0):
            return t, ty
        if ty in ("record", "multiclass") and (m, n) == ("iter_template_arg", 0):
            return "en_iter_template_arg %s" % a, ("list", "targid")
        if ty == "record" and (m, n) == ("iter_field", 0):
            return "en_iter_field %s" % a, ("list", "fieldid")
        if ty == "tytype" and (m, n) == ("to_string", 0):
            return t, "str"
        if ty == "str" and (m, n) == ("into", 0):
            return t, "str"
        if ty == "recordid" and (m, n) == ("into", 0):
            return "sid_of_record %s" % a, "symid"
        if isinstance(ty, tuple) and ty[0] == "list":
            el = ty[1]
            if m in ("map", "filter", "filter_map") and n == 1 and args[0][0] == "closure" and self.has_effect(args[0][2]) \
                    and not self.only_try(args[0][2]):
                if em is None:
                    self.fail(line, "effectful closure in a pure context")
                f, rty = self.mclosure(args[0], [el], env, "bool" if m == "filter" else None)
                if m == "map":
                    return em.bind(self, "hmapM %s %s" % (f, a)), ("list", rty)
                if m == "filter":
                    if rty != "bool":
                        self.fail(line, "filter: closure does not return bool")
                    return em.bind(self, "hfilterM %s %s" % (f, a)), ty
                if not (isinstance(rty, tuple) and rty[0] == "opt"):
                    self.fail(line, "filter_map: closure does not return an Option")
                return em.bind(self, "hfilter_mapM %s %s" % (f, a)), ("list", rty[1])
            if (m, n) == ("take_while", 1):
                f, rty = self.closure(args[0], [el], env, "bool")
                if rty != "bool":
                    self.fail(line, "take_while: closure does not return bool")
                return "it_take_while %s %s" % (f, a), ty
            if (m, n) == ("zip", 1):
                b, bty = arg(0)
                if not (isinstance(bty, tuple) and bty[0] == "list"):
                    self.fail(line, "zip with a non-iterator")
                return "combine %s %s" % (a, b), ("list", ("tuple", [el, bty[1]]))
            if (m, n) == ("chain", 1):
                b, bty = arg(0, ty)
                return "%s ++ %s" % (a, b), (ty if el is not None else bty)
            if (m, n) == ("filter_map", 1):
                f, rty = self.closure(args[0], [el], env)
                if not (isinstance(rty, tuple) and rty[0] == "opt"):
                    self.fail(line, "filter_map: closure does not return an Option")
                return "it_filter_map %s %s" % (f, a), ("list", rty[1])
            if (m, n) == ("filter", 1):
                f, rty = self.closure(args[0], [el], env, "bool")
                if rty != "bool":
                    self.fail(line, "filter: closure does not return bool")
                return "filter %s %s" % (f, a), ty
            if (m, n) == ("map", 1):
                f, rty = self.closure(args[0], [el], env)
                return "map %s %s" % (f, a), ("list", rty)
            if (m, n) == ("last", 0):
                return "it_last %s" % a, ("opt", el)
            if (m, n) == ("rev", 0):
                return "rev %s" % a, ty
            if (m, n) in (("collect", 0), ("into_iter", 0), ("iter", 0)):
                return t, ty
            if (m, n) == ("join", 1) and el in ("str", None):
                s, _ = arg(0, "str")
                return "st_join %s %s" % (s, a), "str"
        self.fail(line, "unsupported method .%s/%d on %s" % (m, n, ty))

    # ------------------------------------------------------------------ control-flow expressions
    def tr_control(self, e, env, em, expect):
        """match / if / if let / block in expression position"""
        if em is not None and self.has_effect(e):
            ctx = self.cur_ctx
            term, ty = self.m_value(e, env, ctx, expect)
            return em.bind(self, "(" + term + ")"), ty
        return self.pure_control(e, env, expect)

    def pure_control(self, e, env, expect):
        k = e[0]
        if k == "block":
            out = []
            e2 = env
            for s in e[1]:
                if s[0] != "let" or s[4] is not None:
                    self.fail(s[-1], "statement in a pure block")
                p = s[1]
                while p[0] in ("pmut", "pref"):
                    p = p[1]
                if p[0] != "pbind":
                    self.fail(s[5], "let pattern in a pure block")
                t, ty = self.tr(s[3], e2, None)
                out.append("let %s := %s in" % (self.v(p[1]), t))
                e2 = self.env_bind(e2, p[1], ty)
            if e[2] is None:
                self.fail("?", "pure block without a value")
            t, ty = self.tr(e[2], e2, None, expect)
            return "\n".join(out + [t]), ty
        arms = self.arms_of(e, env, None)
        return self.render_arms(arms, lambda blk, en: self.pure_control(blk, en, expect), expect)

    def arms_of(self, e, env, em):
        """normal form of match / if / if let: ("if", cond term, A, B) | ("opt", scrut term, name, ty, SomeBlock, NoneBlock, env')
        nested; blocks are (block ast, env)"""
        k = e[0]
        if k == "if":
            c, cty = self.tr(e[1], env, em, "bool")
            if cty != "bool":
                self.fail(e[4], "if on a non-bool")
            return ("if", c, (e[2], env), (e[3] if e[3] is not None else ("block", [], None), env))
        if k == "iflet":
            fake = ("match", e[2], [(e[1], None, e[3]), (("pwild",), None, e[4] if e[4] is not None else ("block", [], None))], e[5])
            return self.arms_of(fake, env, em)
        if k != "match":
            self.fail("?", "not a control expression")
        scrut, arms, line = e[1], e[2], e[3]
        t, ty = self.tr(scrut, env, em)
        if ty == "vkind":
            variants = enum_variants(cut_tests(strip_comments(read(self.repo, VARIABLE))), "VariableKind")
            seen, bodies = set(), []
            for pat, guard, body in arms:
                if guard is not None:
                    self.fail(line, "guard in a match on VariableKind")
                alts = pat[1] if pat[0] == "por" else [pat]
                for q in alts:
                    if q == ("pwild",):
                        seen |= set(variants)
                    elif q[0] == "ppath" and len(q[1]) == 2 and q[1][0] == "VariableKind" and q[1][1] in variants:
                        seen.add(q[1][1])
                    else:
                        self.fail(line, "pattern on a VariableKind")
                bodies.append(body)
            if seen != set(variants):
                self.fail(line, "non-exhaustive match on VariableKind")
            rendered = []
            for b in bodies:
                if self.has_effect(b) or b[0] != "block" or b[1] or b[2] is None:
                    self.fail(line, "arm of a match on VariableKind is not a pure expression")
                rendered.append(self.tr(b[2], env, None)[0])
            if any(r != rendered[0] for r in rendered[1:]):
                # VariableKind is not in the symbol-map model: only a match whose arms all agree can be rendered
                self.fail(line, "the arms of a match on VariableKind differ (VariableKind is not modelled)")
            return ("one", (bodies[0], env))
        if ty == "symview":
            cases = []
            for ctor, ety in SV_CTORS:
                chain = None          # built back to front
                applicable = []
                for pat, guard, body in arms:
                    if pat == ("pwild",):
                        applicable.append((None, guard, body))
                        if guard is None:
                            break
                    elif pat[0] == "pctor" and pat[1] == ["Symbol", ctor] and len(pat[2]) == 1:
                        q = pat[2][0]
                        while q[0] in ("pmut", "pref"):
                            q = q[1]
                        if q[0] not in ("pbind", "pwild"):
                            self.fail(line, "nested pattern inside Symbol::%s(..)" % ctor)
                        applicable.append((q[1] if q[0] == "pbind" else None, guard, body))
                        if guard is None:
                            break
                    elif pat[0] == "pctor" and pat[1][0] == "Symbol" and pat[1][1] in dict(SV_CTORS):
                        continue
                    else:
                        self.fail(line, "pattern on a Symbol")
                if not applicable or applicable[-1][1] is not None:
                    self.fail(line, "non-exhaustive match on Symbol (constructor %s)" % ctor)
                binders = {b for b, _, _ in applicable if b is not None}
                if len(binders) > 1:
                    self.fail(line, "the arms for Symbol::%s bind different names %s" % (ctor, sorted(binders)))
                binder = binders.pop() if binders else None
                e2 = self.env_bind(env, binder, ety) if binder else env
                node = None
                for b, guard, body in reversed(applicable):
                    en = e2 if b is not None else env
                    if guard is None:
                        node = (body, en)
                    else:
                        if self.has_effect(guard):
                            self.fail(line, "effect in a match guard")
                        g, gty = self.tr(guard, en, None, "bool")
                        if gty != "bool":
                            self.fail(line, "guard is not a bool")
                        node = (("__arms", ("if", g, (body, en), node)), en)
                cases.append((ctor, self.v(binder) if binder else "_", node))
            return ("sv", t, cases)
        if ty != "kind" and any(g is not None for _, g, _ in arms):
            self.fail(line, "match guard")
        if ty == "bool":
            tb = fb = None
            for pat, _, body in arms:
                if pat == ("pbool", True) and tb is None:
                    tb = body
                elif pat == ("pbool", False) and fb is None:
                    fb = body
                elif pat == ("pwild",):
                    tb = tb or body
                    fb = fb or body
                else:
                    self.fail(line, "pattern on a bool")
            if tb is None or fb is None:
                self.fail(line, "non-exhaustive match on bool")
            return ("if", t, (tb, env), (fb, env))
        if ty == "kind":
            if not arms or arms[-1][0] != ("pwild",) or arms[-1][1] is not None:
                self.fail(line, "a match on SyntaxKind must end in an unguarded `_` arm")
            node = (arms[-1][2], env)
            for pat, guard, body in reversed(arms[:-1]):
                if pat == ("pwild",) and guard is not None:
                    if self.has_effect(guard):
                        self.fail(line, "effect in a match guard")
                    g, gty = self.tr(guard, env, None, "bool")
                    if gty != "bool":
                        self.fail(line, "guard is not a bool")
                    node = (("__arms", ("if", g, (body, env), node)), env)
                    continue
                if guard is not None:
                    self.fail(line, "guard on a SyntaxKind pattern")
                alts = pat[1] if pat[0] == "por" else [pat]
                tests = []
                for q in alts:
                    if q[0] != "ppath" or len(q[1]) != 2 or q[1][0] != "SyntaxKind":
                        self.fail(line, "pattern on a SyntaxKind")
                    tests.append("sk_eqb %s S_%s" % (atom(t), q[1][1]))
                node = (("__arms", ("if", " || ".join(tests), (body, env), node)), env)
            return node[0][1] if node[0][0] == "__arms" else ("if", "true", node, node)
        if isinstance(ty, tuple) and ty[0] == "opt":
            some = none = None
            for pat, _, body in arms:
                if pat[0] == "psome" and some is None:
                    p = pat[1]
                    while p[0] in ("pmut", "pref"):
                        p = p[1]
                    if p[0] == "pbind":
                        some = (p[1], body)
                    elif p[0] == "pwild":
                        some = (None, body)
                    else:
                        self.fail(line, "nested pattern inside Some(..)")
                elif pat == ("pnone",) and none is None:
                    none = body
                elif pat == ("pwild",):
                    some = some or (None, body)
                    none = none or body
                else:
                    self.fail(line, "pattern on an Option")
            if some is None or none is None:
                self.fail(line, "non-exhaustive match on Option")
            e2 = self.env_bind(env, some[0], ty[1]) if some[0] else env
            return ("opt", t, self.v(some[0]) if some[0] else "_", (some[1], e2), (none, env))
        if ty == "element":
            hit = miss = None
            proj = None
            for pat, _, body in arms:
                if pat[0] == "pctor" and pat[1] in (["SyntaxElement", "Token"], ["SyntaxElement", "Node"]) and hit is None:
                    p = pat[2][0]
                    while p[0] in ("pmut", "pref"):
                        p = p[1]
                    proj = "rw_into_token" if pat[1][1] == "Token" else "rw_into_node"
                    rty = "token" if pat[1][1] == "Token" else "node"
                    hit = (p[1] if p[0] == "pbind" else None, body, rty)
                elif (pat == ("pwild",) or pat[0] == "pctor") and hit is not None and miss is None:
                    miss = body
                else:
                    self.fail(line, "pattern on a SyntaxElement")
            if hit is None or miss is None:
                self.fail(line, "non-exhaustive match on SyntaxElement")
            e2 = self.env_bind(env, hit[0], hit[2]) if hit[0] else env
            return ("opt", "%s %s" % (proj, atom(t)), self.v(hit[0]) if hit[0] else "_", (hit[1], e2), (miss, env))
        self.fail(line, "match on type %s" % (ty,))

    def render_arms(self, arms, blk, expect):
        """arms: normal form; blk(block ast, env) -> (term, type)"""
        def sub(x):
            b, en = x
            if b[0] == "__arms":
                return self.render_arms(b[1], blk, expect)
            return blk(b, en)
        if arms[0] == "one":
            return sub(arms[1])
        if arms[0] == "sv":
            outs, rty = [], None
            for ctor, var, node in arms[2]:
                tt, tty = sub(node)
                if rty is not None and not same(rty, tty):
                    self.fail("?", "arms of different types %s / %s" % (rty, tty))
                if rty is None or (isinstance(rty, tuple) and rty[1] is None):
                    rty = tty if tty is not None else rty
                outs.append("| Sv%s %s =>\n%s" % (ctor, var, tt))
            return "match %s with\n%s\nend" % (arms[1], "\n".join(outs)), rty
        if arms[0] == "if":
            ta, tya = sub(arms[2])
            tb, tyb = sub(arms[3])
            if not same(tya, tyb):
                self.fail("?", "branches of different types %s / %s" % (tya, tyb))
            return "if %s then\n%s\nelse\n%s" % (arms[1], ta, tb), (tya if tya is not None else tyb)
        ta, tya = sub(arms[3])
        tb, tyb = sub(arms[4])
        if not same(tya, tyb):
            self.fail("?", "arms of different types %s / %s" % (tya, tyb))
        ty = tya if not (isinstance(tya, tuple) and tya[1] is None) else tyb
        return "match %s with\n| Some %s =>\n%s\n| None =>\n%s\nend" % (arms[1], arms[2], ta, tb), ty

    # ------------------------------------------------------------------ monadic blocks
    def m_value(self, e, env, ctx, expect=None):
        """a control expression / block with effects -> (hm term yielding its value, type)"""
        if e[0] == "block":
            return self.seq(e[1], 0, e[2], env, ctx, ("value", expect))
        em = Emit()
        arms = self.arms_of(e, env, em)
        t, ty = self.render_arms(arms, lambda blk, en: self.m_value(blk, en, ctx, expect), expect)
        return em.prefix() + t, ty

    def m_state(self, e, env, ctx, names):
        """a control statement -> hm term yielding the tuple of `names` (their values at the end of the branch taken)"""
        if e[0] == "block":
            return self.seq(e[1], 0, e[2], env, ctx, ("state", names))[0]
        em = Emit()
        arms = self.arms_of(e, env, em)
        t, _ = self.render_arms(arms, lambda blk, en: (self.m_state(blk, en, ctx, names), "unit"), None)
        return em.prefix() + t

    def rebind(self, names, st, env):
        if not names:
            return ""
        projs = tuple_projs(len(names), st)
        return "".join("let %s := %s in\n" % (self.v(n), p) for n, p in zip(names, projs))

    def finish(self, end, tail, env, ctx):
        mode, arg = end
        if mode == "value":
            if tail is None:
                return "Val tt", "unit"
            em = Emit()
            t, ty = self.tr(tail, env, em, arg)
            return em.prefix() + "Val %s" % atom(t), ty
        # state
        if tail is not None:
            em = Emit()
            t, ty = self.tr(tail, env, em)
            if ty != "unit":
                self.fail("?", "value of a statement block is not ()")
        return "Val %s" % tuple_term([self.v(n) for n in arg]), "unit"

    def seq(self, stmts, i, tail, env, ctx, end):
        if end[0] == "state" and tail is not None and tail[0] == "mcall" and tail[1][0] == "path" \
                and (tail[2] in CTX_METHODS or tail[2] in ("push", "extend", "retain")):
            stmts = list(stmts) + [("expr", tail, tail[4])]
            tail = None
        if end[0] == "state" and tail is not None and tail[0] in ("match", "if", "iflet"):
            # a control statement in tail position of a statement block
            stmts = list(stmts) + [("matchstmt" if tail[0] == "match" else "ifstmt", tail, tail[-1])]
            tail = None
        old = getattr(self, "cur_ctx", None)
        self.cur_ctx = ctx
        try:
            return self.seq_(stmts, i, tail, env, ctx, end)
        finally:
            self.cur_ctx = old

    def seq_(self, stmts, i, tail, env, ctx, end):
        """statements i.. of a block, then its end -> (hm term, type of the value)"""
        if i == len(stmts):
            return self.finish(end, tail, env, ctx)
        s = stmts[i]
        k = s[0]

        def rest(env2):
            return self.seq(stmts, i + 1, tail, env2, ctx, end)

        if k == "let":
            pat, _ty, init, els, line = s[1], s[2], s[3], s[4], s[5]
            p = pat
            while p[0] in ("pmut", "pref"):
                p = p[1]
            if els is not None:
                fake = ("match", init, [(pat, None, ("block", [], ("path", ["__rest"], line))), (("pwild",), None, els)], line)
                em = Emit()
                arms = self.arms_of(fake, env, em)
                if arms[0] != "opt":
                    self.fail(line, "let-else on a non-Option pattern")
                r, rty = rest(arms[3][1])
                d, _ = self.seq(els[1], 0, els[2], env, ctx, ("value", None))
                if not self.diverges(els):
                    self.fail(line, "the else block of let-else does not diverge")
                return em.prefix() + "match %s with\n| Some %s =>\n%s\n| None =>\n%s\nend" % (arms[1], arms[2], r, self.as_any(d)), rty
            if p[0] == "pbind" and init[0] == "mcall" and init[2] == "or_insert_with" and init[1][0] == "mcall" \
                    and init[1][2] == "entry" and init[1][1][0] == "path" and len(init[1][1][1]) == 1 \
                    and env["vars"].get(init[1][1][1][0]) == "dmap" and len(init[1][3]) == 1 \
                    and init[3] == [("path", ["Vec", "new"], init[3][0][2])] and i + 1 < len(stmts):
                nxt = stmts[i + 1]
                if not (nxt[0] == "expr" and nxt[1][0] == "mcall" and nxt[1][2] == "push"
                        and nxt[1][1] == ("path", [p[1]], nxt[1][1][2]) and len(nxt[1][3]) == 1):
                    self.fail(line, "`entry(..).or_insert_with(Vec::new)` must be followed by a push onto it")
                if self.mentions(stmts[i + 2:], p[1]) or (tail is not None and self.mentions(tail, p[1])):
                    self.fail(line, "the entry reference is used after the push")
                mname = init[1][1][1][0]
                em = Emit()
                k_, kt = self.tr(init[1][3][0], env, em, "fileid")
                x_, xt = self.tr(nxt[1][3][0], env, em, "diag")
                if kt != "fileid" or xt != "diag":
                    self.fail(line, "entry(%s) .. push(%s)" % (kt, xt))
                r, rty = self.seq(stmts, i + 2, tail, env, ctx, end)
                return em.prefix() + "let %s := hm_push %s %s %s in\n%s" % (self.v(mname), self.v(mname), atom(k_), atom(x_), r), rty
            if p[0] == "pbind":
                em = Emit()
                t, ty = self.tr(init, env, em)
                if ty == ("list", None):
                    ty = ("list", self.infer_elem(p[1], self.cur_body))
                r, rty = rest(self.env_bind(env, p[1], ty))
                return em.prefix() + "let %s := %s in\n%s" % (self.v(p[1]), t, r), rty
            if p[0] == "ptuple" and all(q[0] in ("pbind", "pwild") for q in p[1]):
                em = Emit()
                t, ty = self.tr(init, env, em)
                if not (isinstance(ty, tuple) and ty[0] == "tuple" and len(ty[1]) == len(p[1])):
                    self.fail(line, "tuple pattern on %s" % (ty,))
                tmp = self.fresh()
                lets = "let %s := %s in\n" % (tmp, t)
                e2 = env
                for q, qt, pr in zip(p[1], ty[1], tuple_projs(len(p[1]), tmp)):
                    if q[0] == "pbind":
                        e2 = self.env_bind(e2, q[1], qt)
                        lets += "let %s := %s in\n" % (self.v(q[1]), pr)
                r, rty = rest(e2)
                return em.prefix() + lets + r, rty
            self.fail(line, "unsupported let pattern")
        if k == "assign":
            op, lhs, rhs, line = s[1], s[2], s[3], s[4]
            if op != "=" or lhs[0] != "path" or len(lhs[1]) != 1 or lhs[1][0] not in env["vars"]:
                self.fail(line, "unsupported assignment")
            name = lhs[1][0]
            em = Emit()
            t, ty = self.tr(rhs, env, em, env["vars"][name])
            if not same(ty, env["vars"][name]):
                self.fail(line, "assignment of %s to a variable of type %s" % (ty, env["vars"][name]))
            r, rty = rest(env)
            return em.prefix() + "let %s := %s in\n%s" % (self.v(name), t, r), rty
        if k == "return":
            if i + 1 != len(stmts) or tail is not None:
                self.fail(s[2], "code after return")
            if s[1] is None:
                self.fail(s[2], "return without a value")
            em = Emit()
            t, ty = self.tr(s[1], env, em, self.ret_ty)
            if not same(ty, self.ret_ty):
                self.fail(s[2], "return of %s in a fn returning %s" % (ty, self.ret_ty))
            return em.prefix() + "Ret %s" % atom(t), None
        if k == "break":
            if i + 1 != len(stmts) or tail is not None:
                self.fail(s[1], "code after break")
            if ctx.loop_state is None:
                self.fail(s[1], "break outside a loop")
            return "Brk %s" % tuple_term([self.v(n) for n in ctx.loop_state]), None
        if k == "expr":
            e, line = s[1], s[2]
            if e[0] == "mcall" and e[2] == "push" and e[1][0] == "path" and len(e[1][1]) == 1 and e[1][1][0] in env["vars"]:
                name = e[1][1][0]
                lty = env["vars"][name]
                if not (isinstance(lty, tuple) and lty[0] == "list") or len(e[3]) != 1:
                    self.fail(line, "push on a non-Vec")
                em = Emit()
                t, ty = self.tr(e[3][0], env, em, lty[1])
                if not same(ty, lty[1]):
                    self.fail(line, "push of %s onto Vec<%s>" % (ty, lty[1]))
                env2 = self.env_bind(env, name, ("list", ty))
                r, rty = rest(env2)
                return em.prefix() + "let %s := %s ++ [%s] in\n%s" % (self.v(name), self.v(name), t, r), rty
            if e[0] == "mcall" and e[2] in ("extend", "retain") and e[1][0] == "path" and len(e[1][1]) == 1 \
                    and e[1][1][0] in env["vars"] and len(e[3]) == 1:
                name = e[1][1][0]
                lty = env["vars"][name]
                if not (isinstance(lty, tuple) and lty[0] == "list"):
                    self.fail(line, "%s on a non-Vec" % e[2])
                em = Emit()
                if e[2] == "extend":
                    t, ty = self.tr(e[3][0], env, em, lty)
                    if not same(ty, lty):
                        self.fail(line, "extend of %s onto %s" % (ty, lty))
                    new = "%s ++ %s" % (self.v(name), atom(t))
                    nty = lty if lty[1] is not None else ty
                else:
                    f, rty = self.closure(e[3][0], [lty[1]], env, "bool")
                    if rty != "bool":
                        self.fail(line, "retain: closure does not return bool")
                    new = "filter %s %s" % (f, self.v(name))
                    nty = lty
                r, rty2 = rest(self.env_bind(env, name, nty))
                return em.prefix() + "let %s := %s in\n%s" % (self.v(name), new, r), rty2
            if e[0] == "mcall" and e[2] == "insert" and e[1][0] == "path" and len(e[1][1]) == 1 \
                    and env["vars"].get(e[1][1][0]) == "dmap" and len(e[3]) == 2:
                name = e[1][1][0]
                em = Emit()
                k_, kt = self.tr(e[3][0], env, em, "fileid")
                v_, vt = self.tr(e[3][1], env, em, ("list", "diag"))
                if kt != "fileid" or not same(vt, ("list", "diag")):
                    self.fail(line, "insert(%s, %s) into the diagnostics map" % (kt, vt))
                r, rty2 = rest(env)
                return em.prefix() + "let %s := hm_insert %s %s %s in\n%s" % (self.v(name), self.v(name), atom(k_), atom(v_), r), rty2
            if e[0] == "mcall" and e[2] in CTX_METHODS and e[1][0] == "path" and len(e[1][1]) == 1 \
                    and env["vars"].get(e[1][1][0]) == "cctx" and len(e[3]) == CTX_METHODS[e[2]][0]:
                name = e[1][1][0]
                em = Emit()
                tbl = CTX_METHODS[e[2]][1]
                if e[3]:
                    t, ty = self.tr(e[3][0], env, em, "symmap")
                    if ty != "symmap":
                        self.fail(line, "complete_classes(%s)" % (ty,))
                    tbl = tbl % atom(t)
                r, rty2 = rest(env)
                return em.prefix() + "let %s := %s ++ %s in\n%s" % (self.v(name), self.v(name), tbl, r), rty2
            if e[0] == "macro" and e[1][0] in IGNORED_MACROS:
                return rest(env)              # logging: no effect on the result
            self.fail(line, "unsupported expression statement")
        if k in ("ifstmt", "matchstmt"):
            e = s[1]
            names = self.state_names(e, env)
            term = self.m_state(e, env, ctx, names)
            r, rty = rest(env)
            if names:
                st = self.fresh()
                return "%s <- (%s) ;;\n%s%s" % (st, term, self.rebind(names, st, env), r), rty
            return "_ <- (%s) ;;\n%s" % (term, r), rty
        if k in ("loop", "whilelet", "while"):
            return self.tr_loop(s, stmts, i, tail, env, ctx, end)
        if k == "for":
            pat, it, body, line = s[1], s[2], s[3], s[4]
            names = self.state_names(body, env)
            if not names:
                self.fail(line, "a for loop that assigns no enclosing variable")
            em = Emit()
            t, ty = self.tr(it, env, em)
            if not (isinstance(ty, tuple) and ty[0] == "list"):
                self.fail(line, "for over a non-iterator %s" % (ty,))
            p = pat
            while p[0] in ("pmut", "pref"):
                p = p[1]
            e2 = env
            unpack = ""
            if p[0] == "pbind":
                e2 = self.env_bind(env, p[1], ty[1])
                itv = self.v(p[1])
            elif p[0] == "ptuple" and isinstance(ty[1], tuple) and ty[1][0] == "tuple" and len(p[1]) == len(ty[1][1]) \
                    and all(q[0] == "pbind" for q in p[1]):
                itv = "it"
                for q, qt, pr in zip(p[1], ty[1][1], tuple_projs(len(p[1]), "it")):
                    e2 = self.env_bind(e2, q[1], qt)
                    unpack += "let %s := %s in\n" % (self.v(q[1]), pr)
            else:
                self.fail(line, "for pattern")
            inner = Ctx(ctx.fn, names)
            bterm, _ = self.seq(body[1], 0, body[2], e2, inner, ("state", names))
            st = "st" if len(names) > 1 else self.v(names[0])
            lam = "(fun %s %s =>\n%s%s%s)" % (itv, st, unpack, self.rebind(names, st, env) if len(names) > 1 else "", bterm)
            r, rty = rest(env)
            out = self.fresh()
            return em.prefix() + "%s <- hfor %s %s %s ;;\n%s%s" % (
                out, atom(t), lam, tuple_term([self.v(n) for n in names]), self.rebind(names, out, env), r), rty
        self.fail(s[-1] if isinstance(s[-1], int) else "?", "unsupported statement %s" % k)

    def mentions(self, x, name):
        if isinstance(x, tuple):
            if x and x[0] == "path" and x[1] == [name]:
                return True
            return any(self.mentions(y, name) for y in x)
        if isinstance(x, list):
            return any(self.mentions(y, name) for y in x)
        return False

    def infer_elem(self, name, body):
        """element type of `let mut name = vec![]`: from the first `name.push(..)` / `name.extend(v)` in the fn body"""
        found = []

        def walk(x, binders):
            if isinstance(x, list):
                for y in x:
                    walk(y, binders)
                return
            if not isinstance(x, tuple) or not x:
                return
            if x[0] == "iflet" and x[1][0] == "psome" and x[1][1][0] == "pbind" and x[2][0] == "call" \
                    and x[2][1][0] == "path" and x[2][1][1][-1] in self.fns:
                ret = self.fns[x[2][1][1][-1]]["ret"]
                b2 = dict(binders)
                if isinstance(ret, tuple) and ret[0] == "opt":
                    b2[x[1][1][1]] = ret[1]
                for y in x[3:]:
                    walk(y, b2)
                return
            if x[0] == "mcall" and x[1] == ("path", [name], x[1][2] if len(x[1]) > 2 else None) or \
                    (x[0] == "mcall" and x[1][0] == "path" and x[1][1] == [name]):
                if x[2] == "push" and len(x[3]) == 1:
                    a = x[3][0]
                    if a[0] == "call" and a[1][0] == "path" and a[1][1] == ["InlayHint", "new"]:
                        found.append("hint")
                    elif a[0] == "struct" and a[1] == ["DocumentSymbol"]:
                        found.append("docsym")
                    elif a[0] == "path" and len(a[1]) == 1 and a[1][0] in binders:
                        found.append(binders[a[1][0]])
                if x[2] == "extend" and len(x[3]) == 1:
                    a = x[3][0]
                    if a[0] == "path" and len(a[1]) == 1 and a[1][0] in binders:
                        bt = binders[a[1][0]]
                        if isinstance(bt, tuple) and bt[0] == "list":
                            found.append(bt[1])
            for y in x[1:]:
                walk(y, binders)

        walk(body, {})
        return found[0] if found else None

    def diverges(self, blk):
        if blk[0] != "block" or blk[2] is not None or not blk[1]:
            return False
        return blk[1][-1][0] in ("return", "break")

    def as_any(self, term):
        return term

    def tr_loop(self, s, stmts, i, tail, env, ctx, end):
        k, line = s[0], s[-1]
        body = s[1] if k == "loop" else s[3] if k == "whilelet" else s[2]
        names = self.state_names(s, env)
        if not names:
            self.fail(line, "a loop that assigns no enclosing variable")
        fname = ctx.fn
        ordn = self.loop_ord.get(fname, 0)
        self.loop_ord[fname] = ordn + 1
        if (fname, ordn) not in MEASURES:
            self.fail(line, "no fuel annotation (MEASURES) for loop %d of fn %s" % (ordn, fname))
        cur = [n for n in names if env["vars"][n] in CURSORISH]
        if not cur:
            self.fail(line, "loop %d of fn %s has no cursor-typed state variable to measure" % (ordn, fname))
        fuel = MEASURES[(fname, ordn)] % self.v(cur[0])
        inner = Ctx(fname, names)
        if k == "loop":
            bterm, _ = self.seq(body[1], 0, body[2], env, inner, ("state", names))
        elif k == "whilelet":
            fake = ("match", s[2], [(s[1], None, body), (("pwild",), None, ("block", [("break", line)], None))], line)
            bterm = self.m_state(fake, env, inner, names)
        else:
            fake = ("if", s[1], body, ("block", [("break", line)], None), line)
            bterm = self.m_state(fake, env, inner, names)
        st = "st" if len(names) > 1 else self.v(names[0])
        lam = "(fun %s =>\n%s%s)" % (st, self.rebind(names, st, env) if len(names) > 1 else "", bterm)
        init = tuple_term([self.v(n) for n in names])
        has_brk = self.has_break(body) or k != "loop"
        if not has_brk:
            if i + 1 != len(stmts) or tail is not None:
                self.fail(line, "code after a loop without break")
            return "hforever (%s) %s %s" % (fuel, lam, init), None
        r, rty = self.seq(stmts, i + 1, tail, env, ctx, end)
        out = self.fresh()
        return "%s <- hloop (%s) %s %s ;;\n%s%s" % (out, fuel, lam, init, self.rebind(names, out, env), r), rty

    # ------------------------------------------------------------------ functions
    def fn(self, fn, coqname):
        self.cur_file = fn["file"]
        name = fn["name"]
        env = self.env_new()
        params = []
        for pn, pt in fn["params"]:
            ty = rust_type(pt, fn["file"], fn["line"])
            if ty == "idb" and fn["file"] in (DOCLINK, DIAGNOSTICS):
                ty = "hdb"          # these two handlers read other salsa queries: their database record is host_db
            env = self.env_bind(env, pn, ty)
            params.append((pn, ty))
        ret = rust_type(fn["ret"], fn["file"], fn["line"])
        self.ret_ty = ret
        self.cur_fn = name
        rec = self.calls_itself(fn["body"], name)
        if rec and name not in REC_FUEL:
            self.fail(fn["line"], "fn %s is recursive and has no depth annotation (REC_FUEL)" % name)
        effect = self.has_effect(fn["body"]) or rec
        self.fns[name] = {"coq": coqname, "params": params, "ret": ret, "effect": effect, "rec": rec}
        self.ctx = Ctx(name)
        self.cur_ctx = self.ctx
        self.cur_body = fn["body"]
        sig = " ".join("(%s : %s)" % (self.v(pn), coq_type(ty)) for pn, ty in params)
        if effect:
            term, ty = self.seq(fn["body"][1], 0, fn["body"][2], env, self.ctx, ("value", ret))
            if ty is not None and not same(ty, ret):
                self.fail(fn["line"], "fn %s returns %s, declared %s" % (name, ty, ret))
            body = "hrun (\n%s)" % term
            rty = "outcome (%s)" % coq_type(ret)
            if rec:
                return ("(* %s: fn %s (recursive: rendered with a depth bound) *)\nFixpoint %s (fuel : nat) %s : %s :=\n"
                        "  match fuel with\n  | O => OutOfFuel\n  | S fuel =>\n%s\n  end.\n") % (
                            fn["file"], name, coqname, sig, rty, indent(body))
        else:
            body, ty = self.pure_control(fn["body"], env, ret)
            if not same(ty, ret):
                self.fail(fn["line"], "fn %s returns %s, declared %s" % (name, ty, ret))
            rty = coq_type(ret)
        return "(* %s: fn %s *)\nDefinition %s %s : %s :=\n%s.\n" % (fn["file"], name, coqname, sig, rty, indent(body))


def _calls(x, name):
    if isinstance(x, tuple):
        if x and x[0] == "call" and x[1][0] == "path" and x[1][1] == [name]:
            return True
        return any(_calls(y, name) for y in x)
    if isinstance(x, list):
        return any(_calls(y, name) for y in x)
    return False


Gen.calls_itself = lambda self, body, name: _calls(body, name)


def indent(text):
    """re-indent by nesting of match/if/fun lines (cosmetic only)"""
    out, depth = [], 1
    for line in text.split("\n"):
        l = line.strip()
        if not l:
            continue
        if l.startswith(("| ", "end", "else")):
            d = max(depth - 1, 1)
        else:
            d = depth
        out.append("  " * d + l)
        opens = len(re.findall(r"\bmatch\b", l)) + len(re.findall(r"\bthen$", l)) + l.count("(fun")
        closes = len(re.findall(r"\bend\b", l))
        depth = max(1, depth + opens - closes)
        if l.startswith("else") and False:
            depth += 0
    return "\n".join(out)


# what is translated, in dependency order: (file, fn, coq name)
TARGETS = [
    (UTILS, "range_excluding_trivia", "src_range_excluding_trivia"),
    (FOLDING, "exec", "src_folding_exec"),
    (HOVER, "prev_token", "src_prev_token"),
    (HOVER, "extract_doc_comments", "src_extract_doc_comments"),
    (DOCSYM, "symbol_to_document_symbol", "src_symbol_to_document_symbol"),
    (DOCSYM, "exec", "src_document_symbol_exec"),
    (INLAY, "inlay_hint_class", "src_inlay_hint_class"),
    (INLAY, "inlay_hint_record_field", "src_inlay_hint_record_field"),
    (INLAY, "exec", "src_inlay_hint_exec"),
    (HOVER, "extract_symbol_signature", "src_extract_symbol_signature"),
    (HOVER, "exec", "src_hover_exec"),
    (GOTO, "exec", "src_goto_definition_exec"),
    (REFS, "exec", "src_references_exec"),
]
# the files must not grow other top-level fns that these could start to depend on unnoticed
EXPECTED_FNS = {UTILS: ["range_excluding_trivia"], FOLDING: ["exec"],
                HOVER: ["exec", "extract_symbol_signature", "extract_doc_comments", "prev_token"],
                DOCSYM: ["exec", "symbol_to_document_symbol"],
                INLAY: ["exec", "inlay_hint_class", "inlay_hint_record_field"],
                GOTO: ["exec"], REFS: ["exec"]}


def translate(repo):
    for rel, want in EXPECTED_FNS.items():
        got = top_fn_names(repo, rel)
        if sorted(got) != sorted(want):
            raise TranslateError("%s: top-level fns %s, expected %s" % (rel, got, want))
    src = cut_tests(strip_comments(read(repo, INLAY)))
    m = re.search(r"impl\s+InlayHint\s*\{(.*?)\n\}", src, re.S)
    want = "fn new(position: TextSize, label: impl Into<String>, kind: InlayHintKind) -> Self { Self { position, label: label.into(), kind, } }"
    if not m or " ".join(m.group(1).split()) != want:
        raise TranslateError("%s: `impl InlayHint { fn new .. }` is not the plain constructor the table entry InlayHint::new stands for" % INLAY)
    g = Gen(repo)
    out = ["(* GENERATED by tools/translate/t_handlers.py from %s -- do not edit *)" % ", ".join(
               "%s (%s)" % (f, n) for f, n, _ in TARGETS),
           "From Coq Require Import List NArith Bool.",
           "From TG.Gen Require Import GenTokens.",
           "From TG.Model Require Import Chars Tree TreeNav DocComments SymbolMap Outline HandlerApi HandlerSymApi.",
           "Import ListNotations.",
           "Open Scope N_scope.",
           ""]
    for rel, name, coqname in TARGETS:
        fn = parse_top_fn(repo, rel, name)
        # `exec` of folding_range.rs shares its Rust name with hover's exec: registered under its coq name only
        out.append(g.fn(fn, coqname))
        if name == "exec":
            g.fns.pop("exec", None)
    # completion.rs `exec` (body only; the vocabulary methods stay tables of t_completion.py): its own file, so that the cone of
    # C18 / C19 does not grow by the lexer / parser models Completion.v needs
    want_c = ["exec"]
    got_c = top_fn_names(repo, COMPLETION)
    if sorted(got_c) != want_c:
        raise TranslateError("%s: top-level fns %s, expected %s" % (COMPLETION, got_c, want_c))
    g2 = Gen(repo)
    out2 = ["(* GENERATED by tools/translate/t_handlers.py from %s (exec) -- do not edit *)" % COMPLETION,
            "From Coq Require Import List NArith Bool.",
            "From TG.Gen Require Import GenTokens GenCompletion.",
            "From TG.Model Require Import Chars Tree TreeNav SymbolMap HandlerApi HandlerSymApi Completion HandlerCompApi.",
            "Import ListNotations.",
            "Open Scope N_scope.",
            "",
            g2.fn(parse_top_fn(repo, COMPLETION, "exec"), "src_completion_exec")]
    # document_link.rs / diagnostics.rs: their own file (cone: Includes.v, AstAccess.v)
    for rel in (DOCLINK, DIAGNOSTICS):
        got = top_fn_names(repo, rel)
        if got != ["exec"]:
            raise TranslateError("%s: top-level fns %s, expected ['exec']" % (rel, got))
    src = cut_tests(strip_comments(read(repo, DIAGNOSTICS)))
    m = re.search(r"impl\s+Diagnostic\s*\{(.*?)\n\}", src, re.S)
    want = "pub fn new(location: FileRange, message: impl Into<String>) -> Self { Self { location, message: message.into(), } }"
    if not m or " ".join(m.group(1).split()) != want:
        raise TranslateError("%s: `impl Diagnostic { fn new .. }` is not the plain constructor the table entry Diagnostic::new stands for" % DIAGNOSTICS)
    g3 = Gen(repo)
    g3.fns["range_excluding_trivia"] = g.fns["range_excluding_trivia"]
    out3 = ["(* GENERATED by tools/translate/t_handlers.py from %s (exec), %s (exec) -- do not edit *)" % (DOCLINK, DIAGNOSTICS),
            "From Coq Require Import List NArith Bool String.",
            "From TG.Gen Require Import GenTokens GenHandlers.",
            "From TG.Model Require Import Chars Tree TreeNav SymbolMap Includes HandlerApi HandlerSymApi HandlerHostApi.",
            "Import ListNotations.",
            "Close Scope string_scope.",
            "Open Scope N_scope.",
            "",
            g3.fn(parse_top_fn(repo, DOCLINK, "exec"), "src_document_link_exec")]
    g3.fns.pop("exec", None)
    out3.append(g3.fn(parse_top_fn(repo, DIAGNOSTICS, "exec"), "src_diagnostics_exec"))
    return {"GenHandlers.v": "\n".join(out), "GenHandlersCompletion.v": "\n".join(out2), "GenHandlersHost.v": "\n".join(out3)}


if __name__ == "__main__":
    import sys
    r_ = translate(sys.argv[1] if len(sys.argv) > 1 else "/repo")
    print(r_["GenHandlers.v"])
    print(r_["GenHandlersCompletion.v"])
    print(r_["GenHandlersHost.v"])
