"""T-astmethods: the HAND-WRITTEN accessor methods inside the `asts! { .. }` table of crates/syntax/src/ast.rs
-> coq/gen/GenAstMethods.v   (the table itself is t_ast.py's: GenAst.v)

Every `pub fn` item of a struct entry (`Name { field: T, .. pub fn m(&self) -> R { .. } }`) is rendered statement by
statement as a Gallina function `gam_<Struct>_<method> (self_ : lnode) : am R` in the embedding of coq/model/RowanApi.v
(`am` = panic monad, None = a Rust panic; `lnode` = located subtree as in model/AstToCore.v).  The Rust parser is
b-lines' shared subset parser (tools/translate/t_lineindex.py: tokenizer + class P), extended HERE by: the `?` operator,
tuple field `.0` (the SyntaxNode of the wrapper struct), turbofish on a method (`collect::<Vec<_>>()`: type arguments
carry no behaviour), closures with a block body, string-literal patterns.  Rendering rules:
  self.0                                  the node itself
  .first_token() / .children_with_tokens()     rw_first_token / rw_children_with_tokens
  self.0.text_range() / self.0.kind()     rw_text_range / rw_kind of the NODE (not used by the current source; rendered so
                                          that `first_token()?.text_range()` -> `text_range()` is a failing proof, not a refusal)
  <elem>.kind() / .as_token() ; <token>.text() / .text_range() / .kind()     rw_kind / rw_as_token / rw_text / rw_text_range
  self.<accessor>() , x.<accessor>()      acc_opt / acc_list over the GENERATED accessor table (mode read from t_ast)
  e?                                      early `return None` (the function must return an Option)
  let Some(x) = e else { return v; };     match
  .filter(|x| c) .filter_map(|x| e) .count() .collect() .len() .join("lit") v[i] (panics out of bounds)
  .trim_start_matches(c|"s") .trim_end_matches(c|"s") .trim() .to_string() .into()
  .is_none() .is_some() .map(|x| e) ; Some(e) None ; == on SyntaxKind / integers ; && (lazy) ; match on a &str
  lexer::interpret_number(t)              GenLexer.g_interpret_number (the GENERATED lexer function)
Anything else raises TranslateError with file and line: a broken tie, never silently skipped."""
import re
from rsutil import TranslateError, read, strip_comments, cut_tests, coq_string_lit
import t_ast
import t_tokens
import t_lineindex as TL

SRC = "crates/syntax/src/ast.rs"


def brace(s, j, o="{", c="}"):
    d = 0
    for k in range(j, len(s)):
        if s[k] == o:
            d += 1
        elif s[k] == c:
            d -= 1
            if d == 0:
                return k
    raise TranslateError("%s: unbalanced %s" % (SRC, o))


def methods(repo):
    """[(struct, method, source text, first line)] of the `pub fn` items inside asts!{..}"""
    src = cut_tests(strip_comments(read(repo, SRC)))
    m = re.search(r"\basts!\s*\{", src)
    if not m:
        raise TranslateError("%s: asts! invocation not found" % SRC)
    end = brace(src, m.end() - 1)
    body, base = src[m.end():end], m.end()
    out, i = [], 0
    item = re.compile(r"\s*(\w+)\s*([\{\[])")
    while True:
        mm = item.match(body, i)
        if not mm:
            if body[i:].strip():
                raise TranslateError("%s: asts!: unexpected text %r" % (SRC, body[i:i + 40]))
            break
        name, br = mm.group(1), mm.group(2)
        j = mm.end() - 1
        k = brace(body, j, br, "}" if br == "{" else "]")
        inner = body[j + 1:k]
        if br == "{":
            p = 0
            while True:
                fm = re.search(r"\bpub\s+fn\s+(\w+)", inner[p:])
                if not fm:
                    if re.search(r"\bfn\b", inner[p:]):
                        raise TranslateError("%s: asts!: %s: a fn item that is not `pub fn`" % (SRC, name))
                    break
                st = p + fm.start()
                b = inner.index("{", brace(inner, inner.index("(", st), "(", ")"))
                e = brace(inner, b)
                line = 1 + src.count("\n", 0, base + j + 1 + st)
                out.append((name, fm.group(1), inner[st:e + 1], line))
                p = e + 1
        i = body.index(";", k) + 1
    return out


class AP(TL.P):
    """t_lineindex's parser + `?`, `.0`, turbofish on methods, block closures, string patterns"""

    def postfix(self, ns):
        e = self.primary(ns)
        while True:
            line = self.peek().line
            if self.isp("."):
                self.eat()
                if self.peek().kind == "NUM":
                    tk = self.eat()
                    e = ("field", e, str(tk.val[0]), line)
                    continue
                m = self.expect_id()
                if self.isp("::"):
                    self.eat()
                    self.expect_p("<")
                    depth = 1
                    while depth:
                        tk = self.eat()
                        if tk.kind == "EOF":
                            self.err("unterminated turbofish")
                        if tk.kind == "P" and tk.val in ("<", "<<"):
                            depth += len(tk.val)
                        elif tk.kind == "P" and tk.val in (">", ">>"):
                            depth -= len(tk.val)
                if self.isp("("):
                    self.eat()
                    e = ("mcall", e, m, self.args(), line)
                else:
                    e = ("field", e, m, line)
            elif self.isp("("):
                self.eat()
                e = ("call", e, self.args(), line)
            elif self.isp("["):
                self.eat()
                idx = self.range_or_expr()
                self.expect_p("]")
                e = ("index", e, idx, line)
            elif self.isp("?"):
                self.eat()
                e = ("try", e, line)
            else:
                return e

    def unary(self, ns):
        if self.isp("&") and self.isid("mut", 1):
            self.eat()
            self.eat()
            return ("un", "&mut", self.unary(ns), self.peek().line)
        return TL.P.unary(self, ns)

    def primary(self, ns):
        tk = self.peek()
        if tk.kind == "ID" and tk.val == "unsafe" and self.isp("{", 1):
            self.eat()
            return ("unsafe", self.block(), tk.line)
        if tk.kind == "P" and tk.val == "|":
            self.eat()
            pats = []
            while not self.isp("|"):
                pats.append(self.pattern())
                if self.isp(":"):
                    self.err("typed closure parameter")
                if self.isp(","):
                    self.eat()
            self.expect_p("|")
            body = self.block() if self.isp("{") else self.expr()
            return ("closure", pats, body, tk.line)
        return TL.P.primary(self, ns)

    def pattern(self):
        tk = self.peek()
        if tk.kind == "STR":
            self.eat()
            return ("pstr", tk.val)
        return TL.P.pattern(self)


def cps(s):
    return "[" + "; ".join(str(ord(c)) for c in s) + "]%N"


class Gen:
    def __init__(self, repo):
        d = t_ast.parse(repo)
        self.structs = d["structs"] if isinstance(d, dict) and "structs" in d else d
        self.sks = set(t_tokens.parse(repo)["sks"])
        self.n = 0

    def fresh(self, b="t"):
        self.n += 1
        return "%s_%d" % (b, self.n)

    def fail(self, line, msg):
        raise TranslateError("%s:%s: %s" % (SRC, line + self.line0 - 1 if isinstance(line, int) else line, msg))

    def accessor(self, struct, f):
        ent = self.structs.get(struct)
        if ent is None:
            return None
        fields = ent[0] if isinstance(ent, tuple) else ent
        for fd in fields:
            if fd["name"] == f:
                return fd
        return None

    # ------------------------------------------------------------------ types
    COQ = {"bool": "bool", "text": "text", "range": "(N * N)%type", "kind": "SyntaxKind", "int": "nat", "i64": "Z", "token": "lnode",
           "elem": "lnode", "rawnode": "lnode"}

    def coq_ty(self, t):
        if t.startswith("opt:"):
            return "(option %s)" % self.coq_ty(t[4:])
        if t.startswith("vec:") or t.startswith("iter:"):
            return "(list %s)" % self.coq_ty(t.split(":", 1)[1])
        if t.startswith("node:"):
            return "lnode"
        if t in self.COQ:
            return self.COQ[t]
        raise TranslateError("%s: no Coq type for %s" % (SRC, t))

    def ret_ty(self, r, line):
        r = r.replace(" ", "")
        table = {"bool": "bool", "Option<i64>": "opt:i64", "EcoString": "text", "Option<EcoString>": "opt:text",
                 "Option<bool>": "opt:bool", "Option<TextRange>": "opt:range", "Option<SyntaxKind>": "opt:kind"}
        if r not in table:
            self.fail(line, "unsupported result type %s" % r)
        return table[r]

    # ------------------------------------------------------------------ expressions (CPS: k(term, type) -> term of type am R)
    def E(self, e, env, k):
        tag = e[0]
        if tag == "paren":
            return self.E(e[1], env, k)
        if tag == "path":
            p = e[1]
            if len(p) == 1 and p[0] in env:
                return k(*env[p[0]])
            if p == ["None"]:
                return k("None", "opt:?")
            if len(p) == 2 and p[0] == "SyntaxKind":
                if p[1] not in self.sks:
                    self.fail(e[2], "unknown SyntaxKind::%s" % p[1])
                return k("S_" + p[1], "kind")
            self.fail(e[2], "unsupported name %s" % "::".join(p))
        if tag == "bool":
            return k("true" if e[1] else "false", "bool")
        if tag == "num":
            return k(str(e[1]), "int")
        if tag == "str":
            return k(cps(e[1]), "text")
        if tag == "char":
            return k(str(e[1]), "char")
        if tag == "field":
            if e[2] == "0" and e[1][0] == "path" and e[1][1] == ["self"]:
                return k("self_", "rawnode")
            self.fail(e[3], "field access .%s is outside the subset" % e[2])
        if tag == "try":
            def k1(v, t):
                if not t.startswith("opt:"):
                    self.fail(e[2], "`?` on a non-Option (%s)" % t)
                if not self.R.startswith("opt:"):
                    self.fail(e[2], "`?` in a function that does not return an Option")
                x = self.fresh("x")
                return "(match %s with Some %s => %s | None => am_ret None end)" % (v, x, k(x, t[4:]))
            return self.E(e[1], env, k1)
        if tag == "index":
            def k1(v, t):
                if not t.startswith("vec:"):
                    self.fail(e[3], "indexing a non-Vec (%s)" % t)
                def k2(i, ti):
                    x = self.fresh("x")
                    return "(match nth_error %s %s with Some %s => %s | None => am_panic end)" % (v, i, x, k(x, t[4:]))
                return self.E(e[2], env, k2)
            return self.E(e[1], env, k1)
        if tag == "bin":
            op, a, b = e[1], e[2], e[3]
            if op == "&&":
                def ka(va, ta):
                    x = self.fresh("c")
                    return "(if %s then %s else %s)" % (va, self.E(b, env, k), k("false", "bool"))
                return self.E(a, env, ka)
            if op == "==":
                def ka(va, ta):
                    def kb(vb, tb):
                        if ta == "kind" and tb == "kind":
                            return k("(sk_eqb %s %s)" % (va, vb), "bool")
                        if ta == "int" and tb == "int":
                            return k("(Nat.eqb %s %s)" % (va, vb), "bool")
                        self.fail(e[4], "`==` on %s / %s is outside the subset" % (ta, tb))
                    return self.E(b, env, kb)
                return self.E(a, env, ka)
            self.fail(e[4], "operator %s is outside the subset" % op)
        if tag == "call":
            f, args = e[1], e[2]
            if f[0] == "path" and f[1] == ["Some"] and len(args) == 1:
                return self.E(args[0], env, lambda v, t: k("(Some %s)" % v, "opt:" + t))
            if f[0] == "path" and f[1] == ["lexer", "interpret_number"] and len(args) == 1:
                def k1(v, t):
                    if t != "text":
                        self.fail(e[3], "interpret_number of a %s" % t)
                    return k("(g_interpret_number %s)" % v, "opt:i64")
                return self.E(args[0], env, k1)
            self.fail(e[3], "call of %s is outside the subset" % (f[1] if f[0] == "path" else f[0],))
        if tag == "mcall":
            return self.mcall(e, env, k)
        if tag == "match":
            return self.match(e, env, k)
        self.fail("?", "expression form %s is outside the subset" % tag)

    def closure(self, c, argty, line):
        """pure closure of one parameter -> (coq fun, result type)"""
        if c[0] != "closure" or len(c[1]) != 1 or c[1][0][0] != "pbind":
            self.fail(line, "expected a closure |x| ..")
        x = c[1][0][1]
        v = self.fresh(x)
        body = c[2]
        if body[0] == "block":
            if body[1] or body[2] is None:
                self.fail(line, "closure block with statements")
            body = body[2]
        res = {}

        def k(term, t):
            res["t"] = t
            return "\x00PURE\x00" + term
        out = self.E(body, {x: (v, argty)}, k)
        if not out.startswith("\x00PURE\x00"):
            self.fail(line, "closure body with `?` / indexing / control flow is outside the subset")
        return "(fun %s => %s)" % (v, out[len("\x00PURE\x00"):]), res["t"]

    def mcall(self, e, env, k):
        recv, m, args, line = e[1], e[2], e[3], e[4]

        def kr(v, t):
            # ---- rowan
            if t == "rawnode" and not args:
                if m == "first_token":
                    return k("(rw_first_token %s)" % v, "opt:token")
                if m == "children_with_tokens":
                    return k("(rw_children_with_tokens %s)" % v, "iter:elem")
                if m == "text_range":          # SyntaxNode::text_range: the range of the whole node
                    return k("(rw_text_range %s)" % v, "range")
                if m == "kind":                # SyntaxNode::kind
                    return k("(rw_kind %s)" % v, "kind")
            if t == "token" and not args and m in ("text", "text_range", "kind"):
                return k("(rw_%s %s)" % (m, v), {"text": "text", "text_range": "range", "kind": "kind"}[m])
            if t == "elem" and not args and m == "kind":
                return k("(rw_kind %s)" % v, "kind")
            if t == "elem" and not args and m == "as_token":
                return k("(rw_as_token %s)" % v, "opt:token")
            # ---- typed accessors of ast_field!
            if t.startswith("node:") and not args:
                fd = self.accessor(t[5:], m[2:] if m.startswith("r#") else m)
                if fd is not None:
                    if fd["mode"] == "children":
                        return k("(acc_list %s %s)" % (v, coq_string_lit(fd["name"])), "iter:node:" + fd["target"])
                    return k("(acc_opt %s %s)" % (v, coq_string_lit(fd["name"])), "opt:node:" + fd["target"])
            # ---- str
            if t == "text":
                if m in ("to_string", "into") and not args:
                    return k(v, "text")
                if m == "trim" and not args:
                    return k("(str_trim %s)" % v, "text")
                if m in ("trim_start_matches", "trim_end_matches") and len(args) == 1 and args[0][0] in ("char", "str"):
                    side = "start" if m == "trim_start_matches" else "end"
                    if args[0][0] == "char":
                        return k("(str_trim_%s_char %d %s)" % (side, args[0][1], v), "text")
                    return k("(str_trim_%s_str %s %s)" % (side, cps(args[0][1]), v), "text")
            # ---- iterators / Vec
            if t.startswith("iter:") or t.startswith("vec:"):
                el = t.split(":", 1)[1]
                if t.startswith("iter:") and m == "filter" and len(args) == 1:
                    f, ft = self.closure(args[0], el, line)
                    if ft != "bool":
                        self.fail(line, "filter with a non-bool closure")
                    return k("(List.filter %s %s)" % (f, v), t)
                if t.startswith("iter:") and m == "filter_map" and len(args) == 1:
                    f, ft = self.closure(args[0], el, line)
                    if not ft.startswith("opt:"):
                        self.fail(line, "filter_map with a non-Option closure")
                    return k("(iter_filter_map %s %s)" % (f, v), "iter:" + ft[4:])
                if t.startswith("iter:") and m == "count" and not args:
                    return k("(List.length %s)" % v, "int")
                if t.startswith("iter:") and m == "collect" and not args:
                    return k(v, "vec:" + el)
                if t.startswith("vec:") and m == "len" and not args:
                    return k("(List.length %s)" % v, "int")
                if t == "vec:text" and m == "join" and len(args) == 1 and args[0][0] == "str":
                    return k("(str_join %s %s)" % (cps(args[0][1]), v), "text")
            # ---- Option
            if t.startswith("opt:"):
                if m == "is_none" and not args:
                    return k("(opt_is_none %s)" % v, "bool")
                if m == "is_some" and not args:
                    return k("(opt_is_some %s)" % v, "bool")
                if m == "map" and len(args) == 1:
                    f, ft = self.closure(args[0], t[4:], line)
                    return k("(option_map %s %s)" % (f, v), "opt:" + ft)
            self.fail(line, "method .%s on a %s is outside the subset" % (m, t))
        if recv[0] == "path" and recv[1] == ["self"]:
            return kr("self_", "node:" + self.owner)
        return self.E(recv, env, kr)

    def match(self, e, env, k):
        scrut, arms, line = e[1], e[2], e[3]

        def ks(v, t):
            if t != "text":
                self.fail(line, "match on a %s is outside the subset" % t)
            x = self.fresh("s")
            out = None
            for pat, body in reversed(arms):
                if body[1] or body[2] is None:
                    self.fail(line, "match arm with statements")
                b = self.E(body[2], env, k)
                if pat[0] == "pwild":
                    out = b
                elif pat[0] == "pstr":
                    if out is None:
                        self.fail(line, "match without a final `_` arm")
                    out = "(if str_eqb %s %s then %s else %s)" % (cps(pat[1]), x, b, out)
                else:
                    self.fail(line, "match pattern %s is outside the subset" % pat[0])
            return "(let %s := %s in %s)" % (x, v, out)
        return self.E(scrut, env, ks)

    # ------------------------------------------------------------------ statements
    def block(self, stmts, tail, env, kret):
        """kret(term, type) finishes the function with the value of the tail expression"""
        if not stmts:
            if tail is None:
                self.fail("?", "function body without a tail expression")
            return self.E(tail, env, kret)
        s, rest = stmts[0], stmts[1:]
        if s[0] == "let":
            pat, ty, e, els, line = s[1], s[2], s[3], s[4], s[5]
            if pat[0] == "pbind" and els is None:
                def k(v, t):
                    x = self.fresh(pat[1])
                    env2 = dict(env)
                    env2[pat[1]] = (x, t)
                    return "(let %s := %s in %s)" % (x, v, self.block(rest, tail, env2, kret))
                return self.E(e, env, k)
            if pat[0] == "psome" and pat[1][0] == "pbind" and els is not None:
                if els[1] != [] and not (len(els[1]) == 1 and els[1][0][0] == "return" and els[2] is None):
                    self.fail(line, "the else block of let-else must be `{ return e; }`")
                if not els[1]:
                    self.fail(line, "the else block of let-else must be `{ return e; }`")
                rv = els[1][0][1]

                def k(v, t):
                    if not t.startswith("opt:"):
                        self.fail(line, "let Some(..) = <%s>" % t)
                    x = self.fresh(pat[1][1])
                    env2 = dict(env)
                    env2[pat[1][1]] = (x, t[4:])
                    return "(match %s with Some %s => %s | None => %s end)" % (
                        v, x, self.block(rest, tail, env2, kret), self.E(rv, env, kret))
                return self.E(e, env, k)
            self.fail(line, "let pattern is outside the subset")
        self.fail(s[-1] if isinstance(s[-1], int) else "?", "statement %s is outside the subset" % s[0])

    def function(self, owner, name, text, line0):
        self.owner, self.line0 = owner, line0
        self.n = 0                     # bound names restart per function: an edit of one method leaves the others byte-identical
        text = text  # `self.0` is parsed as a tuple field by AP
        p = AP(TL.tokenize(text, SRC, line0), SRC)
        p.vis()
        fn = p.fn()
        if p.peek().kind != "EOF":
            p.err("trailing tokens after fn %s" % name)
        if [q[0] for q in fn["params"]] != ["self"]:
            self.fail(fn["line"], "%s::%s: only `&self` methods are in the subset" % (owner, name))
        self.line0 = 1      # the tokenizer already numbered the lines
        self.R = self.ret_ty(fn["ret"] or "", fn["line"])
        body = fn["body"]

        def kret(v, t):
            return "(am_ret %s)" % v
        term = self.block(body[1], body[2], {}, kret)
        return "(* fn %s::%s *)\nDefinition gam_%s_%s (self_ : lnode) : am %s :=\n  %s.\n" % (
            owner, name, owner, name, self.coq_ty(self.R), term)


def translate(repo):
    g = Gen(repo)
    ms = methods(repo)
    o = ["(* GENERATED by tools/translate/t_astmethods.py from the hand-written methods of crates/syntax/src/ast.rs -- do not edit *)",
         "From Coq Require Import List NArith ZArith Bool String.",
         "From TG.Gen Require Import GenTokens GenAst GenLexer.",
         "From TG.Model Require Import Chars Tree ScanMonad AstAccess AstToCore RowanApi.",
         "Import ListNotations.", "Open Scope string_scope.", "Open Scope nat_scope.", ""]
    names = []
    for owner, name, text, line in ms:
        o.append(g.function(owner, name, text, line))
        names.append("%s::%s" % (owner, name))
    o.append("Definition gen_ast_methods : list string :=\n  [ %s ]." % "; ".join(coq_string_lit(n) for n in names))
    return {"GenAstMethods.v": "\n".join(o) + "\n"}
