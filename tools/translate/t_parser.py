"""T-parser: crates/syntax/src/parser.rs -> coq/gen/GenParser.v

Renders EVERY function of parser.rs (`impl<T: TokenStream> ParserBase<T>`: new, finish, builder, start_node, start_node_at,
finish_node, checkpoint, peek, at, at_set, eof, error, error_and_eat, error_and_recover, assert, expect, expect_with_msg,
eat, eat_if, save, lex, skip; `impl CompletedMarker`: is_success, or_error) and the enum `CompletedMarker` as Gallina in
the SHALLOW state-monad embedding of coq/model/ParserMonad.v, one definition `gpr_<name>` per Rust function, statement by
statement, in source order of effects.  Tokenizer, parser and the statement / expression / match generator are those of
t_lexer.py / t_prep.py (imported and subclassed); added here:

  * `struct ParserBase<T: TokenStream> { token_stream, current, current_range, builder, errors, is_after_error }` (exactly
    these fields and types) -> the record ParserMonad.gps; `type Parser<'a> = ParserBase<PreProcessor<Lexer<'a>>>`
  * `self.token_stream.eat() / .cursor() / .text(r) / .take_error()` -> `pts_eat / pts_cursor / pts_text / pts_take_error`
    (ParserMonad binds them to the GENERATED preprocessor functions GenPrep.gp_*: the instance T = PreProcessor<Lexer>)
  * `self.builder.token / start_node / start_node_at / finish_node / checkpoint / finish` -> `bld_*` (ParserMonad binds them to
    the rowan contract ParserPrims.b_*; a failed rowan assertion is a Panic)
  * fields `self.current`, `self.current_range` (`.start`, `.end`, `.clone()`), `self.is_after_error`, `self.errors` (`.push`)
  * `assert!(e)`, `.expect("..")`, `.try_into()`, `TextRange::new`, `SyntaxError::new`, `Vec::new()`, `GreenNodeBuilder::new()`,
    `eco_format!("lit {x:?}")` with x: TokenKind (-> tk_name), `x.into()` (TokenKind -> SyntaxKind is sk_of_tk, otherwise the
    identity), `a == b` on TokenKind (-> tk_eqb), `set.contains(&x)` on `&[TokenKind]`, `matches!(self, Self::V)`
  * the global `RECOVER_TOKENS` (grammar.rs) -> a parameter `recover_tokens : list TokenKind` of the functions that use it
  * `ParserBase::new(mut token_stream: T)`: the parameter IS the state of its body (PrepMonad.PM), result `PF gps`
  * `impl CompletedMarker`: `self` is a value (`self_`); a parameter `parser: &mut Parser` is the state
Not semantic and normalised away: comments, formatting, attributes, `use`, lifetimes, visibility.
Anything outside this subset raises TranslateError with file and line: a broken tie, never silently skipped."""
import re
from rsutil import TranslateError, read, strip_comments, cut_tests, coq_string_lit
import t_tokens
from t_lexer import Parser, tokenize, Gen, pretty
from t_prep import PGen

SRC = "crates/syntax/src/parser.rs"
STRUCT = "ParserBase"
FIELDS = [("token_stream", "T"), ("current", "TokenKind"), ("current_range", "Range<usize>"),
          ("builder", "GreenNodeBuilder<>"), ("errors", "Vec<SyntaxError>"), ("is_after_error", "bool")]
BASE_IMPL = "< T : TokenStream > ParserBase < T >"
ALIASES = {"Parser": "ParserBase < PreProcessor < Lexer < 'a > > >"}
STATE_TY = "mutParser"            # `parser: &mut Parser`
TYPES = {"usize": "N", "TokenKind": "TokenKind", "SyntaxKind": "SyntaxKind", "bool": "bool", "str": "text",
         "implInto<String>": "string", "Checkpoint": "nat", "[TokenKind]": "(list TokenKind)",
         "(GreenNode,Vec<SyntaxError>)": "(tree * list syntax_error)%type", "mutGreenNodeBuilder<>": "builder",
         "Self": "gps", "Range<usize>": "(N * N)%type"}
GETTERS = {"current": ("get_current", "TokenKind"), "current_range": ("get_range", "Range<usize>"),
           "is_after_error": ("get_after", "bool"), "errors": ("get_errors", "Vec<SyntaxError>")}
SETTERS = {"current": "set_current", "current_range": "set_range", "is_after_error": "set_after"}
BUILDER = {"token": 2, "start_node": 1, "start_node_at": 2, "finish_node": 0, "checkpoint": 0, "finish": 0}
RECOVER = "RECOVER_TOKENS"
Q_VOCAB = ("qret", "qearly", "q_unreachable", "q_loop", "q_loop_fuel")
P_VOCAB = ("pret", "pearly", "p_unreachable", "p_loop", "p_loop_fuel")


class RGen(PGen):
    RET, EARLY, UNREACH, LOOP, FUEL = Q_VOCAB
    SRC = SRC
    CANON_PRIVATE = []

    def __init__(self, repo):
        tt = t_tokens.parse(repo)
        self.T = tt["T"]
        self.tks = set(tt["tks"])
        self.sks = set(tt["sks"])
        src = cut_tests(strip_comments(read(repo, SRC)))
        m = re.search(r"#!?\[\s*(cfg|cfg_attr|path|macro_use)\b", src)
        if m:
            raise TranslateError("%s:%d: attribute `%s` is outside the subset" % (SRC, src.count("\n", 0, m.start()) + 1, m.group(0)))
        if not re.search(r"\bstruct\s+%s\s*<\s*T\s*:\s*TokenStream\s*>\s*\{" % STRUCT, src):
            raise TranslateError("%s: expected `struct %s<T: TokenStream> {`" % (SRC, STRUCT))
        if not re.search(r"\buse\s+crate::grammar::%s\s*;" % RECOVER, src):
            raise TranslateError("%s: expected `use crate::grammar::%s;`" % (SRC, RECOVER))
        p = Parser(tokenize(src, SRC), SRC)
        self.fns, self.structs = p.items()
        self.enums = p.enums
        if p.aliases != ALIASES:
            raise TranslateError("%s: expected exactly the alias `type Parser<'a> = ParserBase<PreProcessor<Lexer<'a>>>` (found %s)"
                                 % (SRC, p.aliases))
        if list(self.structs) != [STRUCT] or self.structs[STRUCT] != FIELDS:
            raise TranslateError("%s: struct %s must have exactly the fields %s (found %s)"
                                 % (SRC, STRUCT, ", ".join("%s: %s" % f for f in FIELDS), self.structs))
        for en, vs in self.enums.items():
            if en in TYPES or not vs or len(set(vs)) != len(vs):
                raise TranslateError("%s: bad enum %s" % (SRC, en))
        self.by_name = {}
        self.cur_line = 0
        self.state_names = {"self"}
        for f in self.fns:
            if f["name"] in self.by_name:
                raise TranslateError("%s:%d: two functions named %s" % (SRC, f["line"], f["name"]))
            if f["impl"] != BASE_IMPL and f["impl"] not in self.enums:
                raise TranslateError("%s:%d: fn %s: unexpected impl header `%s`" % (SRC, f["line"], f["name"], f["impl"]))
            self.by_name[f["name"]] = f
            self.state_names |= {pn for pn, pt in f["params"] if pt == STATE_TY}
        # functions that (transitively) use the global RECOVER_TOKENS take it as a parameter
        self.needs_recover = {f["name"] for f in self.fns if self.mentions(f["body"], RECOVER)}
        changed = True
        while changed:
            changed = False
            for f in self.fns:
                if f["name"] not in self.needs_recover and any(self.calls(f["body"], g) for g in self.needs_recover):
                    self.needs_recover.add(f["name"])
                    changed = True
        self.tmp = 0
        self.canonicalize()

    def fail(self, line, msg):
        raise TranslateError("%s:%d: %s" % (SRC, line or self.cur_line, msg))

    def mentions(self, node, name):
        if isinstance(node, tuple):
            if node and node[0] == "path" and node[1] == [name]:
                return True
            return any(self.mentions(x, name) for x in node)
        if isinstance(node, list):
            return any(self.mentions(x, name) for x in node)
        return False

    def calls(self, node, fname):
        if isinstance(node, tuple):
            if node and node[0] == "method" and self.is_self(node[1]) and node[2] == fname:
                return True
            return any(self.calls(x, fname) for x in node)
        if isinstance(node, list):
            return any(self.calls(x, fname) for x in node)
        return False

    def is_self(self, e):
        return e[0] == "path" and len(e[1]) == 1 and e[1][0] in self.state_names

    def is_state(self, e, ctx):
        return e[0] == "path" and e[1] == [ctx.get("state")]

    def ty(self, t, line):
        if t in self.enums:
            return t
        if t not in TYPES:
            self.fail(line, "type %s is outside the subset" % t)
        return TYPES[t]

    # ------------------------------------------------------------------ a little type inference (for `==` and `.into()`)
    def tyof(self, e, ctx):
        t = e[0]
        if t == "path":
            p = e[1]
            if len(p) == 1:
                return ctx["types"].get(p[0])
            if len(p) == 2 and p[0] in ("TokenKind", "SyntaxKind"):
                return p[0]
            return None
        if t == "tmac":
            return "TokenKind"
        if t == "method":
            recv, m = e[1], e[2]
            if self.is_state(recv, ctx) and m in self.by_name:
                return self.by_name[m]["ret"]
            if m == "clone":
                return self.tyof(recv, ctx)
            return None
        if t == "field" and self.is_state(e[1], ctx) and e[2] in GETTERS:
            return GETTERS[e[2]][1]
        if t == "format":
            return "String"
        if t == "ref":
            return self.tyof(e[1], ctx)
        return None

    # ------------------------------------------------------------------ fields
    def field_read(self, field, line):
        if field in GETTERS:
            return ("m", GETTERS[field][0])
        self.fail(line, "read of self.%s is outside the subset" % field)

    def assign_field(self, field, op, e, ctx, line):
        if ctx.get("state") != "self":
            self.fail(line, "field assignment outside a method of %s" % STRUCT)
        if field in SETTERS and op == "=":
            return self.lift([e], ctx, lambda a: ("m", "%s (%s)" % (SETTERS[field], a[0])))
        self.fail(line, "`self.%s %s ..` is outside the subset" % (field, op))

    # ------------------------------------------------------------------ expressions
    def E(self, e, ctx):
        t = e[0]
        if t == "tuple":
            if len(e[1]) != 2:
                self.fail(e[2], "only pairs are inside the subset")
            return self.lift(e[1], ctx, lambda a: ("p", "(%s, %s)" % (a[0], a[1])))
        if t == "ref":                       # a shared reference to a value is rendered as the value
            if e[1][0] in ("path", "method"):
                return self.E(e[1], ctx)
            self.fail(e[2], "this reference is outside the subset")
        if t == "refmut":
            if e[1][0] == "field" and self.is_state(e[1][1], ctx) and ctx.get("state") == "self" and e[1][2] == "builder":
                return ("m", "get_builder")
            self.fail(e[2], "mutable references other than `&mut self.builder` are outside the subset")
        if t == "field":
            if self.is_state(e[1], ctx) and ctx.get("state") is not None and ctx.get("mode") != "ctor":
                return self.field_read(e[2], 0)
            inner = e[1]
            if inner[0] == "field" and self.is_state(inner[1], ctx) and inner[2] == "current_range" and e[2] in ("start", "end"):
                return self.lift([inner], ctx, lambda a: ("p", "(%s %s)" % ("fst" if e[2] == "start" else "snd", a[0])))
            self.fail(0, "field access .%s is outside the subset" % e[2])
        if t == "path":
            p = e[1]
            if p == [RECOVER]:
                if not ctx.get("recover"):
                    self.fail(e[2], "%s used in a function that does not take it" % RECOVER)
                return ("p", "recover_tokens")
            if p == ["self"] and ctx.get("mode") == "enum":
                return ("p", "self_")
            if ctx.get("mode") == "ctor" and p == [ctx["state"]]:
                return ("m", "ts_self")
            if len(p) == 2 and p[0] == "SyntaxKind":
                if p[1] not in self.sks:
                    self.fail(e[2], "unknown SyntaxKind::%s" % p[1])
                return ("p", "S_" + p[1])
            if len(p) == 2 and p[0] == "Self" and ctx.get("enum"):
                return ("p", self.ctor(ctx["enum"], p[1], e[2]))
            if len(p) == 2 and p[0] in self.enums:
                return ("p", self.ctor(p[0], p[1], e[2]))
            return Gen.E(self, e, ctx)
        if t == "cmp" and e[1] in ("==", "!="):
            ta, tb = self.tyof(e[2], ctx), self.tyof(e[3], ctx)
            if "TokenKind" in (ta, tb) and {ta, tb} <= {"TokenKind", None}:
                neg = "negb " if e[1] == "!=" else ""
                return self.lift([e[2], e[3]], ctx, lambda a: ("p", "%s(tk_eqb %s %s)" % (neg, a[0], a[1])))
            if ta in ("usize",) and tb in ("usize", None):
                return Gen.E(self, e, ctx)
            self.fail(0, "`%s` on operands of type %s / %s is outside the subset" % (e[1], ta, tb))
        if t == "format":
            return self.format(e, ctx)
        if t == "assert":
            return self.lift([e[1]], ctx, lambda a: ("m", "qassert (%s)" % a[0]))
        if t == "struct":
            if ctx.get("mode") != "ctor" or e[1] != ["Self"] or [f for f, _ in e[2]] != [f for f, _ in FIELDS]:
                self.fail(e[3], "only `Self { %s }` in the constructor is supported" % ", ".join(f for f, _ in FIELDS))
            return self.lift([x for _, x in e[2]], ctx, lambda a: ("p", "mk_gps (%s) (%s) (%s) (%s) (%s) (%s)" % tuple(a)))
        if t in ("char", "closure", "cast"):
            self.fail(0, "expression %r is outside the subset" % (t,))
        return Gen.E(self, e, ctx)

    def format(self, e, ctx):
        fmt, line = e[1], e[2]
        parts, i = [], 0
        for m in re.finditer(r"\{([A-Za-z_][A-Za-z0-9_]*):\?\}", fmt):
            if m.start() > i:
                parts.append(coq_string_lit(fmt[i:m.start()]) + "%string")
            x = m.group(1)
            if x not in ctx["locals"] or ctx["types"].get(x) != "TokenKind":
                self.fail(line, "format argument {%s:?} must be a local of type TokenKind" % x)
            parts.append("(tk_name %s)" % self.var(x))
            i = m.end()
        if i < len(fmt):
            parts.append(coq_string_lit(fmt[i:]) + "%string")
        if "{" in re.sub(r"\{[A-Za-z_][A-Za-z0-9_]*:\?\}", "", fmt) or "}" in re.sub(r"\{[A-Za-z_][A-Za-z0-9_]*:\?\}", "", fmt):
            self.fail(line, "format string %r is outside the subset" % fmt)
        if not parts:
            return ("p", '""%string')
        t = parts[-1]
        for q in reversed(parts[:-1]):
            t = "(String.append %s %s)" % (q, t)
        return ("p", t)

    def call(self, e, ctx):
        f, args, line = e[1], e[2], e[3]
        p = f[1] if f[0] == "path" else None
        if p == ["Some"] and len(args) == 1:
            return self.lift(args, ctx, lambda a: ("p", "Some (%s)" % a[0]))
        if p == ["TextRange", "new"] and len(args) == 2:
            return self.lift(args, ctx, lambda a: ("m", "text_range_new (%s) (%s)" % (a[0], a[1])))
        if p == ["SyntaxError", "new"] and len(args) == 2:
            return self.lift(args, ctx, lambda a: ("p", "(syntax_error_new (%s) (%s))" % (a[0], a[1])))
        if p == ["GreenNodeBuilder", "new"] and not args:
            return ("p", "builder_new")
        if p == ["Vec", "new"] and not args:
            return ("p", "vec_new")
        self.fail(line, "call of %s is outside the subset" % ("::".join(p) if p else "an expression"))

    def fn_call(self, m, args, ctx, line):
        """a call of a function of the file on the state"""
        f = self.by_name.get(m)
        if f is None or f["impl"] != BASE_IMPL or f["self"] is None:
            self.fail(line, "unknown method %s" % m)
        if f["self"] == "val":
            self.fail(line, "call of %s, which consumes the parser, is outside the subset" % m)
        if len(args) != len(f["params"]):
            self.fail(line, "%s expects %d arguments" % (m, len(f["params"])))
        c2 = dict(ctx, str_as="string") if any(t == "implInto<String>" for _, t in f["params"]) else ctx
        rec = " recover_tokens" if m in self.needs_recover else ""
        if rec and not ctx.get("recover"):
            self.fail(line, "internal: %s needs %s" % (m, RECOVER))
        return self.lift(args, c2, lambda a: ("m", "qcall (gpr_%s%s%s)" % (self.cn(m), rec, "".join(" (%s)" % x for x in a))))

    def method(self, e, ctx):
        recv, m, fish, args, line = e[1], e[2], e[3], e[4], e[5]
        if fish is not None:
            self.fail(line, "turbofish is outside the subset")
        mode = ctx.get("mode")
        # the constructor: calls on the parameter `token_stream: T` (the state of PrepMonad.PM)
        if mode == "ctor":
            if recv[0] == "path" and recv[1] == [ctx["state"]]:
                if m in ("eat", "cursor", "take_error") and not args:
                    return ("m", "call gp_" + m)
                if m == "text" and len(args) == 1:
                    return self.lift(args, ctx, lambda a: ("m", "call (gp_text %s)" % a[0]))
                self.fail(line, "%s.%s is not a function of TokenStream" % (ctx["state"], m))
        # impl of an enum: `self` is a value
        elif mode == "enum" and recv[0] == "path" and recv[1] == ["self"]:
            f = self.by_name.get(m)
            if f is None or f["impl"] != ctx["enum"] or f["params"] or f["self"] is None:
                self.fail(line, "unknown method self.%s" % m)
            return ("p", "(gpr_%s self_)" % self.cn(m))
        elif self.is_state(recv, ctx) and ctx.get("state") is not None:
            return self.fn_call(m, args, ctx, line)
        elif recv[0] == "field" and self.is_state(recv[1], ctx) and ctx.get("state") == "self":
            fld = recv[2]
            if fld == "token_stream":
                if m in ("eat", "cursor", "take_error") and not args:
                    return ("m", "pts_" + m)
                if m == "text" and len(args) == 1:
                    return self.lift(args, ctx, lambda a: ("m", "pts_text %s" % a[0]))
                self.fail(line, "self.token_stream.%s is not a function of TokenStream" % m)
            if fld == "builder":
                if m in BUILDER and len(args) == BUILDER[m]:
                    return self.lift(args, ctx, lambda a: ("m", "bld_%s%s" % (m, "".join(" (%s)" % x for x in a))))
                self.fail(line, "self.builder.%s is outside the subset" % m)
            if fld == "errors":
                if m == "push" and len(args) == 1:
                    return self.lift(args, ctx, lambda a: ("m", "errors_push (%s)" % a[0]))
                self.fail(line, "self.errors.%s is outside the subset" % m)
            if fld not in GETTERS:
                self.fail(line, "self.%s.%s is outside the subset" % (fld, m))
        # methods on values
        if m == "is_trivia" and not args:
            return self.lift([recv], ctx, lambda a: ("p", "is_trivia %s" % a[0]))
        if m == "clone" and not args:
            return self.E(recv, ctx)
        if m == "into" and not args:
            t = self.tyof(recv, ctx)
            if t == "TokenKind":                      # impl From<TokenKind> for SyntaxKind (GenTokens.sk_of_tk)
                return self.lift([recv], ctx, lambda a: ("p", "(sk_of_tk %s)" % a[0]))
            if t in ("SyntaxKind", "implInto<String>", "String"):
                return self.E(recv, ctx)
            self.fail(line, ".into() on a value of type %s is outside the subset" % t)
        if m == "try_into" and not args:
            return self.lift([recv], ctx, lambda a: ("p", "(try_into_text_size %s)" % a[0]))
        if m == "expect" and len(args) == 1 and args[0][0] == "str":
            return self.lift([recv], ctx, lambda a: ("m", "qexpect (%s)" % a[0]))
        if m == "contains" and len(args) == 1 and args[0][0] == "ref" and self.tyof(recv, ctx) == "[TokenKind]":
            return self.lift([recv, args[0][1]], ctx, lambda a: ("p", "slice_contains %s %s" % (a[0], a[1])))
        self.fail(line, "method .%s() is outside the subset" % m)

    # ------------------------------------------------------------------ patterns
    def pat_test(self, p, v, line):
        if p[0] == "path" and len(p[1]) == 2 and p[1][0] == "Self" and self.cur_enum:
            return "%s_eqb %s %s" % (self.cur_enum, v, self.ctor(self.cur_enum, p[1][1], p[2])), []
        return super().pat_test(p, v, line)

    # ------------------------------------------------------------------ statements
    def stmts(self, sts, i, ctx, tail):
        if i == len(sts) - 1 and tail[0] == "value" and sts[i][0] == "expr" and sts[i][1][0] == "if" and sts[i][1][3] is None:
            return self.branchy(sts[i][1], ctx, tail)      # `if c { .. }` of type () in tail position
        if i < len(sts) and sts[i][0] == "let":
            _, x, mut, e, line = sts[i]
            ctx = dict(ctx, types=dict(ctx["types"], **{x: self.tyof(e, ctx)}))
            c2 = dict(ctx, locals=ctx["locals"] | {x}, muts=ctx["muts"] | ({x} if mut else set()))
            return self.bind(self.var(x), self.E(e, ctx), self.stmts(sts, i + 1, c2, tail))
        return Gen.stmts(self, sts, i, ctx, tail)

    # ------------------------------------------------------------------ functions
    def function(self, f):
        self.tmp = 0
        name, line = f["name"], f["line"]
        self.cur_line = line
        self.RET, self.EARLY, self.UNREACH, self.LOOP, self.FUEL = Q_VOCAB
        enum = f["impl"] if f["impl"] in self.enums else None
        self.cur_enum = enum
        state_params = [pn for pn, pt in f["params"] if pt == STATE_TY]
        params = [(pn, pt) for pn, pt in f["params"] if pt != STATE_TY]
        ctx = {"locals": {pn for pn, _ in params}, "muts": set(), "self_ok": True, "can_return": True, "loop": None,
               "types": dict(params), "recover": name in self.needs_recover, "enum": enum}
        rec = " (recover_tokens : list TokenKind)" if ctx["recover"] else ""
        gname = "gpr_" + self.cn(name)
        if enum:
            if f["self"] is None or len(state_params) > 1:
                self.fail(line, "fn %s of impl %s: unsupported shape" % (name, enum))
            ps = " (self_ : %s)" % enum + "".join(" (%s : %s)" % (self.var(pn), self.ty(pt, line)) for pn, pt in params)
            ret = self.ty(f["ret"], line) if f["ret"] else "unit"
            if not state_params:                    # a pure function of the value
                ctx.update(mode="enum", state=None, self_ok=False, can_return=False)
                k, t = self.block_value(f["body"], ctx)
                if k != "p":
                    self.fail(line, "fn %s is not a pure expression" % name)
                return "Definition %s%s%s : %s :=\n  %s." % (gname, rec, ps, ret, t)
            ctx.update(mode="enum", state=state_params[0])
            body = self.stmts(f["body"][1], 0, ctx, ("value",))
            return "Definition %s%s%s : QF %s :=\n  qfn_body (%s)." % (gname, rec, ps, ret, body)
        if state_params:
            self.fail(line, "a `&mut Parser` parameter in a method of %s is outside the subset" % STRUCT)
        if f["self"] is None:
            # the constructor: `fn new(mut token_stream: T) -> Self`; its parameter is the state of the body
            if f["ret"] != "Self" or [pt for _, pt in params] != ["T"]:
                self.fail(line, "a function without `self` must be the constructor `(token_stream: T) -> Self`")
            self.RET, self.EARLY, self.UNREACH, self.LOOP, self.FUEL = P_VOCAB
            ctx.update(mode="ctor", state=params[0][0], locals=set(), types={}, can_return=False)
            body = self.stmts(f["body"][1], 0, ctx, ("value",))
            self.RET, self.EARLY, self.UNREACH, self.LOOP, self.FUEL = Q_VOCAB
            return "Definition %s%s : PF gps :=\n  pfn_body (%s)%%p." % (gname, rec, body)
        ps = "".join(" (%s : %s)" % (self.var(pn), self.ty(pt, line)) for pn, pt in params)
        ret = self.ty(f["ret"], line) if f["ret"] else "unit"
        ctx.update(mode="base", state="self")
        body = self.stmts(f["body"][1], 0, ctx, ("value",))
        return "Definition %s%s%s : QF %s :=\n  qfn_body (%s)." % (gname, rec, ps, ret, body)


def translate(repo):
    g = RGen(repo)
    o = ["(* GENERATED by tools/translate/t_parser.py from crates/syntax/src/parser.rs -- do not edit *)",
         "From Coq Require Import List NArith Bool String.",
         "From TG.Gen Require Import GenTokens GenPrep.",
         "From TG.Model Require Import Chars ScanMonad PrepMonad Tree ParserPrims ParserMonad.",
         "Import ListNotations.", "Open Scope N_scope.", "Open Scope q_scope.", ""]
    o += g.enum_defs()
    names = g.order()
    for n in names:
        f = g.by_name[n]
        o.append("(* fn %s  [impl %s] *)" % (g.cn(n), f["impl"]))
        o.append(pretty(g.function(f)))
        o.append("")
    o.append("Definition gen_parser_functions : list string :=\n  [ %s ]%%string." % "; ".join('"%s"' % g.cn(n) for n in names))
    return {"GenParser.v": "\n".join(o) + "\n"}


if __name__ == "__main__":
    import sys
    print(translate(sys.argv[1] if len(sys.argv) > 1 else "/repo")["GenParser.v"])
