#!/usr/bin/env python3
"""Group "host": what does the translation tie (tools/translate/t_filesystem.py + coq/proofs/GenFileSystemEq.v) say about a
changed tree?   usage: tools/host_tie_matrix.py <seeded dir name | path to a .diff> ...
For each change: scratch worktree of /repo HEAD + the patch, run the translator on it, compile the generated
GenFileSystem.v and the UNCHANGED proofs/GenFileSystemEq.v against it in a private directory.  Prints one line per change:
  refused: <TranslateError>   |   proof breaks: <first Coq error>   |   kept (obligation still proves)
Never touches /repo, coq/gen or the shared build products."""
import os
import shutil
import subprocess
import sys

VERIF = os.path.dirname(os.path.dirname(os.path.abspath(__file__)))
sys.path.insert(0, os.path.join(VERIF, "tools", "translate"))
import t_filesystem  # noqa: E402
from rsutil import TranslateError  # noqa: E402


def one(arg):
    patch = arg if arg.endswith(".diff") else os.path.join(VERIF, "seeded", arg, "patch.diff")
    name = os.path.basename(os.path.dirname(patch)) if not arg.endswith(".diff") else os.path.basename(arg)[:-5]
    wt = "/tmp/wt-hosttie-" + name
    subprocess.run(["git", "-C", "/repo", "worktree", "remove", "--force", wt], capture_output=True)
    subprocess.run(["git", "-C", "/repo", "worktree", "add", "--detach", wt, "HEAD"], check=True, capture_output=True)
    tmp = os.path.join(VERIF, ".cache", "host", "tie", name)
    shutil.rmtree(tmp, ignore_errors=True)
    try:
        r = subprocess.run(["git", "-C", wt, "apply", patch], capture_output=True, text=True)
        if r.returncode != 0:
            return name, "PATCH DOES NOT APPLY: " + r.stderr.strip()[:200]
        try:
            out = t_filesystem.translate(wt)["GenFileSystem.v"]
        except TranslateError as ex:
            return name, "refused: " + str(ex).split("\n")[0][:260]
        os.makedirs(os.path.join(tmp, "gen"))
        os.makedirs(os.path.join(tmp, "proofs"))
        open(os.path.join(tmp, "gen", "GenFileSystem.v"), "w").write(out)
        shutil.copy(os.path.join(VERIF, "coq", "proofs", "GenFileSystemEq.v"), os.path.join(tmp, "proofs"))
        same = out == open(os.path.join(VERIF, "coq", "gen", "GenFileSystem.v")).read()
        flags = ["-noglob", "-Q", os.path.join(tmp, "gen"), "TG.Gen", "-Q", os.path.join(VERIF, "coq", "model"), "TG.Model",
                 "-Q", os.path.join(tmp, "proofs"), "TG.Proofs"]
        for f in ("gen/GenFileSystem.v", "proofs/GenFileSystemEq.v"):
            p = subprocess.run(["timeout", "300", "coqc"] + flags + [os.path.join(tmp, f)], capture_output=True, text=True)
            if p.returncode != 0:
                err = " ".join((p.stderr or p.stdout).split())
                k = err.find("File ")
                return name, "proof breaks (%s): %s" % (f, err[k:k + 240])
        return name, "kept (obligation still proves%s)" % ("; rendering byte-identical" if same else "; rendering differs")
    finally:
        subprocess.run(["git", "-C", "/repo", "worktree", "remove", "--force", wt], capture_output=True)
        shutil.rmtree(tmp, ignore_errors=True)


if __name__ == "__main__":
    for a in sys.argv[1:]:
        print("%-40s %s" % one(a), flush=True)
