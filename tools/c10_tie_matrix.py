#!/usr/bin/env python3
"""Group "lines": run ./check C10 against seeded changes / harmless edits of line_index.rs, to_proto.rs, from_proto.rs in a
scratch worktree and report, per change: exit code, whether the translator T-lines refused the source, whether the
obligation C10_model_is_source (coq build of proofs/GenLineIndexEq.v / props/C10.v) broke, and the first concrete failing input.
usage: tools/c10_tie_matrix.py <seeded-dir-name | path/to/patch.diff> ...      (never touches /repo's working tree)"""
import hashlib
import json
import os
import subprocess
import sys

VERIF = os.path.dirname(os.path.dirname(os.path.abspath(__file__)))


def run(name):
    patch = name if name.endswith(".diff") else os.path.join(VERIF, "seeded", name, "patch.diff")
    tag = os.path.basename(os.path.dirname(patch)) if not name.endswith(".diff") else os.path.basename(patch)[:-5]
    wt = "/tmp/wt-c10tie"           # one path for all changes: the cargo / Coq build dirs of the scratch tree are reused
    subprocess.run(["git", "-C", "/repo", "worktree", "remove", "--force", wt], capture_output=True)
    subprocess.run(["git", "-C", "/repo", "worktree", "add", "--detach", wt, "HEAD"], check=True, capture_output=True)
    try:
        subprocess.run(["git", "-C", wt, "apply", os.path.abspath(patch)], check=True)
        pr = subprocess.run(["./check", "C10", "--tier", "quick"], cwd=VERIF, env=dict(os.environ, VERIF_REPO=wt),
                            capture_output=True, text=True, timeout=3600)
        t = "r" + hashlib.sha256(wt.encode()).hexdigest()[:10]
        ev = json.load(open(os.path.join(VERIF, ".cache", "evidence-" + t, "C10.json")))   # scratch runs write there
        cov = ev.get("coverage", {})
        ties = cov.get("broken_ties", [])
        tr = [t for t in ties if t.get("kind") == "translator"]
        cq = [t for t in ties if t.get("kind") in ("coq-build", "theorem-missing-or-broken")]
        first = [l for l in pr.stdout.split("\n") if l.startswith("# ")][:1]
        return {"change": tag, "exit": pr.returncode,
                "translator_refuses": tr[0]["error"][:160] if tr else None,
                "obligation_breaks": (cq[0].get("file", "") + " " + str(cq[0].get("error", cq[0].get("theorem", "")))[:120]) if cq else None,
                "first_failing_input": first[0][2:160] if first else None}
    finally:
        subprocess.run(["git", "-C", "/repo", "worktree", "remove", "--force", wt], capture_output=True)


def cleanup():
    t = "r" + hashlib.sha256(b"/tmp/wt-c10tie").hexdigest()[:10]
    for d in (os.path.join("harness", t), "evidence-" + t, "coq-" + t):
        subprocess.run(["rm", "-rf", os.path.join(VERIF, ".cache", d)])


if __name__ == "__main__":
    try:
        for n in sys.argv[1:]:
            print(json.dumps(run(n)), flush=True)
    finally:
        cleanup()
