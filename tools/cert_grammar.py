"""Untrusted certificate generator for the reflective analyses of coq/proofs/LookProg.v (A-look / A-prog / A-eof).

Reads the text of coq/gen/GenGrammar.v (as produced by t_grammar.translate), re-implements the abstract
interpretation [an] over (L, cs) in Python, computes by fix-point iteration, per grammar function,
   pre  : look-ahead kinds the function may be entered with (greatest set for which every p.assert(k) in reach is
          satisfied and every callee's pre is met),
   post : look-ahead kinds at its exits (least),
   ct/cf: entry kinds for which every exit returning true / false has consumed a token (greatest),
   rank : position in the acyclic "called before anything was consumed" graph (no left recursion),
and emits coq/gen/GenGrammarCert.v.  NOTHING here is trusted: Coq re-checks the certificate with [chk_all]
(vm_compute) and the soundness theorems of LookProgSound.v say what a passing certificate implies.
"""
import re

# ----------------------------------------------------------------------------- reading GenGrammar.v terms


def _tokens(s):
    i, n = 0, len(s)
    while i < n:
        c = s[i]
        if c.isspace():
            i += 1
        elif c in "()[];,":
            yield c
            i += 1
        elif c == '"':
            j = i + 1
            while True:
                if s[j] == '"':
                    if j + 1 < n and s[j + 1] == '"':
                        j += 2
                        continue
                    break
                j += 1
            yield ("str", s[i + 1:j])
            i = j + 1
        else:
            j = i
            while j < n and not s[j].isspace() and s[j] not in "()[];,\"":
                j += 1
            yield ("id", s[i:j])
            i = j


def parse_term(s):
    toks = list(_tokens(s))
    pos = [0]

    def atom():
        t = toks[pos[0]]
        if t == "(":
            pos[0] += 1
            items = []
            while toks[pos[0]] != ")":
                if toks[pos[0]] == ",":
                    pos[0] += 1
                    continue
                items.append(atom())
            pos[0] += 1
            return items[0] if len(items) == 1 and not isinstance(items[0], str) else tuple(items) if items else ()
        if t == "[":
            pos[0] += 1
            items = []
            while toks[pos[0]] != "]":
                if toks[pos[0]] == ";":
                    pos[0] += 1
                    continue
                items.append(atom())
            pos[0] += 1
            return ["list"] + items
        pos[0] += 1
        if isinstance(t, tuple):
            return t[1] if t[0] == "id" else ("str", t[1])
        raise ValueError("unexpected token %r" % (t,))

    def app():
        items = []
        while pos[0] < len(toks) and toks[pos[0]] not in (")", "]", ";", ","):
            items.append(atom())
        return items

    r = app()
    return r[0] if len(r) == 1 else tuple(r)


def read_program(gen_text, tks, bang, cond):
    """-> (list of (name, term), recover kinds, entry)"""
    fns = []
    for m in re.finditer(r"Definition (fn_\d+_\w+) : expr :=\n  (.*?)\.\n\n", gen_text, re.S):
        fns.append((m.group(1), parse_term(m.group(2))))
    m = re.search(r"Definition grammar_fns : list expr :=\n  \[ (.*?) \]\.", gen_text, re.S)
    order = [x.strip() for x in m.group(1).split(";")]
    byname = dict(fns)
    fns = [(n, byname[n]) for n in order]
    m = re.search(r"Definition grammar_recover : list TokenKind := \[(.*?)\]\.", gen_text)
    recover = [x.strip()[2:] for x in m.group(1).split(";") if x.strip()]
    m = re.search(r"Definition grammar_entry : nat := (\d+)\.", gen_text)
    return fns, recover, int(m.group(1))


# ----------------------------------------------------------------------------- the analysis (mirror of LookProg.v)

class A:
    def __init__(self, tks, bang, cond, fns, recover):
        self.idx = {k: i for i, k in enumerate(tks)}
        self.ALL = (1 << len(tks)) - 1
        self.EOF = 1 << self.idx["Eof"]
        self.bang = self.kof_names(bang)
        self.cond = self.kof_names(cond)
        self.fns = fns
        self.R = self.kof_names(["Eof"] + recover)
        self.cert = [dict(pre=self.ALL, post=0, ct=self.ALL, cf=self.ALL, rank=0) for _ in fns]
        self.edges = None      # set of (caller, callee) recorded when cs is false
        self.sites = None      # list of (callee, L) recorded at call sites
        self.entry = 0
        self.cur = None
        self.why = None

    def kof_names(self, names):
        m = 0
        for n in names:
            m |= 1 << self.idx[n]
        return m

    def kset(self, t):
        """term of type list TokenKind"""
        if t == "bang_kinds":
            return self.bang
        if t == "cond_kinds":
            return self.cond
        assert isinstance(t, list) and t[0] == "list", t
        return self.kof_names([x[2:] for x in t[1:]])

    @staticmethod
    def join(a, b):
        if a is None:
            return b
        if b is None:
            return a
        return (a[0] | b[0], a[1] and b[1])

    @staticmethod
    def mk(t, f):
        return dict(rt=t, rf=f, rb=None, qt=None, qf=None, ok=True)

    def refine(self, a, S):
        l = a[0] & S
        return (l, a[1]) if l else None

    def refine_not(self, a, S):
        l = a[0] & ~S
        return (l, a[1]) if l else None

    def ate(self, a, c):
        return (self.ALL, a[1] or c)

    def fail(self, msg):
        if self.why is not None:
            self.why.append(msg)

    def prim(self, pr, a):
        L, cs = a
        h = pr if isinstance(pr, str) else pr[0]
        if h in ("PStartNode", "PFinishNode", "PCheckpoint", "PStartNodeAt", "PError"):
            return self.mk(a, None)
        if h == "PAssert":
            k = 1 << self.idx[pr[1][2:]]
            r = self.mk(self.ate(a, k != self.EOF), None)
            r["ok"] = (L & ~k) == 0
            if not r["ok"]:
                self.fail("assert %s with look-ahead beyond it" % pr[1])
            return r
        if h == "PExpect":
            k = 1 << self.idx[pr[1][2:]]
            return self.mk(self.join(self.ate(a, k != self.EOF) if L & k else None, self.refine_not(a, k)), None)
        if h in ("PEat", "PErrorAndEat"):
            return self.mk(self.ate(a, not (L & self.EOF)), None)
        if h == "PEatIf":
            k = 1 << self.idx[pr[1][2:]]
            return self.mk(self.ate(a, k != self.EOF) if L & k else None, self.refine_not(a, k))
        if h == "PSkip":
            return self.mk((self.ALL, cs), None)
        if h == "PErrorAndRecover":
            return self.mk(self.join(self.refine(a, self.R), self.ate(a, True) if L & ~self.R else None), None)
        if h == "PAtSet":
            S = self.kset(pr[1])
            return self.mk(self.refine(a, S), self.refine_not(a, S))
        raise ValueError("unknown prim %r" % (pr,))

    def bind(self, o, k):
        return self.mk(None, None) if o is None else k(o)

    def an(self, chk, r, e, a):
        j = self.join
        h = e if isinstance(e, str) else e[0]
        if h == "EB":
            return self.mk(a, None) if e[1] == "true" else self.mk(None, a)
        if h == "EVar":
            return self.mk(a, a)
        if h == "ENot":
            q = self.an(chk, r, e[1], a)
            return dict(q, rt=q["rf"], rf=q["rt"])
        if h == "EPrim":
            return self.prim(e[1], a)
        if h == "ECall":
            f = int(e[1])
            c = self.cert[f]
            L, cs = a
            if self.sites is not None:
                self.sites.append((f, L))
            ok = (L & ~c["pre"]) == 0
            if not ok:
                self.fail("call of %s with look-ahead outside its pre" % self.fns[f][0])
            if chk and not cs and self.edges is not None:
                self.edges.add((self.cur, f))
            if chk and not cs and not (c["rank"] < r):
                ok = False
                self.fail("call of %s before anything was consumed, rank not lower" % self.fns[f][0])
            return dict(rt=(c["post"], cs or (L & ~c["ct"]) == 0), rf=(c["post"], cs or (L & ~c["cf"]) == 0),
                        rb=None, qt=None, qf=None, ok=ok)
        if h == "ESeq":
            q = self.an(chk, r, e[1], a)
            q2 = self.bind(j(q["rt"], q["rf"]), lambda x: self.an(chk, r, e[2], x))
            return dict(rt=q2["rt"], rf=q2["rf"], rb=j(q["rb"], q2["rb"]), qt=j(q["qt"], q2["qt"]),
                        qf=j(q["qf"], q2["qf"]), ok=q["ok"] and q2["ok"])
        if h == "EIf":
            q = self.an(chk, r, e[1], a)
            qx = self.bind(q["rt"], lambda x: self.an(chk, r, e[2], x))
            qy = self.bind(q["rf"], lambda x: self.an(chk, r, e[3], x))
            return dict(rt=j(qx["rt"], qy["rt"]), rf=j(qx["rf"], qy["rf"]), rb=j(q["rb"], j(qx["rb"], qy["rb"])),
                        qt=j(q["qt"], j(qx["qt"], qy["qt"])), qf=j(q["qf"], j(qx["qf"], qy["qf"])),
                        ok=q["ok"] and qx["ok"] and qy["ok"])
        if h == "EWhile":
            hd = (self.ALL, a[1])
            qc = self.an(chk, r, e[1], hd)
            qb = self.bind(qc["rt"], lambda x: self.an(chk, r, e[2], x))
            h0 = (self.ALL, False)
            qc0 = self.an(False, r, e[1], h0)
            qb0 = self.bind(qc0["rt"], lambda x: self.an(False, r, e[2], x))
            o = j(qb0["rt"], qb0["rf"])
            prog = o is None or o[1]
            if not prog:
                self.fail("a loop iteration may complete without consuming a token")
            return dict(rt=j(qc["rf"], qb["rb"]), rf=None, rb=qc["rb"], qt=j(qc["qt"], qb["qt"]), qf=j(qc["qf"], qb["qf"]),
                        ok=qc["ok"] and qb["ok"] and qc0["ok"] and qb0["ok"] and prog)
        if h == "EBreak":
            return dict(rt=None, rf=None, rb=a, qt=None, qf=None, ok=True)
        if h == "EReturn":
            q = self.an(chk, r, e[1], a)
            return dict(rt=None, rf=None, rb=q["rb"], qt=j(q["rt"], q["qt"]), qf=j(q["rf"], q["qf"]), ok=q["ok"])
        if h == "ESet":
            q = self.an(chk, r, e[2], a)
            return dict(rt=j(q["rt"], q["rf"]), rf=None, rb=q["rb"], qt=q["qt"], qf=q["qf"], ok=q["ok"])
        raise ValueError("unknown expr %r" % (e,))

    # ------------------------------------------------------------------ fix-points

    def kinds(self, mask):
        i = 0
        while mask:
            if mask & 1:
                yield i
            mask >>= 1
            i += 1

    def body_at(self, f, k, chk):
        self.cur = f
        q = self.an(chk, self.cert[f]["rank"], self.fns[f][1], (1 << k, False))
        return q, self.join(q["rt"], q["qt"]), self.join(q["rf"], q["qf"])

    def solve(self):
        n = len(self.fns)
        # pre (look-aheads a function is reachable with) and post (look-aheads at its exits): joint least fix-point
        # from "the entry function is entered with any look-ahead"
        for c in self.cert:
            c["pre"] = 0
        self.cert[self.entry]["pre"] = self.ALL
        changed = True
        while changed:
            changed = False
            for f in range(n):
                acc = self.cert[f]["post"]
                self.sites = []
                for k in self.kinds(self.cert[f]["pre"]):
                    _q, et, ef = self.body_at(f, k, False)
                    for o in (et, ef):
                        if o is not None:
                            acc |= o[0]
                sites, self.sites = self.sites, None
                if acc != self.cert[f]["post"]:
                    self.cert[f]["post"] = acc
                    changed = True
                for (g, L) in sites:
                    if L & ~self.cert[g]["pre"]:
                        self.cert[g]["pre"] |= L
                        changed = True
        # ct / cf: greatest fix-point
        for f in range(n):
            self.cert[f]["ct"] = self.cert[f]["pre"]
            self.cert[f]["cf"] = self.cert[f]["pre"]
        changed = True
        while changed:
            changed = False
            for f in range(n):
                ct = cf = 0
                for k in self.kinds(self.cert[f]["pre"]):
                    _q, et, ef = self.body_at(f, k, False)
                    if (self.cert[f]["ct"] >> k) & 1 and (et is None or et[1]):
                        ct |= 1 << k
                    if (self.cert[f]["cf"] >> k) & 1 and (ef is None or ef[1]):
                        cf |= 1 << k
                if ct != self.cert[f]["ct"] or cf != self.cert[f]["cf"]:
                    self.cert[f]["ct"], self.cert[f]["cf"] = ct, cf
                    changed = True
        # rank: longest path in the "called before anything was consumed" graph
        self.edges = set()
        for f in range(n):
            for k in self.kinds(self.cert[f]["pre"]):
                self.body_at(f, k, True)
        edges, self.edges = self.edges, None
        succ = {f: sorted({g for (a, g) in edges if a == f}) for f in range(n)}
        rank, state = {}, {}
        cyc = []

        def visit(f, path):
            if state.get(f) == 2:
                return rank[f]
            if state.get(f) == 1:
                cyc.append(path[path.index(f):] + [f])
                return 0
            state[f] = 1
            r = 0
            for g in succ[f]:
                r = max(r, 1 + visit(g, path + [f]))
            state[f] = 2
            rank[f] = r
            return r
        import sys
        sys.setrecursionlimit(10000)
        for f in range(n):
            visit(f, [])
        for f in range(n):
            self.cert[f]["rank"] = rank.get(f, 0)
        return cyc

    def check(self, entry):
        """mirror of chk_all: list of human-readable failures (empty = the Coq check is expected to pass)"""
        out = []
        for f in range(len(self.fns)):
            c = self.cert[f]
            for k in self.kinds(c["pre"]):
                self.why = []
                q, et, ef = self.body_at(f, k, True)
                why, self.why = self.why, None
                if not q["ok"]:
                    out.append((self.fns[f][0], k, "; ".join(sorted(set(why))) or "not ok"))
                for o, need, nm in ((et, (c["ct"] >> k) & 1, "true"), (ef, (c["cf"] >> k) & 1, "false")):
                    if o is not None and ((o[0] & ~c["post"]) or (need and not o[1])):
                        out.append((self.fns[f][0], k, "exit %s violates post/consumption" % nm))
        if self.cert[entry]["pre"] != self.ALL:
            out.append((self.fns[entry][0], -1, "entry function does not accept every look-ahead"))
        return out


def _walk(t):
    yield t
    if isinstance(t, (tuple, list)):
        for x in t:
            for y in _walk(x):
                yield y


def infer_sigs(fns):
    with_arg = set()
    for _n, body in fns:
        for t in _walk(body):
            if isinstance(t, tuple) and len(t) == 3 and t[0] == "ECall" and t[2] != "None":
                with_arg.add(int(t[1]))
    sigs = []
    for i, (_n, body) in enumerate(fns):
        if i not in with_arg:
            sigs.append("NoParam")
        elif any(isinstance(t, tuple) and len(t) == 3 and t[0] == "PStartNodeAt" and t[1] == "0" for t in _walk(body)):
            sigs.append("CpParam")
        else:
            sigs.append("BoolParam")
    return sigs


def generate(gen_text, tks, bang, cond):
    fns, recover, entry = read_program(gen_text, tks, bang, cond)
    a = A(tks, bang, cond, fns, recover)
    a.entry = entry
    cycles = a.solve()
    problems = a.check(entry)
    o = ["(* GENERATED by tools/cert_grammar.py (untrusted; re-checked by chk_all in Coq) -- do not edit *)",
         "From Coq Require Import List NArith.",
         "From TG.Proofs Require Import LookProg BldAn.",
         "Import ListNotations.", "",
         "Definition grammar_cert : cert :=", "  ["]
    rows = []
    for (name, _b), c in zip(fns, a.cert):
        rows.append("    (* %s *) {| pre := %d%%N; post := %d%%N; ct := %d%%N; cf := %d%%N; rank := %d |}"
                    % (name, c["pre"], c["post"], c["ct"], c["cf"], c["rank"]))
    o.append(";\n".join(rows))
    o.append("  ].")
    o.append("")
    # A-bld: kind of parameter of every function (inferred from the call sites and the callee body; untrusted)
    sigs = infer_sigs(fns)
    o.append("Definition grammar_sigs : list fsig :=\n  [ %s ].\n" % "; ".join(sigs))
    tkn = list(tks)
    for (fn, k, w) in problems[:40]:
        o.append("(* generator: expected check failure: %s at %s: %s *)" % (fn, tkn[k] if k >= 0 else "-", w))
    for cy in cycles[:10]:
        o.append("(* generator: left-recursive cycle: %s *)" % " -> ".join(fns[f][0] for f in cy))
    return "\n".join(o) + "\n", problems, cycles, a
