#!/usr/bin/env python3
"""Group "lines": does the obligation Indexer_model_is_source_partial (props/IndexerSource.v) survive a change of
crates/ide/src/index.rs, index/scope.rs, index/context.rs?  For every seeded-dir name / patch file: scratch worktree of /repo HEAD + the patch,
translator t_indexer on it, then `make props/IndexerSource.vo` in vlib's private Coq copy of that scratch tree.
usage: tools/symmap_tie_matrix.py <seeded-dir-name | path/to/patch.diff> ...      (never touches /repo's working tree)"""
import hashlib
import json
import os
import subprocess
import sys

VERIF = os.path.dirname(os.path.dirname(os.path.abspath(__file__)))
WT = "/tmp/wt-ixtie"
INNER = r'''
import sys, json
sys.path.insert(0, "%s/lib")
import vlib
vlib.coq_prepare()
tr = vlib.run_translators(["t_indexer"])
ok, msg = tr["t_indexer"]
res = {"translator_refuses": None if ok else msg[:300], "obligation": None}
try:
    import re as _re, os as _os
    g = open(_os.path.join(vlib.COQ, "gen", "GenIndexer.v")).read()
    res["not_rendered"] = sorted(set(_re.findall(r"\(\* not rendered: ([^:]*(?:::\w+)?)", g)))
except Exception as ex:
    res["not_rendered"] = str(ex)
if ok:
    good, log = vlib.coq_make(["props/IndexerSource.vo"])
    if good:
        res["obligation"] = "holds"
    else:
        import re
        m = re.search(r'File "([^"]+)", line (\d+).*?\n(Error:.*?)(?:\n\n|\nmake)', log, re.S)
        res["obligation"] = "BREAKS: " + ((m.group(1) + ":" + m.group(2) + " " + " ".join(m.group(3).split())[:200]) if m else log[-300:])
print("@@" + json.dumps(res))
''' % VERIF


def run(name):
    patch = name if name.endswith(".diff") else os.path.join(VERIF, "seeded", name, "patch.diff")
    tag = os.path.basename(patch)[:-5] if name.endswith(".diff") else name
    subprocess.run(["git", "-C", "/repo", "worktree", "remove", "--force", WT], capture_output=True)
    subprocess.run(["git", "-C", "/repo", "worktree", "add", "--detach", WT, "HEAD"], check=True, capture_output=True)
    try:
        # only the part of the patch that touches the translated files is needed, but the whole patch is applied
        ap = subprocess.run(["git", "-C", WT, "apply", os.path.abspath(patch)], capture_output=True, text=True)
        if ap.returncode != 0:
            return {"change": tag, "error": "patch does not apply to /repo HEAD: " + ap.stderr.strip()[:200]}
        pr = subprocess.run([sys.executable, "-c", INNER], env=dict(os.environ, VERIF_REPO=WT), capture_output=True, text=True,
                            timeout=3600)
        line = [l for l in pr.stdout.split("\n") if l.startswith("@@")]
        res = json.loads(line[0][2:]) if line else {"error": (pr.stdout + pr.stderr)[-500:]}
        res["change"] = tag
        return res
    finally:
        subprocess.run(["git", "-C", "/repo", "worktree", "remove", "--force", WT], capture_output=True)


if __name__ == "__main__":
    try:
        for n in sys.argv[1:]:
            print(json.dumps(run(n)), flush=True)
    finally:
        t = "r" + hashlib.sha256(WT.encode()).hexdigest()[:10]
        subprocess.run(["rm", "-rf", os.path.join(VERIF, ".cache", "coq-" + t)])
