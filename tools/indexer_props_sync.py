#!/usr/bin/env python3
"""Group "lines": regenerate the STATEMENT of coq/props/IndexerSource.v from the theorem proved in
coq/proofs/GenIndexerEq.v (the two must be the same text; the props file keeps its header comment)."""
import os
V = os.path.dirname(os.path.dirname(os.path.abspath(__file__)))
s = open(os.path.join(V, "coq/proofs/GenIndexerEq.v")).read()
i = s.index("Theorem indexer_model_is_source_partial :")
j = s.index("Proof.", i)
stmt = s[i + len("Theorem indexer_model_is_source_partial :"):j]
p = os.path.join(V, "coq/props/IndexerSource.v")
t = open(p).read()
a = t.index("Theorem Indexer_model_is_source_partial :")
b = t.index("Proof. exact indexer_model_is_source_partial. Qed.")
open(p, "w").write(t[:a] + "Theorem Indexer_model_is_source_partial :" + stmt + t[b:])
