#!/bin/bash
# lead tool: run the quick tier of the given checks (default: all), one line per check
cd "$(dirname "$0")/.."
props=${@:-$(ls checks/C*.py | xargs -n1 basename | sed "s/.py//" | sort)}
for p in $props; do
  s=$(date +%s)
  out=$(./check $p --tier quick 2>&1); rc=$?
  e=$(date +%s)
  nv=$(echo "$out" | grep -c '^VIOLATION'); nk=$(echo "$out" | grep -c '^KNOWN-FINDING')
  echo "$p exit=$rc violations=$nv known=$nk wall=$((e-s))s $(echo "$out" | grep '^# ' | head -1 | cut -c1-160)"
done
