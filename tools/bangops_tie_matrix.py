#!/usr/bin/env python3
"""Validation of the bang_operator.rs tie (tools/translate/t_bangops.py + coq/proofs/GenBangOpsEq.v): for every change
(the seeded patches that touch crates/ide/src/index/bang_operator.rs, plus a comment-only and a rename-of-locals edit
made here) a scratch worktree of /repo is translated and the lemmas are re-checked ARM BY ARM: coq/proofs/GenBangOpsEq.v
is cut at its `(* ARM <name> *)` .. `(* END ARM *)` markers, the common part is compiled once, every arm segment on its
own (in parallel), the final theorem only when every arm holds.  Prints the matrix change -> arms broken / refused /
holding.  Nothing outside /tmp/wt-bang-* and /verif/.cache/lexprep/bangops/matrix is written; /repo is only read
(git worktree add / remove).

usage: tools/bangops_tie_matrix.py [change ...]      (default: all)"""
import json
import os
import re
import shutil
import subprocess
import sys
from concurrent.futures import ThreadPoolExecutor

VERIF = os.path.dirname(os.path.dirname(os.path.abspath(__file__)))
sys.path.insert(0, os.path.join(VERIF, "tools", "translate"))
import t_bangops                                                   # noqa: E402
from rsutil import TranslateError                                  # noqa: E402

REPO = os.environ.get("VERIF_REPO", "/repo")
SCRATCH = os.path.join(VERIF, ".cache", "lexprep", "bangops", "matrix")
RS = "crates/ide/src/index/bang_operator.rs"
HEADER = """From Coq Require Import List NArith Bool Arith Lia.
From TG.Model Require Import CoreAst Scope BangOps Indexer IndexerSrc BangOpsSrc.
From TG.Gen Require Import GenBangOps.
From TG.Proofs Require Import BangBase.
Import ListNotations.
Open Scope N_scope.
Open Scope ix_scope.
"""


def sh(cmd, cwd=None, timeout=1200):
    p = subprocess.run(cmd, cwd=cwd, shell=isinstance(cmd, str), stdout=subprocess.PIPE, stderr=subprocess.STDOUT, text=True,
                       timeout=timeout)
    return p.returncode, p.stdout


def comment_only(src):
    """comments, blank lines and line breaks only"""
    n = 0
    out = []
    for line in src.split("\n"):
        out.append(line)
        if re.match(r"\s*SyntaxKind::X\w+ => \{$", line) or "let values = common::expect_values" in line:
            out.append("                // verif: a comment that changes nothing")
            out.append("")
            n += 1
    s = "\n".join(out)
    s = s.replace("if !typ.can_be_casted_to(&ctx.symbol_map, &TY![int]) {",
                  "if !typ\n                        .can_be_casted_to(&ctx.symbol_map, &TY![int])\n                    /* still int */ {")
    assert n > 30, n
    return s


def rename_locals(src):
    """locals of several arms and of the helpers renamed"""
    s = src
    for old, new in (("value_types", "vts"), ("string1_typ", "first_ty"), ("string1_range", "first_rng"), ("list_typ", "lt_"),
                     ("var_define_loc", "where_"), ("values_len", "count"), ("value_type", "vty"), ("elm_typ", "et")):
        k = len(re.findall(r"\b%s\b" % old, s))
        assert k > 0, old
        s = re.sub(r"\b%s\b" % old, new, s)
    return s


def repl(old, new, count=1):
    def f(src):
        assert src.count(old) == count, (old, src.count(old))
        return src.replace(old, new)
    return f


# subtle edits of our own (each compiles; each must break exactly the named arm / the common part)
OWN = [
    ("own-xdag-names-list-int", repl("names_type.can_be_casted_to(&ctx.symbol_map, &TY![list<string>])",
                                     "names_type.can_be_casted_to(&ctx.symbol_map, &TY![list<int>])")),
    ("own-xdag-skip-dropped", repl("                let _ = value_types.next();\n\n", "")),
    ("own-xeq-take3", repl("for (range, typ) in value_types.take(2) {\n                    let Some(typ) = typ else {\n                        continue;\n                    };\n                    if !(typ.can_be_casted_to(&ctx.symbol_map, &TY![bit])\n                        || typ.is_bits()\n                        || typ.can_be_casted_to(&ctx.symbol_map, &TY![int])\n                        || typ.can_be_casted_to(&ctx.symbol_map, &TY![string])\n                        || typ.is_record())",
                           "for (range, typ) in value_types.take(3) {\n                    let Some(typ) = typ else {\n                        continue;\n                    };\n                    if !(typ.can_be_casted_to(&ctx.symbol_map, &TY![bit])\n                        || typ.is_bits()\n                        || typ.can_be_casted_to(&ctx.symbol_map, &TY![int])\n                        || typ.can_be_casted_to(&ctx.symbol_map, &TY![string])\n                        || typ.is_record())")),
    ("own-xne-moved-to-xge-arm", lambda src: repl("SyntaxKind::XEq | SyntaxKind::XNe => {", "SyntaxKind::XEq => {")(
        repl("SyntaxKind::XGe | SyntaxKind::XGt", "SyntaxKind::XNe | SyntaxKind::XGe | SyntaxKind::XGt")(src))),
    ("own-expect-values-le", repl("if values.len() < *start {", "if values.len() <= *start {")),
    ("own-xif-cast-direction", repl("if then_typ.can_be_casted_to(&ctx.symbol_map, &else_typ) {",
                                    "if else_typ.can_be_casted_to(&ctx.symbol_map, &then_typ) {")),
    ("own-xfoldl-variable-order", lambda src: repl(
        "                ctx.scopes.add_variable(&mut ctx.symbol_map, variable_var);\n",
        "                ctx.scopes.add_variable(&mut ctx.symbol_map, variable_var);\n"
        "                ctx.scopes.add_variable(&mut ctx.symbol_map, variable_acc);\n")(
        repl("                ctx.scopes.add_variable(&mut ctx.symbol_map, variable_acc);\n", "")(src))),
    ("own-xnot-result-int", repl("                        ctx.error(range, format!(\"expected int, found {typ}\"));\n                    }\n                }\n\n                Some(TY![bit])",
                                 "                        ctx.error(range, format!(\"expected int, found {typ}\"));\n                    }\n                }\n\n                Some(TY![int])")),
    ("own-xsubst-error-on-target", repl("                    ctx.error(\n                        value_range,\n                        format!(\"expected string or record, found {target_typ}\"),",
                                        "                    ctx.error(\n                        target_range,\n                        format!(\"expected string or record, found {target_typ}\"),")),
    ("own-xrange-list-extra-silent", repl("if value_types.next().is_some() {", "if value_types.next().is_none() {")),
]


def changes():
    out = []
    sd = os.path.join(VERIF, "seeded")
    for d in sorted(os.listdir(sd)):
        p = os.path.join(sd, d, "patch.diff")
        if os.path.exists(p) and RS in open(p, encoding="utf-8", errors="replace").read():
            out.append((d, ("patch", p)))
    for name, f in OWN:
        out.append((name, ("edit", f)))
    out.append(("edit-comments-only", ("edit", comment_only)))
    out.append(("edit-rename-locals", ("edit", rename_locals)))
    out.append(("unchanged", ("edit", lambda s: s)))
    return out


def split_proofs():
    txt = open(os.path.join(VERIF, "coq", "proofs", "GenBangOpsEq.v"), encoding="utf-8").read()
    first = txt.index("(* ARM ")
    base = txt[:first]
    segs = re.findall(r"\(\* ARM (\w+) \*\)\n(.*?)\(\* END ARM \*\)", txt, re.S)
    thm = txt[txt.index("(* THEOREM *)"):]
    return base, segs, thm


def coqc(d, f, timeout=900):
    return sh(["coqc", "-q", "-Q", os.path.join(VERIF, "coq", "model"), "TG.Model", "-Q", "gen", "TG.Gen", "-Q", "proofs", "TG.Proofs", f],
              cwd=d, timeout=timeout)


def run_change(k, name, how):
    wt = "/tmp/wt-bang-%d" % k
    sh(["git", "-C", REPO, "worktree", "remove", "--force", wt])
    rc, out = sh(["git", "-C", REPO, "worktree", "add", "--detach", wt, "HEAD"])
    if rc != 0:
        return {"error": "worktree: " + out[-300:]}
    res = {}
    try:
        if how[0] == "patch":
            rc, out = sh(["git", "-C", wt, "apply", how[1]])
            if rc != 0:
                rc, out = sh(["git", "-C", wt, "apply", "--3way", how[1]])
            if rc != 0:
                return {"error": "patch does not apply: " + out.strip()[-300:]}
        else:
            p = os.path.join(wt, RS)
            src = open(p, encoding="utf-8").read()
            open(p, "w", encoding="utf-8").write(how[1](src))
        try:
            gen = t_bangops.translate(wt)["GenBangOps.v"]
        except (TranslateError, t_bangops.Refuse) as ex:
            return {"translator": "REFUSES the file: %s" % ex}
        res["not_rendered"] = re.findall(r"^\(\* not rendered: (\w+) \((.*?)\): (.*) \*\)$", gen, re.M)
        res["helpers_not_rendered"] = re.findall(r"^\(\* helper not rendered: (.*) \*\)$", gen, re.M)
        res["same_text"] = (gen == t_bangops.translate(REPO)["GenBangOps.v"])
        d = os.path.join(SCRATCH, name)
        shutil.rmtree(d, ignore_errors=True)
        os.makedirs(os.path.join(d, "gen"))
        os.makedirs(os.path.join(d, "proofs"))
        open(os.path.join(d, "gen", "GenBangOps.v"), "w").write(gen)
        rc, out = coqc(d, "gen/GenBangOps.v")
        if rc != 0:
            res["gen"] = "rendering does NOT type-check: " + " ".join(out.strip().split("\n")[:4])[:300]
            return res
        base, segs, thm = split_proofs()
        open(os.path.join(d, "proofs", "BangBase.v"), "w").write(base)
        rc, out = coqc(d, "proofs/BangBase.v")
        if rc != 0:
            res["base"] = "the lemmas about `mod common` BREAK: " + " ".join(out.strip().split("\n")[:4])[:300]
            return res

        def one(seg):
            an, body = seg
            f = "proofs/Seg_%s.v" % an
            open(os.path.join(d, f), "w").write(HEADER + body)
            rc2, out2 = coqc(d, f)
            return an, rc2, out2
        broken, holds = [], []
        with ThreadPoolExecutor(4) as ex:
            for an, rc2, out2 in ex.map(one, segs):
                if rc2 == 0:
                    holds.append(an)
                else:
                    m = re.search(r"Error:(.*)", out2, re.S)
                    broken.append((an, " ".join((m.group(1) if m else out2).split())[:160]))
        res["broken"], res["holds"] = broken, holds
        if not broken:
            open(os.path.join(d, "proofs", "Final.v"), "w").write(
                HEADER + "From TG.Proofs Require Import %s.\n" % " ".join("Seg_" + an for an, _ in segs) + thm)
            rc3, out3 = coqc(d, "proofs/Final.v")
            res["theorem"] = "holds" if rc3 == 0 else "BREAKS: " + " ".join(out3.split())[:200]
        else:
            res["theorem"] = "BREAKS (an arm lemma it uses is broken)"
        return res
    finally:
        sh(["git", "-C", REPO, "worktree", "remove", "--force", wt])


def main():
    only = sys.argv[1:]
    os.makedirs(SCRATCH, exist_ok=True)
    rows = []
    for k, (name, how) in enumerate(changes()):
        if only and name not in only:
            continue
        r = run_change(k, name, how)
        rows.append((name, r))
        if "error" in r:
            line = "ERROR " + r["error"]
        elif "translator" in r:
            line = r["translator"]
        elif "gen" in r:
            line = r["gen"]
        elif "base" in r:
            line = r["base"]
        else:
            nr = ["%s (%s)" % (a, why[:90]) for a, ops, why in r["not_rendered"]]
            line = "broken: [%s]; refused by the translator: [%s]; holding: %d arms; theorem %s%s" % (
                ", ".join(a for a, _ in r["broken"]), "; ".join(nr), len(r["holds"]), r["theorem"],
                "; rendering byte-identical" if r.get("same_text") else "")
        print("%-32s %s" % (name, line), flush=True)
    json.dump(rows, open(os.path.join(SCRATCH, "matrix.json"), "w"), indent=1, default=str)


if __name__ == "__main__":
    main()
