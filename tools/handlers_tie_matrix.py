#!/usr/bin/env python3
"""Group outline: how the translation tie (t_handlers.py + proofs/GenHandlersEq.v) reacts to a source change, without running the
whole check.  usage: tools/handlers_tie_matrix.py <seeded name | path to a .diff> ...
For each change: scratch worktree of /repo + patch, run the translator on it, compile the rendering and a copy of
GenHandlersEq.v against it in a private directory (the main Coq tree is only read).  Prints one line per change:
  refused      the translator left its subset (TranslateError)            -> broken tie `kind: translator`
  proof-breaks the rendering compiles / does not compile, the equality proof fails -> broken tie `kind: coq-build`
  identical    the rendering is byte-identical to the one of /repo
  kept         the rendering differs, the equality proof still goes through"""
import hashlib
import os
import shutil
import subprocess
import sys

VERIF = os.path.dirname(os.path.dirname(os.path.abspath(__file__)))
sys.path.insert(0, os.path.join(VERIF, "tools", "translate"))
COQ = os.path.join(VERIF, "coq")


def coqc(path, tdir):
    cmd = ["coqc", "-Q", os.path.join(COQ, "gen"), "TG.Gen", "-Q", os.path.join(COQ, "model"), "TG.Model",
           "-Q", os.path.join(COQ, "proofs"), "TG.Proofs", "-Q", tdir, "TG.Tie", path]
    r = subprocess.run(cmd, capture_output=True, text=True, timeout=900)
    return r.returncode, (r.stdout + r.stderr)


def main():
    import importlib
    import t_handlers
    from rsutil import TranslateError
    base_all = t_handlers.translate("/repo")
    base = base_all["GenHandlers.v"] + base_all["GenHandlersCompletion.v"] + base_all["GenHandlersHost.v"]
    eq = open(os.path.join(COQ, "proofs", "GenHandlersEq.v")).read().replace(
        "From TG.Gen Require Import GenTokens GenFoldKinds GenHandlers.",
        "From TG.Gen Require Import GenTokens GenFoldKinds.\nFrom TG.Tie Require Import GenHandlers.")
    assert "TG.Tie" in eq
    eq2 = open(os.path.join(COQ, "proofs", "GenHandlersSymEq.v")).read().replace(
        "From TG.Gen Require Import GenTokens GenHandlers.",
        "From TG.Gen Require Import GenTokens.\nFrom TG.Tie Require Import GenHandlers.")
    eq2 = eq2.replace("From TG.Proofs Require Import GenHandlersEq.", "From TG.Tie Require Import GenHandlersEq.")
    eq3 = open(os.path.join(COQ, "proofs", "GenHandlersCompletionEq.v")).read().replace(
        "From TG.Gen Require Import GenTokens GenCompletion GenAst GenHandlersCompletion.",
        "From TG.Gen Require Import GenTokens GenCompletion GenAst.\nFrom TG.Tie Require Import GenHandlersCompletion.")
    assert "TG.Tie" in eq3
    eq4 = open(os.path.join(COQ, "proofs", "GenHandlersHostEq.v")).read().replace(
        "From TG.Gen Require Import GenTokens GenAst GenHandlers GenHandlersHost.",
        "From TG.Gen Require Import GenTokens GenAst.\nFrom TG.Tie Require Import GenHandlers GenHandlersHost.").replace(
        "From TG.Proofs Require Import TreeNavProofs GenHandlersEq.",
        "From TG.Proofs Require Import TreeNavProofs.\nFrom TG.Tie Require Import GenHandlersEq.")
    assert "TG.Tie Require Import GenHandlersEq" in eq4 and "TG.Tie Require Import GenHandlers GenHandlersHost" in eq4
    assert "TG.Tie" in eq2 and "TG.Tie Require Import GenHandlersEq" in eq2
    for arg in sys.argv[1:]:
        patch = os.path.abspath(arg) if arg.endswith(".diff") else os.path.join(VERIF, "seeded", arg, "patch.diff")
        name = os.path.basename(os.path.dirname(patch)) if not arg.endswith(".diff") else os.path.basename(arg)[:-5]
        wt = "/tmp/wt-tie-%s-%d" % (name, os.getpid())
        tdir = os.path.join(VERIF, ".cache", "outline", "tie", name)
        shutil.rmtree(tdir, ignore_errors=True)
        os.makedirs(tdir)
        subprocess.run(["git", "-C", "/repo", "worktree", "remove", "--force", wt], capture_output=True)
        subprocess.run(["git", "-C", "/repo", "worktree", "add", "--detach", wt, "HEAD"], check=True, capture_output=True)
        try:
            subprocess.run(["git", "-C", wt, "apply", patch], check=True)
            importlib.reload(t_handlers)
            try:
                gen_all = t_handlers.translate(wt)
                gen = gen_all["GenHandlers.v"] + gen_all["GenHandlersCompletion.v"] + gen_all["GenHandlersHost.v"]
            except TranslateError as ex:
                print("%-36s refused      %s" % (name, str(ex)[:150]))
                continue
            if gen == base:
                print("%-36s identical" % name)
                continue
            open(os.path.join(tdir, "GenHandlers.v"), "w").write(gen_all["GenHandlers.v"])
            open(os.path.join(tdir, "GenHandlersCompletion.v"), "w").write(gen_all["GenHandlersCompletion.v"])
            open(os.path.join(tdir, "GenHandlersCompletionEq.v"), "w").write(eq3)
            open(os.path.join(tdir, "GenHandlersHost.v"), "w").write(
                gen_all["GenHandlersHost.v"].replace("From TG.Gen Require Import GenTokens GenHandlers.",
                                                     "From TG.Gen Require Import GenTokens.\nFrom TG.Tie Require Import GenHandlers."))
            open(os.path.join(tdir, "GenHandlersHostEq.v"), "w").write(eq4)
            open(os.path.join(tdir, "GenHandlersEq.v"), "w").write(eq)
            rc, out = coqc(os.path.join(tdir, "GenHandlers.v"), tdir)
            if rc != 0:
                print("%-36s proof-breaks (the rendering does not type-check) %s" % (name, " ".join(out.split())[-160:]))
                continue
            open(os.path.join(tdir, "GenHandlersSymEq.v"), "w").write(eq2)
            rc, out = coqc(os.path.join(tdir, "GenHandlersEq.v"), tdir)
            if rc == 0:
                rc, out = coqc(os.path.join(tdir, "GenHandlersSymEq.v"), tdir)
            if rc == 0:
                rc, out = coqc(os.path.join(tdir, "GenHandlersCompletion.v"), tdir)
            if rc == 0:
                rc, out = coqc(os.path.join(tdir, "GenHandlersCompletionEq.v"), tdir)
            if rc == 0:
                rc, out = coqc(os.path.join(tdir, "GenHandlersHost.v"), tdir)
            if rc == 0:
                rc, out = coqc(os.path.join(tdir, "GenHandlersHostEq.v"), tdir)
            if rc != 0:
                msg = " ".join(out.split())
                k = msg.find("File ")
                print("%-36s proof-breaks %s" % (name, msg[k:k + 170]))
            else:
                print("%-36s kept         (rendering differs in %d lines)" % (
                    name, sum(1 for a, b in zip(gen.split("\n"), base.split("\n")) if a != b) + abs(gen.count("\n") - base.count("\n"))))
        finally:
            subprocess.run(["git", "-C", "/repo", "worktree", "remove", "--force", wt], capture_output=True)


if __name__ == "__main__":
    main()
