#!/usr/bin/env python3
"""Self-test of the Coq bridge (lib/bridgelib.py); NOT a property check.

usage: tools/bridge_selftest.py [--quick] [--no-pipeline] [--no-all] [--frozen-table] [--seed N]

  1. check_bridge:   `bridge_run core` / `analyze` (model parser + accessor table regenerated from ast.rs)
                     ==  harness `coreast` (real parser + real typed accessors) on
                       (a) multi-file programs of the scope-tracking generator lib/tdgen.py,
                       (b) the LLVM corpus files and prefix-free windows of their top-level statements,
                       (c) hand-written programs that cover every CoreAst constructor (coverage is CHECKED),
                       (d) damaged programs (random spans deleted / duplicated / replaced): syntax errors, noncore reasons;
  2. check_pipeline: goto_definition + references at every offset and the diagnostics computed END TO END IN
                     COQ FROM THE TEXTS  ==  the real Analysis (harness `idedump`).
  3. check_all:      THE COMPLETE ANALYSIS: all nine handlers (goto_definition, references, diagnostics, document_symbol,
                     hover, inlay_hint, folding_range, document_link, completion) answered by
                     PipelineAll.analyze_all (`bridgeall_run all`) from the texts  ==  `idedump`, at every offset / for
                     every file / for a sample of inlay-hint ranges, on programs of lib/tdgen.py and lib/outgen.py
                     (multi-file, non-ASCII comments, CRLF), hand-written and damaged programs.  A disagreement is
                     printed as a model-vs-code finding naming the handler (= the model) and the input.

With VERIF_REPO=<scratch worktree> the harness is built against that tree and (unless --frozen-table) the
accessor table gen/GenAst.v of the private Coq copy is regenerated from its ast.rs: the model follows the code.
--frozen-table keeps the table of /repo: a changed `ast_field!` index is then a model/code DISAGREEMENT (this is
how seeded/BRIDGE-accessor-index demonstrates that the correspondence sees the accessor table).
Exit status 0 = no disagreement and the size/coverage targets are met.
"""
import glob
import json
import os
import random
import re
import sys
import time

VERIF = os.path.dirname(os.path.dirname(os.path.abspath(__file__)))
sys.path.insert(0, os.path.join(VERIF, "lib"))
import vlib            # noqa: E402
import bridgelib as bl  # noqa: E402
import tdgen           # noqa: E402

# ------------------------------------------------------------------ (c) every CoreAst constructor
HAND = [
    # types
    'class T { bit a; int b; string c; code d; dag e; bits<4> f; list<int> g; T h; list<list<T>> i; }',
    # simple values
    'def v { int a = 1; string b = "s"; code c = [{ x }]; bit d = true; int e = ?; bits<2> f = {0, 1}; '
    'list<int> g = [1, 2]; dag h = (v 1, 2:$n); dag i = (v); list<int> j = []<int>; }',
    # suffixes
    'class F { int x = 1; } def f : F; def s { list<int> l = [1,2,3]; int a = l[0]; list<int> b = l[0...1]; '
    'list<int> c = l[0, 1]; bits<4> d = 5; bit e = d{0}; bits<2> g = d{1...0}; int h = f.x; }',
    # class value, positional / named (identifier and string name) / bad named argument
    'class A<int x = 0, int y = 1> { int z = x; } def a { A b = A<1>; A c = A<1, y = 2>; A d = A<x = 1, "y" = 2>; '
    'A e = A<1 = 2>; A g = A<>; }',
    # parents with arguments
    'class P<int q> { int r = q; } class Q : P<1>; def w : P<q = 2>, Q;',
    # bang operators with and without annotation, cond
    'def b { int a = !add(1, 2); list<int> c = !listconcat([1], [2]); int d = !cast<int>("1"); '
    'int e = !cond(1: 2, true: 3); int f = !if(true, 1, 2); list<int> g = !foreach(i, [1, 2], !add(i, 1)); '
    'int h = !foldl(0, [1], acc, i, !add(acc, i)); list<int> k = !filter(i, [1, 2], !gt(i, 1)); '
    'bit m = !isa<A>(b); }',
    # paste
    'class N<string s> { string t = s # "x" # s; } def n#1 : N<"a">;',
    # body items
    'class I { int a; field int b = 1; let a = 2; defvar c = a; assert !eq(a, 2), "msg"; dump "x"; }',
    # statements
    'include "nothing.td"\n',
    'assert 1, "m"; defvar g = 1; dump g; def : I; def named; defm : M; ',
    'multiclass M<int p = 1> : M0 { def X { int a = p; } defm Y : M0; } multiclass M0 { def Z; } defm inst : M<2>; defm : M;',
    'defset list<I> S = { def s1 : I; def s2 : I; }',
    'foreach i = [1, 2] in def fe#i; foreach j = 0...3 in { def g#j; } foreach k = {0-1, 3} in def h#k;',
    'if !eq(1, 1) then { def t1; } else { def e1; } if 1 then def t2; if 0 then { } else def e3;',
    'let a = 1, b<0...1> = 2 in { def l1; } let c = 3 in def l2;',
    'class fwd; class fwd { int x; } def u : fwd { let x = 1; }',
    # string forms for the named-argument name
    'class Z<int ab> ; def z1 : Z<"a" "b" = 1>; def z2 : Z<"" = 1>;',
    # non-ASCII
    'def é { string s = "ü\U0001f600"; } // €\n def ü : é;',
    # syntax errors: mandatory children missing (noncore reasons must agree)
    'class ;', 'class A { int ; }', 'def d : ;', 'defvar = 1;', 'foreach = [1] in def x;', 'if then def x;',
    'let in def x;', 'multiclass { }', 'defset int = { }', 'class A<int> ;', 'def d { bits<> x; }', 'def d { list<> x; }',
    'def d { int x = !add; }', 'def d { int x = A<; }', 'def d { int x = l[; }', 'def d { int x = y.; }', 'assert ;',
    'def d { int x = !cond(1); }', 'def d { int x = (; }', 'def d { bits<99999999999999999999> x; }',
    'def d { bits<0x10> a; bits<0b11> b; bits<+3> c; }', 'def d { bits<-1> a; }', 'def d { bits<18446744073709551615> a; }',
    'include', 'include 1', 'dump ;', 'def d { let x = ; }', 'def d { defvar x = ; }', 'class A : B< { }',
    '#ifdef X\nclass A;\n#else\nclass B;\n#endif\n#define Y\n#ifdef Y\ndef y : B;\n#endif\n',
]
HAND_MULTI = [
    {"files": {"/w/main.td": 'include "a.td"\ninclude "sub/b.td"\ninclude "a.td"\ninclude "missing.td"\ndef m : A, B;\n',
               "/w/a.td": 'class A;\n', "/w/sub/b.td": 'include "c.td"\nclass B : C;\n', "/w/sub/c.td": 'class C;\n'},
     "root": "/w/main.td"},
    {"files": {"/w/r.td": 'include "r.td"\ninclude "./x.td"\ninclude "/w/x.td"\nclass R : X;',
               "/w/x.td": 'include "r.td"\nclass X;'}, "root": "/w/r.td"},
    {"files": {"/w/r.td": 'include "a.td" include "a.td"  def q { int x = !add(1,\n'}, "root": "/w/r.td"},
    {"files": {"/w/r.td": 'include "a.td"\n' * 40 + 'def r : A;', "/w/a.td": 'include "b.td"\n' * 25 + 'class A : B;',
               "/w/b.td": "class B;"}, "root": "/w/r.td"},
    {"files": {"/w/r.td": 'def r;'}, "root": "/w/absent.td"},
]
EXPECTED_TAGS = set("""id n bit int string code dag bits list class val in rs sl0 sl1 fs args pos named namedbad
i s c b u lst cv bang ty noty vals cond some none targs ta parents cr body field let defvar assert dump stmts
include-some include-none def defm defset foreach range v if multiclass file ws""".split())

TOP = re.compile(r"^(class|def|defm|defvar|defset|multiclass|let|foreach|if|assert|dump|include)\b", re.M)


def corpus_windows(rng, n, max_bytes=6000):
    """prefix-free windows of consecutive top-level statements of the LLVM corpus files (split at lines that start
    with a statement keyword in column 0)"""
    files = sorted(glob.glob(os.path.join(VERIF, "corpus", "llvm14", "**", "*.td"), recursive=True))
    texts = [open(f, encoding="utf-8", errors="replace").read() for f in files]
    out, seen = [], []
    tries = 0
    while len(out) < n and tries < 40 * n:
        tries += 1
        t = rng.choice(texts)
        cuts = [m.start() for m in TOP.finditer(t)]
        if len(cuts) < 3:
            continue
        a = rng.randrange(len(cuts) - 1)
        b = min(len(cuts) - 1, a + rng.choice([1, 1, 2, 3, 5, 8]))
        w = t[cuts[a]:cuts[b]]
        if not w.strip() or len(w.encode("utf-8")) > max_bytes:
            continue
        if any(w.startswith(x) or x.startswith(w) for x in seen):
            continue
        seen.append(w)
        out.append({"files": {"/w/main.td": w}, "root": "/w/main.td"})
    return out


def damaged(rng, wss, n):
    """syntax errors: generated / corpus programs with a random span deleted, duplicated or replaced by punctuation
    (mandatory children go missing: the noncore reason and the FIRST failing file must agree)"""
    out = []
    while len(out) < n:
        w = rng.choice(wss)
        files = dict(w["files"])
        p = rng.choice(sorted(files))
        t = files[p]
        if len(t) < 4:
            continue
        for _ in range(rng.choice([1, 1, 2, 3])):
            a = rng.randrange(len(t))
            b = min(len(t), a + rng.choice([1, 1, 2, 3, 5, 9, 17]))
            k = rng.randrange(4)
            if k == 0:
                t = t[:a] + t[b:]
            elif k == 1:
                t = t[:b] + t[a:b] + t[b:]
            elif k == 2:
                t = t[:a] + rng.choice(["<", ">", "{", "}", "(", ")", ";", ",", "=", ":", "#", "!add", "\"", "[{", "?", ".", "include", "1"]) + t[b:]
            else:
                t = t[:a] + " " + t[a:]
        files[p] = t
        out.append({"files": files, "root": w["root"]})
    return out


def corpus_whole(max_bytes):
    files = sorted(glob.glob(os.path.join(VERIF, "corpus", "llvm14", "**", "*.td"), recursive=True))
    out = []
    for f in files:
        t = open(f, encoding="utf-8", errors="replace").read()
        if len(t.encode("utf-8")) <= max_bytes:
            out.append({"files": {"/w/" + os.path.basename(f): t}, "root": "/w/" + os.path.basename(f)})
    return out


def main():
    quick = "--quick" in sys.argv
    frozen = "--frozen-table" in sys.argv
    seed = int(sys.argv[sys.argv.index("--seed") + 1]) if "--seed" in sys.argv else int(os.environ.get("VERIF_SEED", "1"))
    rng = random.Random(seed)
    t0 = time.time()
    if not frozen:
        r = vlib.run_translators(["t_ast"])
        print("translator t_ast:", r)
        if not all(ok for ok, _ in r.values()):
            print("FAIL: translator refused ast.rs")
            return 1
    else:
        vlib._coq_private_copy()
        print("accessor table: FROZEN (gen/GenAst.v as generated from /repo)")
    built = bl.build()
    print("built harness + bridge_run in %.0f s (repo %s)" % (time.time() - t0, vlib.REPO))

    n_gen = 120 if quick else 450
    n_win = 150 if quick else 700
    gen = []
    for i in range(n_gen):
        size = rng.choice([2, 3, 5, 8] if quick else [3, 5, 8, 12])
        gen.append(tdgen.generate(rng, size=size, probe=(i % 3 == 0)).workspace())
    hand = [{"files": {"/w/main.td": t}, "root": "/w/main.td"} for t in HAND] + HAND_MULTI
    wins = corpus_windows(rng, n_win)
    whole = corpus_whole(20000 if quick else 120000)
    dam = damaged(rng, gen + wins, 150 if quick else 600)
    fam = [("generator lib/tdgen.py", gen), ("hand-written", hand), ("corpus windows", wins), ("corpus files", whole),
           ("damaged programs", dam)]

    total = {"workspaces": 0, "files": 0, "core_files": 0, "disagreements": 0}
    tags = set()
    ok = True
    for name, wss in fam:
        t1 = time.time()
        r = bl.check_bridge(None, wss, built=built)
        tags |= r["tags"]
        print("check_bridge  %-24s workspaces %4d  files %4d  Core files %4d  noncore workspaces %3d  disagreements %d  (%.0f s)" % (
            name, r["workspaces"], r["files"], r["core_files"], r["noncore_workspaces"], len(r["disagreements"]), time.time() - t1))
        for d in r["disagreements"][:3]:
            print("   DISAGREE:", json.dumps(d["what"])[:600])
            print("      files:", json.dumps(d["workspace"]["files"])[:400])
        for k in ("workspaces", "files", "core_files"):
            total[k] += r[k]
        total["disagreements"] += len(r["disagreements"])
        if name == "hand-written":
            missing = EXPECTED_TAGS - r["tags"]
            if missing:
                print("   COVERAGE: CoreAst constructors not exercised by the hand-written programs:", sorted(missing))
                ok = False
    print("check_bridge TOTAL: %(workspaces)d workspaces, %(files)d files (%(core_files)d Core), %(disagreements)d disagreements" % total)
    if total["disagreements"]:
        ok = False
    if not quick and total["files"] < 1000:
        print("FAIL: fewer than 1000 files compared")
        ok = False

    allw = [w for _n, wss in fam for w in wss]
    rc = bl.check_complete(None, allw, built=built)
    print("check_complete: %(files)d files, %(complete)d locally complete, %(error_free)d parsed without error" % rc,
          "-> %d violations" % len(rc["violations"]))
    for v in rc["violations"][:3]:
        print("   VIOLATION:", v["what"], repr(v["text"][:200]))
    if rc["violations"]:
        ok = False

    if "--no-pipeline" not in sys.argv:
        ptotal = {"workspaces": 0, "compared": 0, "queries": 0, "identifier_queries": 0, "disagreements": 0, "noncore": 0}
        for name, wss in [("generator lib/tdgen.py", gen), ("hand-written", hand), ("corpus windows", wins[:len(wins) // 2]),
                          ("damaged programs", dam[:len(dam) // 2])]:
            t1 = time.time()
            r = bl.check_pipeline(None, wss, built=built)
            print("check_pipeline %-24s workspaces %4d  compared %4d  noncore %3d  offsets queried %7d  identifiers %6d  disagreements %d  (%.0f s)" % (
                name, r["workspaces"], r["compared"], r["noncore"], r["queries"], r["identifier_queries"], len(r["disagreements"]), time.time() - t1))
            for d in r["disagreements"][:3]:
                print("   DISAGREE:", json.dumps(d["what"])[:600])
                print("      files:", json.dumps(d["workspace"]["files"])[:400])
            for k in ("workspaces", "compared", "queries", "identifier_queries", "noncore"):
                ptotal[k] += r[k]
            ptotal["disagreements"] += len(r["disagreements"])
        print("check_pipeline TOTAL: %(workspaces)d workspaces, %(compared)d compared end to end (%(noncore)d outside Core), "
              "%(queries)d offsets, %(identifier_queries)d identifiers, %(disagreements)d disagreements" % ptotal)
        if ptotal["disagreements"]:
            ok = False
        if not quick and ptotal["compared"] < 300:
            print("FAIL: fewer than 300 workspaces compared end to end")
            ok = False
    if "--no-all" not in sys.argv:
        # the COMPLETE analysis: all nine handlers answered inside Coq (PipelineAll.analyze_all) against idedump
        import outgen

        def og(w):
            return {"files": {"/w/" + p: t for p, t in w["files"]}, "root": "/w/" + w["root"]}
        built_all = bl.build_all()
        n_out = 60 if quick else 260
        outw = [og(outgen.gen_workspace(rng, size=rng.choice([3, 5, 7] if quick else [3, 5, 7, 10]))) for _ in range(n_out)]
        tiny = [og(w) for w in outgen.tiny_hint_workspaces(rng, 10 if quick else 40)]
        atotal = {"workspaces": 0, "compared": 0, "noncore": 0, "offsets": 0, "hint_requests": 0, "files": 0, "disagreements": 0}
        nonempty = {}
        for name, wss in [("generator lib/tdgen.py", gen), ("generator lib/outgen.py", outw), ("tiny inlay-hint programs", tiny),
                          ("hand-written", hand), ("damaged programs", dam[:len(dam) // 3])]:
            t1 = time.time()
            r = bl.check_all(None, wss, rng, built=built_all)
            print("check_all     %-26s workspaces %4d  compared %4d  noncore %3d  files %4d  offsets %7d  hint requests %5d  disagreements %d  (%.0f s)" % (
                name, r["workspaces"], r["compared"], r["noncore"], r["files"], r["offsets"], r["hint_requests"],
                len(r["disagreements"]), time.time() - t1))
            for d in r["disagreements"][:4]:
                print("   MODEL-VS-CODE FINDING [%s]: %s" % (d["handler"], d["what"][:700]))
                print("      files:", json.dumps(d["workspace"]["files"])[:500])
            for k in ("workspaces", "compared", "noncore", "offsets", "hint_requests", "files"):
                atotal[k] += r[k]
            atotal["disagreements"] += len(r["disagreements"])
            for h, v in r["nonempty"].items():
                nonempty[h] = nonempty.get(h, 0) + v
        print("check_all TOTAL: %(workspaces)d workspaces, %(compared)d compared for all nine handlers (%(noncore)d outside Core), "
              "%(files)d files, %(offsets)d offsets, %(hint_requests)d inlay-hint requests, %(disagreements)d disagreements" % atotal)
        print("   non-empty real answers per handler (runs for the per-offset handlers):", json.dumps(nonempty, sort_keys=True))
        if atotal["disagreements"]:
            ok = False
        if any(nonempty.get(h, 0) == 0 for h in bl.ALL_HANDLERS):
            print("FAIL: a handler never gave a non-empty answer:", [h for h in bl.ALL_HANDLERS if nonempty.get(h, 0) == 0])
            ok = False
        if not quick and atotal["compared"] < 300:
            print("FAIL: fewer than 300 workspaces compared for all nine handlers")
            ok = False
    print("bridge self-test:", "OK" if ok else "FAILED", "(%.0f s)" % (time.time() - t0))
    return 0 if ok else 1


if __name__ == "__main__":
    sys.exit(main())
