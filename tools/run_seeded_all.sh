#!/bin/bash
# lead tool: run every seeded change matching the given glob (default: reverts + independent mutations) against its property's check
cd "$(dirname "$0")/.."
pat=${1:-"revert-* *-mut?"}
par=${2:-4}
ls -d $(for g in $pat; do echo seeded/$g; done) 2>/dev/null | xargs -n1 basename | \
  xargs -P $par -I{} sh -c 'python3 tools/run_seeded.py {} > .cache/seedrun-{}.log 2>&1; echo "{} $(python3 -c "import json;m=json.load(open(\"seeded/{}/meta.json\"));print(\"caught=\",m.get(\"caught_by\"),\"noinput=\",m.get(\"caught_without_input_by\"),\"missed=\",m.get(\"missed_by\"))")"'
