#!/bin/bash
# lead tool: validate wave-4 mutations (m5/m6) of the given properties and run the owning check (+ neighbours) against them
cd "$(dirname "$0")/.."
for p in "$@"; do
  git -C /repo worktree remove --force /tmp/mut4-$p 2>/dev/null
  for i in 5 6; do
    [ -d /tmp/mut4-$p-out/m$i ] || continue
    [ -d seeded/$p-mut$i ] || python3 tools/validate_mut.py /tmp/mut4-$p-out/m$i $p-mut$i > .cache/val-$p-mut$i.log 2>&1
    head -1 .cache/val-$p-mut$i.log
  done
done
for p in "$@"; do for i in 5 6; do [ -d seeded/$p-mut$i ] && echo $p-mut$i; done; done | xargs -P 4 -I{} sh -c 'python3 tools/run_seeded.py {} > .cache/seedrun-{}.log 2>&1; echo "{} $(python3 -c "import json;m=json.load(open(\"seeded/{}/meta.json\"));print(\"caught=\",m.get(\"caught_by\"),\"tie-only=\",m.get(\"caught_without_input_by\"),\"quiet=\",m.get(\"missed_by\"))")"'
