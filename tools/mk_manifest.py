#!/usr/bin/env python3
"""Lead tool: regenerate MANIFEST.json from the table below (one entry per claimed property)."""
import json
import os

VERIF = os.path.dirname(os.path.dirname(os.path.abspath(__file__)))

COMMON_NOTE = ("Trusted: Coq 8.16.1 kernel incl. vm_compute (no native_compute), no axioms unless listed in the evidence "
               "file's axioms_per_theorem; the translators under tools/translate; Coq extraction with ExtrOcamlBasic only and the "
               "hand-written OCaml driver of the model unit; the Rust harness observers and the Python driver/oracle. "
               "The evidence file restates the trusted base and lists what is modelled rather than verified.")

# id -> (technique, level text, level note, design ref)
CLAIMED = {
}

NOT_APPLICABLE = {
}


def load_tables():
    """Entries live in tools/manifest_entries.json so that they can be edited without touching this script."""
    p = os.path.join(VERIF, "tools", "manifest_entries.json")
    d = json.load(open(p))
    return d["claimed"], d.get("not_applicable", {})


def main():
    claimed, na = load_tables()
    props = [json.loads(l)["id"] for l in open(os.path.join(VERIF, "properties.jsonl"))]
    checks = []
    for pid in props:
        if pid not in claimed:
            continue
        e = claimed[pid]
        checks.append({
            "property_id": pid,
            "quick_cmd": "./check %s --tier quick" % pid,
            "thorough_cmd": "./check %s --tier thorough" % pid,
            "evidence_file": "/verif/evidence/%s.json" % pid,
            "replay_cmd_template": "./check %s --replay {path}" % pid,
            "engine": "coq-models",
            "level_claimed": {"category": e.get("category", "proof"), "text": e["text"],
                              "design_ref": e.get("design_ref", "DESIGN.md section 9, " + pid)},
            "level_note": e["note"] + " " + COMMON_NOTE,
            "technique": e["technique"],
        })
    m = {
        "version": 1,
        "setup_cmd": "./check --setup",
        "hooks": {
            "guard": "tablegen_lsp_verif",
            "enable": "RUSTFLAGS='--cfg tablegen_lsp_verif' (set by lib/vlib.py build_harness(hooks=True) for the harness build only; "
                      "H2 = schedule points in the lsp server, H2b = snapshot drop point, H3 = SymbolMap op log)",
            "baseline_off_cmd": "cd /repo && cargo test --workspace --no-fail-fast --offline",
            "source_commits": ["650b80f", "60bf7c0", "61c39ff"],
            "add_only": True,
        },
        "engines": [{"name": "coq-models", "path": "/verif/coq",
                     "serves_properties": sorted(claimed),
                     "kind_free_text": "Coq 8.16.1 development: executable Gallina models of the code (hand-written, tied by a correspondence run "
                                       "of the extracted OCaml model against the real code on every check) and tables/programs regenerated from the "
                                       "Rust sources on every run by the translators; property theorems in coq/props/Cxx.v"}],
        "checks": checks,
        "not_applicable": [{"property_id": p, "reason": na[p]} for p in props if p not in claimed],
        "notes": "Every check: rebuild harness against /repo's working tree, re-run translators, re-check the Coq cone of the property "
                 "(make + Print Assumptions + forbidden-declaration scan), correspondence model vs implementation, implementation-side oracle. "
                 "Known findings: /verif/known_findings.txt. Seeded changes and which checks catch them: /verif/seeded/*/meta.json and DESIGN.md section 9.",
    }
    missing = [p for p in props if p not in claimed and p not in na]
    if missing:
        raise SystemExit("no entry and no not_applicable reason for: %s" % missing)
    json.dump(m, open(os.path.join(VERIF, "MANIFEST.json"), "w"), indent=1)
    print("claimed:", sorted(claimed), "not claimed:", [p for p in props if p not in claimed])


if __name__ == "__main__":
    main()
