#!/bin/bash
# lead tool: validate wave-2 mutations of the given properties and run the checks against them
cd "$(dirname "$0")/.."
for p in "$@"; do
  git -C /repo worktree remove --force /tmp/mut2-$p 2>/dev/null
  for i in 3 4; do
    [ -d /tmp/mut2-$p-out/m$i ] || continue
    [ -d seeded/$p-mut$i ] || python3 tools/validate_mut.py /tmp/mut2-$p-out/m$i $p-mut$i > .cache/val-$p-mut$i.log 2>&1
    head -1 .cache/val-$p-mut$i.log
  done
done
for p in "$@"; do for i in 3 4; do [ -d seeded/$p-mut$i ] && echo $p-mut$i; done; done | xargs -P 4 -I{} sh -c 'python3 tools/run_seeded.py {} > .cache/seedrun-{}.log 2>&1; echo "{} $(python3 -c "import json;m=json.load(open(\"seeded/{}/meta.json\"));print(\"caught=\",m.get(\"caught_by\"),\"noinput=\",m.get(\"caught_without_input_by\"),\"missed=\",m.get(\"missed_by\"))")"'
