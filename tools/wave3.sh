#!/bin/bash
# lead tool: validate wave-3 (file-targeted) mutations and run ALL checks against each
cd "$(dirname "$0")/.."
for k in "$@"; do
  git -C /repo worktree remove --force /tmp/mut3-$k 2>/dev/null
  for i in 1 2; do
    [ -d /tmp/mut3-$k-out/m$i ] || continue
    prop=$(python3 -c "import json;print(json.load(open('/tmp/mut3-$k-out/m$i/meta.json'))['property'].split()[0].strip(',;'))")
    name=$prop-w3$k-m$i
    [ -d seeded/$name ] || python3 tools/validate_mut.py /tmp/mut3-$k-out/m$i $name > .cache/val-$name.log 2>&1
    head -1 .cache/val-$name.log
  done
done
ALL=$(ls checks/C*.py | xargs -n1 basename | sed 's/.py//' | tr '\n' ' ')
ls -d seeded/*-w3*-m? 2>/dev/null | xargs -n1 basename | xargs -P 3 -I{} sh -c "python3 tools/run_seeded.py {} $ALL > .cache/seedrun-{}.log 2>&1; echo \"{} \$(python3 -c \"import json;m=json.load(open('seeded/{}/meta.json'));print('target=',m.get('property'),'caught=',m.get('caught_by'),'tie-only=',m.get('caught_without_input_by'))\")\""
