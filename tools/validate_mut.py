#!/usr/bin/env python3
"""Lead tool: independently confirm a mutation delivered by a fresh sub-agent and keep it.
usage: tools/validate_mut.py <srcdir e.g. /tmp/mut-C10-out/m1> <name e.g. C10-mut1>
In a scratch worktree of /repo (HEAD): demo passes on the clean tree; with patch.diff applied the tree
builds, `cargo test --workspace --offline` passes all tests, and the demo fails.  On success the
change is kept as /verif/seeded/<name>/ (patch.diff, demo file, meta.json)."""
import json
import os
import re
import shutil
import subprocess
import sys

VERIF = os.path.dirname(os.path.dirname(os.path.abspath(__file__)))
ENV = dict(os.environ, CARGO_NET_OFFLINE="true")


def sh(cmd, cwd, timeout=3000):
    p = subprocess.run(cmd, cwd=cwd, shell=True, env=ENV, capture_output=True, text=True, timeout=timeout)
    return p.returncode, p.stdout + p.stderr


def main():
    src, name = sys.argv[1], sys.argv[2]
    meta = json.load(open(os.path.join(src, "meta.json")))
    wt = "/tmp/val-" + name
    subprocess.run(["git", "-C", "/repo", "worktree", "remove", "--force", wt], capture_output=True)
    subprocess.run(["git", "-C", "/repo", "worktree", "add", "--detach", wt, "HEAD"], check=True, capture_output=True)
    # share the build cache of /repo's target to save time: copy-on-write not available, so just build
    ok, why = True, []
    try:
        demo_src = os.path.join(src, "demo.rs")
        demo_dst = os.path.join(wt, meta["demo_path"].split()[0])
        os.makedirs(os.path.dirname(demo_dst), exist_ok=True)
        shutil.copy(demo_src, demo_dst)
        cmd = meta["demo_cmd"]
        cmd = re.sub(r"/tmp/mut[2345]?-[CW]\d+", wt, cmd)
        if "--offline" not in cmd and cmd.strip().startswith("cargo"):
            cmd += " --offline"
        rc, out = sh(cmd, wt)
        if rc != 0:
            ok = False
            why.append("demo FAILS on the clean tree:\n" + out[-1500:])
        rc, out = sh("git apply " + os.path.join(src, "patch.diff"), wt)
        if rc != 0:
            ok = False
            why.append("patch does not apply: " + out[-500:])
        else:
            os.rename(demo_dst, demo_dst + ".off")     # suite without the demo
            rc, out = sh("cargo test --workspace --no-fail-fast --offline", wt)
            results = re.findall(r"test result: (\w+)\. (\d+) passed; (\d+) failed", out)
            passed = sum(int(a) for _, a, _ in results)
            failed = sum(int(b) for _, _, b in results)
            if rc != 0 or failed or passed != 90:
                ok = False
                why.append("suite with patch: rc=%s passed=%s failed=%s\n%s" % (rc, passed, failed, out[-1500:]))
            os.rename(demo_dst + ".off", demo_dst)
            rc, out = sh(cmd, wt)
            if rc == 0:
                ok = False
                why.append("demo PASSES with the patch (mutation not demonstrated)")
            demo_fail_tail = out[-1200:]
    finally:
        subprocess.run(["git", "-C", "/repo", "worktree", "remove", "--force", wt], capture_output=True)
        shutil.rmtree(wt, ignore_errors=True)
    print("VALID" if ok else "INVALID", name)
    for w in why:
        print(w)
    if ok:
        d = os.path.join(VERIF, "seeded", name)
        os.makedirs(d, exist_ok=True)
        shutil.copy(os.path.join(src, "patch.diff"), d)
        shutil.copy(demo_src, os.path.join(d, "demo.rs"))
        meta["origin"] = "fresh sub-agent given only the property text and a scratch worktree"
        meta["validated_by_lead"] = ("scratch worktree of /repo HEAD: demo passes clean; with patch: builds, "
                                     "cargo test --workspace 90/90 pass, demo fails")
        meta["demo_failure_tail"] = demo_fail_tail[-600:]
        meta["ran"] = None
        meta["caught_by"] = None
        json.dump(meta, open(os.path.join(d, "meta.json"), "w"), indent=1)
    return 0 if ok else 1


if __name__ == "__main__":
    sys.exit(main())
