#!/usr/bin/env python3
"""Lead tool: run checks against a seeded change in a scratch worktree (never touches /repo's tree).
usage: tools/run_seeded.py <seeded-dir-name> [Cxx ...] [--tier quick]
Creates /tmp/wt-seed-<name>, applies seeded/<name>/patch.diff, runs ./check Cxx with VERIF_REPO
pointing at it, records the outcome in seeded/<name>/meta.json (ran / caught_by / missed_by),
removes the worktree and its harness build dir."""
import json
import os
import subprocess
import sys
import hashlib

VERIF = os.path.dirname(os.path.dirname(os.path.abspath(__file__)))


def main():
    args = [a for a in sys.argv[1:] if not a.startswith("--")]
    tier = "quick"
    if "--tier" in sys.argv:
        tier = sys.argv[sys.argv.index("--tier") + 1]
        args = [a for a in args if a != tier]
    name = args[0]
    d = os.path.join(VERIF, "seeded", name)
    meta_p = os.path.join(d, "meta.json")
    meta = json.load(open(meta_p)) if os.path.exists(meta_p) else {}
    props = args[1:] or [meta.get("property")]
    wt = "/tmp/wt-seed-%s-%d" % (name, os.getpid())
    subprocess.run(["git", "-C", "/repo", "worktree", "remove", "--force", wt], capture_output=True)
    subprocess.run(["git", "-C", "/repo", "worktree", "add", "--detach", wt, "HEAD"], check=True, capture_output=True)
    res = {}
    try:
        subprocess.run(["git", "-C", wt, "apply", os.path.join(d, "patch.diff")], check=True)
        env = dict(os.environ, VERIF_REPO=wt)
        for p in props:
            pr = subprocess.run(["./check", p, "--tier", tier], cwd=VERIF, env=env, capture_output=True, text=True,
                                timeout=3600)
            vio = [l for l in pr.stdout.split("\n") if l.startswith("VIOLATION")]
            notes = [l for l in pr.stdout.split("\n") if l.startswith("# ")]
            res[p] = {"exit": pr.returncode, "violations": vio[:5], "what": notes[:5]}
            print(p, "exit", pr.returncode, *vio[:3], sep="\n  ")
            for n in notes[:3]:
                print("  ", n[:300])
            # keep one replay beside the seed as demonstration
            if vio:
                rp = vio[0].split("replay=")[1].split()[0]
                if os.path.exists(rp):
                    dst = os.path.join(d, "replay-%s.json" % p)
                    open(dst, "w").write(open(rp).read())
    finally:
        subprocess.run(["git", "-C", "/repo", "worktree", "remove", "--force", wt], capture_output=True)
        tag = "r" + hashlib.sha256(wt.encode()).hexdigest()[:10]
        for suf in ("", "-hooks"):
            subprocess.run(["rm", "-rf", os.path.join(VERIF, ".cache", "harness", tag + suf)])
        subprocess.run(["rm", "-rf", os.path.join(VERIF, ".cache", "coq-" + tag), os.path.join(VERIF, ".cache", "evidence-" + tag)])
        subprocess.run("rm -rf " + os.path.join(VERIF, ".cache", "ocaml", "*-" + tag), shell=True)
    # merge with the results of earlier runs for OTHER properties (a run replaces only the properties it ran)
    merged = dict(meta.get("results") or {})
    merged.update(res)
    res = merged
    ran = dict(meta.get("ran") or {}) if isinstance(meta.get("ran"), dict) else {}
    ran.update({p: "./check %s --tier %s (VERIF_REPO=scratch worktree with the patch)" % (p, tier) for p in props})
    meta["ran"] = ran
    meta["caught_by"] = sorted(p for p in res if res[p]["exit"] == 1 and any("no-failing-input-found" not in v for v in res[p]["violations"]))
    meta["caught_without_input_by"] = sorted(p for p in res if res[p]["exit"] == 1 and p not in meta["caught_by"])
    meta["missed_by"] = sorted(p for p in res if res[p]["exit"] == 0)
    meta["results"] = res
    json.dump(meta, open(meta_p, "w"), indent=1)


if __name__ == "__main__":
    main()
