#!/bin/bash
# Group "lines": quick check of one patch against the indexer tie WITHOUT a worktree / cargo / the Coq lock:
# usage: tools/indexer_try_patch.sh <patch.diff>   -> HOLDS | BREAKS: <first Coq error> (+ the `not rendered` lines)
# copies crates/ide/src of /repo to a temp dir, applies the patch, runs tools/translate/t_indexer.py on it and compiles the
# rendering + coq/proofs/GenIndexerEq.v against the compiled model in /verif/coq/model (read-only).
P=$(readlink -f "$1")
T=$(mktemp -d /tmp/lines-try.XXXXXX)
mkdir -p $T/repo/crates/ide $T/gen $T/proofs
cp -r /repo/crates/ide/src $T/repo/crates/ide/src
( cd $T/repo && patch -s -p1 < "$P" ) || { echo "PATCH-FAILED"; exit 1; }
cd /verif/tools/translate
python3 - <<PY || { echo "TRANSLATOR-REFUSES (whole file)"; rm -rf $T; exit 0; }
import sys, importlib.util
sys.path.insert(0, '/verif/tools/translate')
spec = importlib.util.spec_from_file_location('t_indexer_dev', '/verif/tools/translate/t_indexer.py')
m = importlib.util.module_from_spec(spec); spec.loader.exec_module(m)
open('$T/gen/GenIndexer.v', 'w').write(m.translate('$T/repo')['GenIndexer.v'])
PY
cd $T
cp /verif/coq/proofs/GenIndexerEq.v proofs/
grep "not rendered" gen/GenIndexer.v | cut -c1-200
if timeout 300 coqc -Q gen TG.Gen -Q /verif/coq/model TG.Model gen/GenIndexer.v > log 2>&1 && timeout 900 coqc -Q gen TG.Gen -Q /verif/coq/model TG.Model -Q proofs TG.Proofs proofs/GenIndexerEq.v >> log 2>&1; then echo "HOLDS"; else echo "BREAKS: $(grep -A3 '^File' log | tr '\n' ' ' | cut -c1-300)"; fi
rm -rf $T
