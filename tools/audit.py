#!/usr/bin/env python3
"""Lead tool: whole-development audit. (1) forbidden-declaration scan over EVERY .v file (not only a cone);
(2) Print Assumptions for every Theorem/Example of every coq/props/*.v; writes design/audit.md."""
import os, re, sys
sys.path.insert(0, os.path.join(os.path.dirname(os.path.abspath(__file__)), "..", "lib"))
import vlib

def main():
    hits = vlib.coq_forbidden_scan()
    out = ["# Whole-development audit (tools/audit.py)", "",
           "Files scanned: %d (.v under coq/gen, model, proofs, props, extract)." % len(vlib.coq_files()),
           "Forbidden declarations (Admitted/admit/Axiom/Parameter/Conjecture/Variable or Hypothesis outside a Section/"
           "Unset Guard|Positivity|Universe Checking/bypass_check/type-in-type/impredicative-set): %d" % len(hits), ""]
    out += ["* " + h for h in hits]
    total = closed = 0
    rows = []
    for fn in sorted(os.listdir(os.path.join(vlib.COQ, "props"))):
        if not fn.endswith(".v"):
            continue
        mod = "TG.Props." + fn[:-2]
        txt = vlib.strip_coq_comments(open(os.path.join(vlib.COQ, "props", fn)).read())
        names = re.findall(r"^\s*(?:Theorem|Example|Lemma|Corollary)\s+([A-Za-z_][\w']*)", txt, re.M)
        if not names:
            continue
        res, _ = vlib.coq_assumptions(mod, names, timeout=1800)
        for n in names:
            a = res.get(n)
            total += 1
            if a == []:
                closed += 1
            else:
                rows.append("* %s.%s: %s" % (mod, n, "NOT CHECKED" if a is None else ", ".join(a)))
    out += ["", "Property-level statements (Theorem/Example/Lemma in coq/props/*.v): %d; closed under the global context: %d." % (total, closed), ""]
    out += rows or ["Every one of them is closed under the global context (no axioms)."]
    open(os.path.join(vlib.VERIF, "design", "audit.md"), "w").write("\n".join(out) + "\n")
    print("\n".join(out[:6]), "\n...", out[-1])

if __name__ == "__main__":
    main()
