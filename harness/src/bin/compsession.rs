//! compsession: multi-step completion sessions on ONE AnalysisHost per session (all sessions in one process, like
//! a language-server process that lives across edits).
//! stdin: JSON array of sessions {"files": [[path, text], ...], "steps": [step, ...]}
//!   step = {"set": [path, text]}            the server's didOpen/didChange: memfs + set_file_content + set_root_file(path)
//!        | {"complete": [path, offset, trigger|null]}
//! stdout: JSON array, per session the list of results of the `complete` steps:
//!   [[label, snippet|null, kind], ...] | null   (or {"panic": msg} for the session)
use ide::analysis::AnalysisHost;
use ide::file_system::FilePosition;
use serde_json::{json, Value};
use std::sync::Arc;
use syntax::parser::TextSize;
use vharness::memfs::MemFs;

fn run(sess: &Value) -> Value {
    let mut fs = MemFs::new();
    for f in sess["files"].as_array().expect("files") {
        fs.set(f[0].as_str().unwrap(), f[1].as_str().unwrap());
    }
    let mut host = AnalysisHost::new();
    let mut out = Vec::new();
    for st in sess["steps"].as_array().expect("steps") {
        if let Some(s) = st.get("set") {
            let (p, t) = (s[0].as_str().unwrap(), s[1].as_str().unwrap());
            fs.set(p, t);
            let id = fs.id(p);
            host.wait_for_snapshots();
            host.set_file_content(id, Arc::from(t));
            host.set_root_file(&mut fs, id);
        } else if let Some(c) = st.get("complete") {
            let id = fs.id(c[0].as_str().unwrap());
            let off = c[1].as_u64().unwrap() as u32;
            let trig = c[2].as_str().map(|s| s.to_string());
            let a = host.analysis();
            let r = a.completion(FilePosition::new(id, TextSize::from(off)), trig).map(|v| {
                Value::Array(v.iter().map(|i| json!([i.label, i.insert_text_snippet, format!("{:?}", i.kind)])).collect())
            });
            drop(a);
            out.push(json!(r));
        }
    }
    Value::Array(out)
}

fn main() {
    vharness::quiet_panics();
    let input: Value = serde_json::from_str(&vharness::read_stdin()).expect("json");
    let mut res = Vec::new();
    for s in input.as_array().expect("array") {
        let w = s.clone();
        let h = std::thread::Builder::new()
            .stack_size(2 * 1024 * 1024)
            .spawn(move || vharness::guarded(move || run(&w)))
            .unwrap();
        match h.join() {
            Ok(Ok(v)) => res.push(v),
            Ok(Err(m)) => res.push(json!({"panic": m})),
            Err(_) => res.push(json!({"panic": "thread"})),
        }
    }
    println!("{}", Value::Array(res));
}
