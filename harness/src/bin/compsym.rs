//! compsym (group grammar, C20): the symbol-map op log (hook H3) of a workspace and the real completion lists.
//! stdin: JSON array of workspaces {"files": [[path, text], ...], "root": path, "offsets": [[path, off], ...]}
//! stdout: per workspace {"oplog": [lines] | null (built without --cfg tablegen_lsp_verif), "fids": {path: id},
//!                        "comp": [[path, off, [[label, snippet|null, kind], ...] | null], ...]}   (or {"panic": msg})
use ide::analysis::{Analysis, AnalysisHost};
use ide::file_system::{FileId, FilePosition};
use serde_json::{json, Value};
use std::collections::BTreeMap;
use std::sync::Arc;
use syntax::parser::TextSize;
use vharness::memfs::MemFs;

#[cfg(tablegen_lsp_verif)]
fn take_oplog() -> Value {
    json!(ide::symbol_map::verif_take_oplog())
}
#[cfg(not(tablegen_lsp_verif))]
fn take_oplog() -> Value {
    Value::Null
}

fn run(ws: &Value) -> Value {
    let mut fs = MemFs::new();
    for f in ws["files"].as_array().expect("files") {
        fs.set(f[0].as_str().unwrap(), f[1].as_str().unwrap());
    }
    let root = ws["root"].as_str().expect("root");
    let mut host = AnalysisHost::new();
    let root_id = fs.id(root);
    let root_text = fs.contents.get(&MemFs::path(root)).cloned().unwrap_or_default();
    host.set_file_content(root_id, Arc::from(root_text.as_str()));
    host.set_root_file(&mut fs, root_id);
    let a: Analysis = host.analysis();
    let _ = take_oplog();
    let _index = a.index();
    let oplog = take_oplog();
    let diags = a.diagnostics();
    let mut ws_files: Vec<FileId> = diags.keys().copied().collect();
    ws_files.sort();
    let fids: BTreeMap<String, u32> = ws_files.iter().map(|f| (fs.path_str(f), f.0)).collect();
    let mut comp = Vec::new();
    for o in ws["offsets"].as_array().map(|v| v.clone()).unwrap_or_default() {
        let p = o[0].as_str().unwrap();
        let off = o[1].as_u64().unwrap() as u32;
        if let Some(id) = fs.known_id(p) {
            let r = a.completion(FilePosition::new(id, TextSize::from(off)), None).map(|v| {
                Value::Array(v.iter().map(|i| json!([i.label, i.insert_text_snippet, format!("{:?}", i.kind)])).collect())
            });
            comp.push(json!([p, off, r]));
        }
    }
    json!({"oplog": oplog, "fids": fids, "comp": comp})
}

fn main() {
    vharness::quiet_panics();
    let input: Value = serde_json::from_str(&vharness::read_stdin()).expect("json");
    let mut res = Vec::new();
    for ws in input.as_array().expect("array") {
        let w = ws.clone();
        let h = std::thread::Builder::new()
            .stack_size(2 * 1024 * 1024)
            .spawn(move || vharness::guarded(move || run(&w)))
            .unwrap();
        match h.join() {
            Ok(Ok(v)) => res.push(v),
            Ok(Err(m)) => res.push(json!({"panic": m})),
            Err(_) => res.push(json!({"panic": "thread"})),
        }
    }
    println!("{}", Value::Array(res));
}
