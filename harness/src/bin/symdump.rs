//! symdump (group C03/C06/C17): runs the real analysis on in-memory workspaces and prints
//!   * the identifier tokens (and optionally the whole rowan tree) of every workspace file,
//!   * the symbol-map op log (hook H3, only when compiled with `--cfg tablegen_lsp_verif`),
//!   * the final state of the real `SymbolMap` as far as the public API shows it (the interval map of every
//!     file through `iter_symbols_in_range`, and name / define_loc / reference_locs of every symbol it mentions),
//!   * the index diagnostics, and every query result that carries a range,
//!   * goto-definition / references at the requested offsets (run-length compressed), with hover and
//!     completion executed at the same offsets (only their presence is printed).
//! stdin: JSON array of workspaces
//!   {"files": [[path, text], ...], "root": path,
//!    "offsets": "all" | "none" | [[path, off], ...],
//!    "hint_ranges": "full" | "all" | "none" | [[path, lo, hi], ...],
//!    "trees": bool (default false), "completion": bool (default true), "hover": bool (default true)}
//! stdout: JSON array, one object per workspace; a panic inside a query gives
//!   {"panic": msg, "query": what, ...partial results...}.
use ide::analysis::{Analysis, AnalysisHost};
use ide::file_system::{FileId, FilePosition, FileRange};
use ide::handlers::document_symbol::DocumentSymbol;
use ide::symbol_map::symbol::SymbolId;
use serde_json::{json, Map, Value};
use std::collections::{BTreeMap, BTreeSet};
use std::panic::AssertUnwindSafe;
use std::sync::Arc;
use syntax::parser::{TextRange, TextSize};
use syntax::syntax_kind::SyntaxKind;
use syntax::{SyntaxElement, SyntaxNode};
use vharness::memfs::MemFs;

fn sym(s: &DocumentSymbol) -> Value {
    json!({"name": s.name.to_string(), "kind": format!("{:?}", s.kind),
           "range": [u32::from(s.range.start()), u32::from(s.range.end())],
           "children": s.children.iter().map(sym).collect::<Vec<_>>()})
}

fn node(n: &SyntaxNode) -> Value {
    let r = n.text_range();
    let kids: Vec<Value> = n
        .children_with_tokens()
        .map(|c| match c {
            SyntaxElement::Node(m) => node(&m),
            SyntaxElement::Token(t) => {
                let r = t.text_range();
                json!(["T", format!("{:?}", t.kind()), u32::from(r.start()), u32::from(r.end())])
            }
        })
        .collect();
    json!(["N", format!("{:?}", n.kind()), u32::from(r.start()), u32::from(r.end()), kids])
}

fn sid(id: SymbolId) -> (String, usize) {
    match id {
        SymbolId::RecordId(i) => ("record".into(), i.index()),
        SymbolId::TemplateArgumentId(i) => ("template_arg".into(), i.index()),
        SymbolId::RecordFieldId(i) => ("record_field".into(), i.index()),
        SymbolId::VariableId(i) => ("variable".into(), i.index()),
        SymbolId::DefsetId(i) => ("defset".into(), i.index()),
        SymbolId::MulticlassId(i) => ("multiclass".into(), i.index()),
        SymbolId::DefmId(i) => ("defm".into(), i.index()),
    }
}

#[cfg(tablegen_lsp_verif)]
fn take_oplog() -> Value {
    json!(ide::symbol_map::verif_take_oplog())
}
#[cfg(not(tablegen_lsp_verif))]
fn take_oplog() -> Value {
    Value::Null
}

struct Stop(String, String);

fn q<T>(what: impl Fn() -> String, f: impl FnOnce() -> T) -> Result<T, Stop> {
    match std::panic::catch_unwind(AssertUnwindSafe(f)) {
        Ok(v) => Ok(v),
        Err(e) => {
            let msg = if let Some(s) = e.downcast_ref::<&str>() {
                s.to_string()
            } else if let Some(s) = e.downcast_ref::<String>() {
                s.clone()
            } else {
                "panic".to_string()
            };
            Err(Stop(msg, what()))
        }
    }
}

fn run(ws: &Value, out: &mut Map<String, Value>) -> Result<(), Stop> {
    let mut fs = MemFs::new();
    let files = ws["files"].as_array().expect("files");
    for f in files {
        fs.set(f[0].as_str().unwrap(), f[1].as_str().unwrap());
    }
    let root = ws["root"].as_str().expect("root");
    let mut host = AnalysisHost::new();
    let root_id = fs.id(root);
    let root_text = fs.contents.get(&MemFs::path(root)).cloned().unwrap_or_default();
    host.set_file_content(root_id, Arc::from(root_text.as_str()));
    q(|| "set_root_file".into(), || host.set_root_file(&mut fs, root_id))?;
    let a: Analysis = host.analysis();
    let fr = |r: &FileRange| json!([fs.path_str(&r.file), u32::from(r.range.start()), u32::from(r.range.end())]);

    let _ = take_oplog();
    let index = q(|| "index".into(), || a.index())?;
    out.insert("oplog".into(), take_oplog());

    let diags = q(|| "diagnostics".into(), || a.diagnostics())?;
    let mut ws_files: Vec<FileId> = diags.keys().copied().collect();
    ws_files.sort();
    let mut dj: BTreeMap<String, Vec<Value>> = BTreeMap::new();
    for (fid, ds) in &diags {
        let mut v: Vec<(u32, u32, String)> = ds
            .iter()
            .map(|d| (u32::from(d.location.range.start()), u32::from(d.location.range.end()), d.message.clone()))
            .collect();
        v.sort();
        dj.insert(fs.path_str(fid), v.into_iter().map(|(a, b, m)| json!([a, b, m])).collect());
    }
    out.insert("diagnostics".into(), json!(dj));
    out.insert("workspace".into(), json!(ws_files.iter().map(|f| fs.path_str(f)).collect::<Vec<_>>()));
    out.insert("fids".into(), json!(ws_files.iter().map(|f| (fs.path_str(f), f.0)).collect::<BTreeMap<_, _>>()));
    // diagnostics produced by the indexer, in order, with the file they were paired with (may be
    // a file outside the workspace if the pairing is wrong: printed by id when the path is unknown)
    let known: BTreeSet<FileId> = ws_files.iter().copied().collect();
    let idx_diags: Vec<Value> = index
        .diagnostics()
        .iter()
        .map(|d| {
            let p = if known.contains(&d.location.file) { fs.path_str(&d.location.file) } else { format!("#{}", d.location.file.0) };
            json!([p, u32::from(d.location.range.start()), u32::from(d.location.range.end()), d.message])
        })
        .collect();
    out.insert("index_diags".into(), json!(idx_diags));

    let want_trees = ws.get("trees").and_then(|v| v.as_bool()).unwrap_or(false);
    let do_completion = ws.get("completion").and_then(|v| v.as_bool()).unwrap_or(true);
    let do_hover = ws.get("hover").and_then(|v| v.as_bool()).unwrap_or(true);
    let symbol_map = index.symbol_map();

    let mut lens = Map::new();
    let mut idtoks = Map::new();
    let mut trees = Map::new();
    let mut pos = Map::new();
    let mut syms: BTreeMap<String, Value> = BTreeMap::new();
    let mut symbols = Map::new();
    let mut folding = Map::new();
    let mut links = Map::new();
    let mut at = Map::new();
    let mut hints = Map::new();
    let mut nq: u64 = 0;
    for fid in &ws_files {
        let p = fs.path_str(fid);
        let text: String = if *fid == root_id { root_text.clone() } else { fs.contents.get(&MemFs::path(&p)).cloned().unwrap_or_default() };
        lens.insert(p.clone(), json!(text.len()));
        // identifier tokens / tree of the same text (syntax::parse is what db.parse runs)
        let parse = q(|| format!("parse {p}"), || syntax::parse(&text))?;
        let rootn = parse.syntax_node();
        let mut ids: Vec<Value> = Vec::new();
        for e in rootn.descendants_with_tokens() {
            if let SyntaxElement::Token(t) = e {
                if t.kind() == SyntaxKind::Id {
                    let r = t.text_range();
                    ids.push(json!([u32::from(r.start()), u32::from(r.end()), t.text()]));
                }
            }
        }
        idtoks.insert(p.clone(), Value::Array(ids));
        if want_trees {
            trees.insert(p.clone(), node(&rootn));
        }
        // interval map of the file, in iteration order
        let mut pv: Vec<Value> = Vec::new();
        if !text.is_empty() {
            let whole = FileRange::new(*fid, TextRange::new(TextSize::from(0), TextSize::from(text.len() as u32 + 1)));
            let entries: Vec<(FileRange, SymbolId)> = q(|| format!("iter_symbols_in_range {p}"), || {
                symbol_map.iter_symbols_in_range(whole).map(|it| it.collect()).unwrap_or_default()
            })?;
            for (r, id) in entries {
                let (c, i) = sid(id);
                pv.push(json!([u32::from(r.range.start()), u32::from(r.range.end()), c, i]));
                let key = format!("{c}:{i}");
                if !syms.contains_key(&key) {
                    let s = q(|| format!("symbol {key}"), || {
                        let s = symbol_map.symbol(id);
                        json!({"name": s.name().to_string(), "def": fr(s.define_loc()),
                               "refs": s.reference_locs().iter().map(|r| fr(r)).collect::<Vec<_>>()})
                    })?;
                    syms.insert(key, s);
                }
            }
        }
        pos.insert(p.clone(), Value::Array(pv));

        let ds = q(|| format!("document_symbol {p}"), || a.document_symbol(*fid))?;
        symbols.insert(p.clone(), match ds { Some(v) => Value::Array(v.iter().map(sym).collect()), None => Value::Null });
        let fo = q(|| format!("folding_range {p}"), || a.folding_range(*fid))?;
        folding.insert(p.clone(), match fo {
            Some(v) => Value::Array(v.iter().map(|r| json!([u32::from(r.range.start()), u32::from(r.range.end())])).collect()),
            None => Value::Null,
        });
        let li = q(|| format!("document_link {p}"), || a.document_link(*fid))?;
        links.insert(p.clone(), match li {
            Some(v) => Value::Array(v.iter().map(|l| {
                let t = if known.contains(&l.target) { fs.path_str(&l.target) } else { format!("#{}", l.target.0) };
                json!([u32::from(l.range.start()), u32::from(l.range.end()), t])
            }).collect()),
            None => Value::Null,
        });
        nq += 3;

        let offs: Vec<u32> = match ws.get("offsets") {
            Some(Value::String(s)) if s == "none" => vec![],
            Some(Value::Array(v)) => v.iter().filter(|x| x[0].as_str() == Some(p.as_str())).map(|x| x[1].as_u64().unwrap() as u32).collect(),
            _ => (0..=text.len()).filter(|i| text.is_char_boundary(*i)).map(|i| i as u32).collect(),
        };
        let mut runs: Vec<Value> = Vec::new();
        let mut prev: Option<Value> = None;
        for o in offs {
            let fpos = FilePosition::new(*fid, TextSize::from(o));
            let def = q(|| format!("goto_definition {p}@{o}"), || a.goto_definition(fpos))?.map(|r| fr(&r));
            let refs = q(|| format!("references {p}@{o}"), || a.references(fpos))?
                .map(|v| Value::Array(v.iter().map(|r| fr(r)).collect()));
            nq += 2;
            let mut e = json!({"def": def, "refs": refs});
            if do_hover {
                let h = q(|| format!("hover {p}@{o}"), || a.hover(fpos))?;
                e["hover"] = json!(h.is_some());
                nq += 1;
            }
            if do_completion {
                let c0 = q(|| format!("completion {p}@{o}"), || a.completion(fpos, None))?;
                let c1 = q(|| format!("completion! {p}@{o}"), || a.completion(fpos, Some("!".to_string())))?;
                e["comp"] = json!([c0.map(|v| v.len()), c1.map(|v| v.len())]);
                nq += 2;
            }
            if prev.as_ref() != Some(&e) {
                let mut r = e.clone();
                r["o"] = json!(o);
                runs.push(r);
                prev = Some(e);
            }
        }
        at.insert(p.clone(), Value::Array(runs));

        let ranges: Vec<(u32, u32)> = match ws.get("hint_ranges") {
            Some(Value::String(s)) if s == "none" => vec![],
            Some(Value::String(s)) if s == "all" => {
                let b: Vec<u32> = (0..=text.len()).filter(|i| text.is_char_boundary(*i)).map(|i| i as u32).collect();
                let mut v = Vec::new();
                for (i, lo) in b.iter().enumerate() {
                    for hi in &b[i..] {
                        v.push((*lo, *hi));
                    }
                }
                v
            }
            Some(Value::Array(v)) => v.iter().filter(|x| x[0].as_str() == Some(p.as_str())).map(|x| (x[1].as_u64().unwrap() as u32, x[2].as_u64().unwrap() as u32)).collect(),
            _ => vec![(0, text.len() as u32)],
        };
        // hints: only distinct results are printed (with the first range that produced them) plus a count
        let mut hv: Vec<Value> = Vec::new();
        let mut seen: BTreeSet<String> = BTreeSet::new();
        let mut nh = 0u64;
        for (lo, hi) in ranges {
            let r = FileRange::new(*fid, TextRange::new(TextSize::from(lo), TextSize::from(hi)));
            let h = q(|| format!("inlay_hint {p}@{lo}..{hi}"), || a.inlay_hint(r))?;
            nh += 1;
            let hj = h.map(|v| Value::Array(v.iter().map(|h| json!([u32::from(h.position), h.label, format!("{:?}", h.kind)])).collect()));
            let key = hj.to_owned().map(|v| v.to_string()).unwrap_or_else(|| "null".into());
            if seen.insert(key) {
                hv.push(json!([lo, hi, hj]));
            }
        }
        nq += nh;
        hints.insert(p.clone(), json!({"n": nh, "distinct": hv}));
    }
    out.insert("len".into(), Value::Object(lens));
    out.insert("idtoks".into(), Value::Object(idtoks));
    if want_trees {
        out.insert("trees".into(), Value::Object(trees));
    }
    out.insert("state".into(), json!({"pos": pos, "syms": syms}));
    out.insert("symbols".into(), Value::Object(symbols));
    out.insert("folding".into(), Value::Object(folding));
    out.insert("links".into(), Value::Object(links));
    out.insert("at".into(), Value::Object(at));
    out.insert("hints".into(), Value::Object(hints));
    out.insert("queries".into(), json!(nq));

    // "reedit": [[path, new text], ...]: the raw AnalysisHost usage of the repo's own `update_diag` test: after the
    // analysis above, set_file_content ONLY (no set_root_file), then query again; answers go to "re"
    let reedits: Vec<(String, String)> = ws
        .get("reedit")
        .and_then(|v| v.as_array())
        .map(|v| v.iter().map(|x| (x[0].as_str().unwrap().to_string(), x[1].as_str().unwrap().to_string())).collect())
        .unwrap_or_default();
    if !reedits.is_empty() {
        let path_ids: BTreeMap<String, FileId> = ws_files.iter().map(|f| (fs.path_str(f), *f)).collect();
        let id_paths: BTreeMap<FileId, String> = ws_files.iter().map(|f| (*f, fs.path_str(f))).collect();
        let mut cur_text: BTreeMap<String, String> = BTreeMap::new();
        for fid in &ws_files {
            let p = fs.path_str(fid);
            let text: String = if *fid == root_id { root_text.clone() } else { fs.contents.get(&MemFs::path(&p)).cloned().unwrap_or_default() };
            cur_text.insert(p, text);
        }
        drop(index);
        drop(a);
        for (p, t) in &reedits {
            if let Some(fid) = path_ids.get(p) {
                host.set_file_content(*fid, Arc::from(t.as_str()));
                cur_text.insert(p.clone(), t.clone());
            }
        }
        let a2: Analysis = host.analysis();
        let frp = |r: &FileRange| json!([id_paths.get(&r.file).cloned().unwrap_or_else(|| format!("#{}", r.file.0)), u32::from(r.range.start()), u32::from(r.range.end())]);
        let mut re = Map::new();
        let diags2 = q(|| "re:diagnostics".into(), || a2.diagnostics())?;
        let mut dj2: BTreeMap<String, Vec<Value>> = BTreeMap::new();
        for (fid, ds) in &diags2 {
            let p = id_paths.get(fid).cloned().unwrap_or_else(|| format!("#{}", fid.0));
            dj2.insert(p, ds.iter().map(|d| json!([u32::from(d.location.range.start()), u32::from(d.location.range.end()), d.message.clone()])).collect());
        }
        re.insert("diagnostics".into(), json!(dj2));
        let mut symbols2 = Map::new();
        let mut hints2 = Map::new();
        let mut at2 = Map::new();
        for fid in &ws_files {
            let p = id_paths[fid].clone();
            let text = cur_text.get(&p).cloned().unwrap_or_default();
            let ds = q(|| format!("re:document_symbol {p}"), || a2.document_symbol(*fid))?;
            symbols2.insert(p.clone(), match ds { Some(v) => Value::Array(v.iter().map(sym).collect()), None => Value::Null });
            let r = FileRange::new(*fid, TextRange::new(TextSize::from(0), TextSize::from(text.len() as u32)));
            let h = q(|| format!("re:inlay_hint {p}"), || a2.inlay_hint(r))?;
            let hj = h.map(|v| Value::Array(v.iter().map(|h| json!([u32::from(h.position), h.label, format!("{:?}", h.kind)])).collect()));
            hints2.insert(p.clone(), json!({"n": 1, "distinct": [[0, text.len(), hj]]}));
            let mut runs: Vec<Value> = Vec::new();
            let mut prev: Option<Value> = None;
            for o in (0..=text.len()).filter(|i| text.is_char_boundary(*i)).map(|i| i as u32) {
                let fpos = FilePosition::new(*fid, TextSize::from(o));
                let def = q(|| format!("re:goto_definition {p}@{o}"), || a2.goto_definition(fpos))?.map(|r| frp(&r));
                let refs = q(|| format!("re:references {p}@{o}"), || a2.references(fpos))?
                    .map(|v| Value::Array(v.iter().map(|r| frp(r)).collect()));
                let mut e = json!({"def": def, "refs": refs});
                if do_hover {
                    let h = q(|| format!("re:hover {p}@{o}"), || a2.hover(fpos))?;
                    e["hover"] = json!(h.is_some());
                }
                if prev.as_ref() != Some(&e) {
                    let mut r = e.clone();
                    r["o"] = json!(o);
                    runs.push(r);
                    prev = Some(e);
                }
            }
            at2.insert(p.clone(), Value::Array(runs));
        }
        re.insert("symbols".into(), Value::Object(symbols2));
        re.insert("hints".into(), Value::Object(hints2));
        re.insert("at".into(), Value::Object(at2));
        out.insert("re".into(), Value::Object(re));
    }
    Ok(())
}

fn main() {
    vharness::quiet_panics();
    let input: Value = serde_json::from_str(&vharness::read_stdin()).expect("json");
    let mut res = Vec::new();
    for ws in input.as_array().expect("array") {
        let w = ws.clone();
        // 2 MiB stack like a tokio worker; a stack overflow aborts the process (the driver bisects)
        let h = std::thread::Builder::new()
            .stack_size(2 * 1024 * 1024)
            .spawn(move || {
                let mut out = Map::new();
                match run(&w, &mut out) {
                    Ok(()) => {}
                    Err(Stop(msg, what)) => {
                        out.insert("panic".into(), json!(msg));
                        out.insert("query".into(), json!(what));
                    }
                }
                Value::Object(out)
            })
            .unwrap();
        match h.join() {
            Ok(v) => res.push(v),
            Err(_) => res.push(json!({"panic": "thread", "query": "?"})),
        }
        // progress marker on stderr so that the driver can tell which workspace a crash belongs to
        eprintln!("done {}", res.len());
    }
    println!("{}", Value::Array(res));
}
