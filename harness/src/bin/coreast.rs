//! coreast: bridge REAL parse trees -> the CoreAst serialisation read by coq/extract/scope_driver.ml.
//! Every piece of the serialisation is obtained through the real typed accessors of `syntax::ast`
//! (the same accessors index.rs uses), so a change of an `ast_field!` index/kind changes the bridge.
//! stdin : JSON array of workspaces {"files": [[path, text], ...], "root": path}
//! stdout: JSON array of {"files": [path...]   (index = file number used in the serialisation; root first),
//!                        "ast": "<sexp>" | null, "noncore": reason | null,
//!                        "parse_errors": {path: [[lo, hi, msg], ...]}}
//! A workspace is "noncore" when a mandatory child of the Core grammar is missing (syntax errors):
//! such workspaces are only covered by the implementation-side oracle.
use ide::analysis::{Analysis, AnalysisHost};
use ide::file_system::FileId;
use serde_json::{json, Value};
use std::collections::HashMap;
use std::sync::Arc;
use syntax::ast::{self, AstNode};
use syntax::parser::TextRange;
use vharness::memfs::MemFs;

type R<T> = Result<T, String>;

struct Cx {
    file: usize,
    /// include node start offset -> target file number
    links: Vec<(u32, u32, usize)>,
}

fn need<T>(o: Option<T>, what: &str) -> R<T> {
    o.ok_or_else(|| format!("missing {what}"))
}

fn rng(cx: &Cx, r: TextRange) -> String {
    format!("{} {} {}", cx.file, u32::from(r.start()), u32::from(r.end()))
}

fn ident(cx: &Cx, id: &ast::Identifier) -> R<String> {
    let name = need(id.value(), "identifier text")?;
    let r = need(id.range(), "identifier range")?;
    let cps: Vec<String> = name.chars().map(|c| (c as u32).to_string()).collect();
    Ok(format!("(id {} {})", rng(cx, r), cps.join(" ")))
}

fn name_sx(s: &str) -> String {
    let cps: Vec<String> = s.chars().map(|c| (c as u32).to_string()).collect();
    format!("(n {})", cps.join(" "))
}

fn typ(cx: &Cx, t: &ast::Type) -> R<String> {
    Ok(match t {
        ast::Type::BitType(_) => "(bit)".into(),
        ast::Type::IntType(_) => "(int)".into(),
        ast::Type::StringType(_) => "(string)".into(),
        ast::Type::CodeType(_) => "(code)".into(),
        ast::Type::DagType(_) => "(dag)".into(),
        ast::Type::BitsType(b) => {
            let n = need(need(b.length(), "bits length")?.value(), "bits length value")?;
            if n < 0 {
                return Err("negative bits length".into());
            }
            format!("(bits {n})")
        }
        ast::Type::ListType(l) => format!("(list {})", typ(cx, &need(l.inner_type(), "list inner type")?)?),
        ast::Type::ClassId(c) => format!("(class {})", ident(cx, &need(c.name(), "class id name")?)?),
    })
}

fn value(cx: &Cx, v: &ast::Value) -> R<String> {
    let mut s = format!("(val {}", rng(cx, v.syntax().text_range()));
    let mut n = 0;
    for iv in v.inner_values() {
        s.push(' ');
        s.push_str(&inner(cx, &iv)?);
        n += 1;
    }
    if n == 0 {
        return Err("value without inner value".into());
    }
    s.push(')');
    Ok(s)
}

fn values<I: Iterator<Item = ast::Value>>(cx: &Cx, it: I) -> R<String> {
    let mut v = Vec::new();
    for x in it {
        v.push(value(cx, &x)?);
    }
    Ok(v.join(" "))
}

fn inner(cx: &Cx, iv: &ast::InnerValue) -> R<String> {
    let sv = need(iv.simple_value(), "simple value")?;
    let mut s = format!("(in {}", simple(cx, &sv)?);
    for suf in iv.suffixes() {
        s.push(' ');
        match suf {
            ast::ValueSuffix::RangeSuffix(_) => s.push_str("(rs)"),
            ast::ValueSuffix::SliceSuffix(sl) => {
                s.push_str(&format!("(sl {})", if sl.is_single_element() { 1 } else { 0 }))
            }
            ast::ValueSuffix::FieldSuffix(fs) => s.push_str(&format!(
                "(fs {} {})",
                ident(cx, &need(fs.name(), "field suffix name")?)?,
                rng(cx, fs.syntax().text_range())
            )),
        }
    }
    s.push(')');
    Ok(s)
}

fn args(cx: &Cx, l: Option<ast::ArgValueList>) -> R<String> {
    let mut out = Vec::new();
    if let Some(l) = l {
        for a in l.arg_values() {
            out.push(match a {
                ast::ArgValue::PositionalArgValue(p) => format!(
                    "(pos {} {})",
                    value(cx, &need(p.value(), "positional value")?)?,
                    rng(cx, p.syntax().text_range())
                ),
                ast::ArgValue::NamedArgValue(nv) => {
                    let nm = need(nv.name(), "named arg name")?;
                    let first = need(nm.inner_values().next(), "named arg name inner")?;
                    let sv = need(first.simple_value(), "named arg name simple")?;
                    let r = rng(cx, nv.syntax().text_range());
                    match sv {
                        ast::SimpleValue::String(s) => format!(
                            "(named {} {} {})",
                            name_sx(&s.value()),
                            value(cx, &need(nv.value(), "named value")?)?,
                            r
                        ),
                        ast::SimpleValue::Identifier(i) => format!(
                            "(named {} {} {})",
                            name_sx(&need(i.value(), "named ident")?),
                            value(cx, &need(nv.value(), "named value")?)?,
                            r
                        ),
                        _ => format!("(namedbad {r})"),
                    }
                }
            });
        }
    }
    Ok(format!("(args {})", out.join(" ")))
}

fn simple(cx: &Cx, sv: &ast::SimpleValue) -> R<String> {
    Ok(match sv {
        ast::SimpleValue::Integer(_) => "(i)".into(),
        ast::SimpleValue::String(_) => "(s)".into(),
        ast::SimpleValue::Code(_) => "(c)".into(),
        ast::SimpleValue::Boolean(_) => "(b)".into(),
        ast::SimpleValue::Uninitialized(_) => "(u)".into(),
        ast::SimpleValue::Bits(b) => format!("(bits {})", values(cx, need(b.value_list(), "bits value list")?.values())?),
        ast::SimpleValue::List(l) => format!("(lst {})", values(cx, need(l.value_list(), "list value list")?.values())?),
        ast::SimpleValue::Dag(d) => {
            let mut vs: Vec<ast::Value> = Vec::new();
            if let Some(v) = d.operator().and_then(|it| it.value()) {
                vs.push(v);
            }
            if let Some(al) = d.arg_list() {
                vs.extend(al.args().filter_map(|it| it.value()));
            }
            format!("(dag {})", values(cx, vs.into_iter())?)
        }
        ast::SimpleValue::Identifier(i) => ident(cx, i)?,
        ast::SimpleValue::ClassValue(c) => format!(
            "(cv {} {} {})",
            ident(cx, &need(c.name(), "class value name")?)?,
            args(cx, c.arg_value_list())?,
            rng(cx, c.syntax().text_range())
        ),
        ast::SimpleValue::BangOperator(b) => {
            let k = need(b.kind(), "bang operator kind")?;
            let ty = match b.r#type() {
                Some(t) => format!("(ty {} {})", typ(cx, &t)?, rng(cx, t.syntax().text_range())),
                None => "(noty)".into(),
            };
            format!("(bang {:?} {} (vals {}) {})", k, ty, values(cx, b.values())?, rng(cx, b.syntax().text_range()))
        }
        ast::SimpleValue::CondOperator(c) => {
            let mut vs = Vec::new();
            for cl in c.clauses() {
                vs.push(need(cl.condition(), "cond condition")?);
                vs.push(need(cl.value(), "cond value")?);
            }
            format!("(cond {})", values(cx, vs.into_iter())?)
        }
    })
}

fn opt_value(cx: &Cx, v: Option<ast::Value>) -> R<String> {
    Ok(match v {
        Some(v) => format!("(some {})", value(cx, &v)?),
        None => "(none)".into(),
    })
}

fn targs(cx: &Cx, l: Option<ast::TemplateArgList>) -> R<String> {
    Ok(match l {
        None => "(none)".into(),
        Some(l) => {
            let mut out = Vec::new();
            for a in l.args() {
                out.push(format!(
                    "(ta {} {} {})",
                    typ(cx, &need(a.r#type(), "template arg type")?)?,
                    ident(cx, &need(a.name(), "template arg name")?)?,
                    opt_value(cx, a.value())?
                ));
            }
            format!("(some (targs {}))", out.join(" "))
        }
    })
}

fn parents(cx: &Cx, l: &ast::ParentClassList) -> R<String> {
    let mut out = Vec::new();
    for c in l.classes() {
        out.push(format!(
            "(cr {} {} {})",
            ident(cx, &need(c.name(), "class ref name")?)?,
            args(cx, c.arg_value_list())?,
            rng(cx, c.syntax().text_range())
        ));
    }
    Ok(format!("(parents {})", out.join(" ")))
}

fn record_body(cx: &Cx, rb: &ast::RecordBody) -> R<String> {
    let pl = need(rb.parent_class_list(), "parent class list")?;
    let body = need(rb.body(), "body")?;
    let mut items = Vec::new();
    for it in body.items() {
        items.push(match it {
            ast::BodyItem::FieldDef(f) => format!(
                "(field {} {} {})",
                typ(cx, &need(f.r#type(), "field type")?)?,
                ident(cx, &need(f.name(), "field name")?)?,
                opt_value(cx, f.value())?
            ),
            ast::BodyItem::FieldLet(f) => format!(
                "(let {} {})",
                ident(cx, &need(f.name(), "field let name")?)?,
                value(cx, &need(f.value(), "field let value")?)?
            ),
            ast::BodyItem::Defvar(d) => format!(
                "(defvar {} {})",
                ident(cx, &need(d.name(), "defvar name")?)?,
                value(cx, &need(d.value(), "defvar value")?)?
            ),
            ast::BodyItem::Assert(a) => format!(
                "(assert {} {})",
                value(cx, &need(a.condition(), "assert condition")?)?,
                value(cx, &need(a.message(), "assert message")?)?
            ),
            ast::BodyItem::Dump(d) => format!("(dump {})", value(cx, &need(d.value(), "dump value")?)?),
        });
    }
    Ok(format!("{} (body {})", parents(cx, &pl)?, items.join(" ")))
}

fn stmts(cx: &Cx, l: &ast::StatementList) -> R<String> {
    let mut out = Vec::new();
    for s in l.statements() {
        out.push(stmt(cx, &s)?);
    }
    Ok(format!("(stmts {})", out.join(" ")))
}

fn stmt(cx: &Cx, s: &ast::Statement) -> R<String> {
    Ok(match s {
        ast::Statement::Include(i) => {
            let r = i.syntax().text_range();
            let (lo, hi) = (u32::from(r.start()), u32::from(r.end()));
            need(i.path(), "include path")?;
            let tgt = cx.links.iter().find(|(a, b, _)| lo <= *a && *b <= hi).map(|x| x.2);
            match tgt {
                Some(t) => format!("(include {} (some {}))", rng(cx, r), t),
                None => format!("(include {} (none))", rng(cx, r)),
            }
        }
        ast::Statement::Assert(a) => format!(
            "(assert {} {})",
            value(cx, &need(a.condition(), "assert condition")?)?,
            value(cx, &need(a.message(), "assert message")?)?
        ),
        ast::Statement::Class(c) => format!(
            "(class {} {} {})",
            ident(cx, &need(c.name(), "class name")?)?,
            targs(cx, c.template_arg_list())?,
            record_body(cx, &need(c.record_body(), "record body")?)?
        ),
        ast::Statement::Def(d) => format!(
            "(def {} {} {})",
            opt_value(cx, d.name())?,
            rng(cx, d.syntax().text_range()),
            record_body(cx, &need(d.record_body(), "record body")?)?
        ),
        ast::Statement::Defm(d) => format!(
            "(defm {} {} {})",
            opt_value(cx, d.name())?,
            rng(cx, d.syntax().text_range()),
            parents(cx, &need(d.parent_class_list(), "defm parents")?)?
        ),
        ast::Statement::Defset(d) => format!(
            "(defset {} {} {})",
            typ(cx, &need(d.r#type(), "defset type")?)?,
            ident(cx, &need(d.name(), "defset name")?)?,
            stmts(cx, &need(d.statement_list(), "defset body")?)?
        ),
        ast::Statement::Defvar(d) => format!(
            "(defvar {} {})",
            ident(cx, &need(d.name(), "defvar name")?)?,
            value(cx, &need(d.value(), "defvar value")?)?
        ),
        ast::Statement::Dump(d) => format!("(dump {})", value(cx, &need(d.value(), "dump value")?)?),
        ast::Statement::Foreach(f) => {
            let it = need(f.iterator(), "foreach iterator")?;
            let init = match need(it.init(), "foreach init")? {
                ast::ForeachIteratorInit::RangeList(_) | ast::ForeachIteratorInit::RangePiece(_) => "(range)".to_string(),
                ast::ForeachIteratorInit::Value(v) => format!("(v {})", value(cx, &v)?),
            };
            format!(
                "(foreach {} {} {})",
                ident(cx, &need(it.name(), "foreach name")?)?,
                init,
                stmts(cx, &need(f.body(), "foreach body")?)?
            )
        }
        ast::Statement::If(i) => format!(
            "(if {} {} {})",
            value(cx, &need(i.condition(), "if condition")?)?,
            stmts(cx, &need(i.then_body(), "then body")?)?,
            match i.else_body() {
                Some(b) => format!("(some {})", stmts(cx, &b)?),
                None => "(none)".into(),
            }
        ),
        ast::Statement::Let(l) => {
            let ll = need(l.let_list(), "let list")?;
            let mut vs = Vec::new();
            for it in ll.items() {
                vs.push(need(it.value(), "let item value")?);
            }
            format!(
                "(let (vals {}) {})",
                values(cx, vs.into_iter())?,
                stmts(cx, &need(l.statement_list(), "let body")?)?
            )
        }
        ast::Statement::MultiClass(m) => format!(
            "(multiclass {} {} {} {})",
            ident(cx, &need(m.name(), "multiclass name")?)?,
            targs(cx, m.template_arg_list())?,
            parents(cx, &need(m.parent_class_list(), "multiclass parents")?)?,
            stmts(cx, &need(m.statement_list(), "multiclass body")?)?
        ),
    })
}

fn run(ws: &Value) -> Value {
    let mut fs = MemFs::new();
    for f in ws["files"].as_array().expect("files") {
        fs.set(f[0].as_str().unwrap(), f[1].as_str().unwrap());
    }
    let root = ws["root"].as_str().expect("root");
    let mut host = AnalysisHost::new();
    let root_id = fs.id(root);
    let root_text = fs.contents.get(&MemFs::path(root)).cloned().unwrap_or_default();
    host.set_file_content(root_id, Arc::from(root_text.as_str()));
    host.set_root_file(&mut fs, root_id);
    let a: Analysis = host.analysis();
    let diags = a.diagnostics();
    let mut ws_files: Vec<FileId> = diags.keys().copied().collect();
    ws_files.sort();
    let num: HashMap<FileId, usize> = ws_files.iter().enumerate().map(|(i, f)| (*f, i)).collect();
    let paths: Vec<String> = ws_files.iter().map(|f| fs.path_str(f)).collect();

    let mut file_sx = Vec::new();
    let mut noncore: Option<String> = None;
    let mut perrs = serde_json::Map::new();
    for fid in &ws_files {
        let p = fs.path_str(fid);
        let text: String = if *fid == root_id { root_text.clone() } else { fs.contents.get(&MemFs::path(&p)).cloned().unwrap_or_default() };
        let parse = syntax::parse(&text);
        perrs.insert(
            p.clone(),
            Value::Array(parse.errors().iter().map(|e| json!([u32::from(e.range.start()), u32::from(e.range.end()), e.message])).collect()),
        );
        let links: Vec<(u32, u32, usize)> = a
            .document_link(*fid)
            .unwrap_or_default()
            .iter()
            .filter_map(|l| num.get(&l.target).map(|t| (u32::from(l.range.start()), u32::from(l.range.end()), *t)))
            .collect();
        let cx = Cx { file: num[fid], links };
        let r = (|| -> R<String> {
            let sf = need(ast::SourceFile::cast(parse.syntax_node()), "source file")?;
            let sl = need(sf.statement_list(), "statement list")?;
            Ok(format!("(file {})", stmts(&cx, &sl)?))
        })();
        match r {
            Ok(s) => file_sx.push(s),
            Err(e) => {
                if noncore.is_none() {
                    noncore = Some(format!("{p}: {e}"));
                }
            }
        }
    }
    let ast = if noncore.is_none() { Value::String(format!("(ws {})", file_sx.join(" "))) } else { Value::Null };
    json!({"files": paths, "ast": ast, "noncore": noncore, "parse_errors": Value::Object(perrs)})
}

fn main() {
    vharness::quiet_panics();
    let input: Value = serde_json::from_str(&vharness::read_stdin()).expect("json");
    let mut res = Vec::new();
    for ws in input.as_array().expect("array") {
        let w = ws.clone();
        let h = std::thread::Builder::new()
            .stack_size(8 * 1024 * 1024)
            .spawn(move || vharness::guarded(move || run(&w)))
            .unwrap();
        match h.join() {
            Ok(Ok(v)) => res.push(v),
            Ok(Err(m)) => res.push(json!({"panic": m})),
            Err(_) => res.push(json!({"panic": "thread"})),
        }
    }
    println!("{}", Value::Array(res));
}
