//! vfsdrive (C12): `hostdrive` with the vfs mode: the real `lsp::vfs::Vfs` over real files, the statements of
//! `Server::set_file_content` replicated (see hostcommon/mod.rs for the protocol).  Kept apart from `hostdrive`
//! so that a change of the Vfs API breaks only this bin; checks/C12.py then falls back to the real Server
//! (lspdrive) to look for a failing input.
#[path = "hostcommon/mod.rs"]
mod hostcommon;

use ide::file_system::FilePath;
use lsp::vfs::Vfs;

/// Trees in which `Vfs` has no `set_open_document` (before the D8 repair): `Server::set_file_content` has no
/// such statement there either.  An inherent method takes precedence over this trait method, so on the
/// repaired tree the real `Vfs::set_open_document` is called.
#[allow(dead_code)]
trait NoOpenDocuments {
    fn set_open_document(&mut self, _path: FilePath, _text: String) {}
}
impl NoOpenDocuments for Vfs {}

impl hostcommon::RealFs for Vfs {
    fn new_real() -> Self {
        Vfs::new()
    }
    fn open_document(&mut self, path: FilePath, text: String) {
        self.set_open_document(path, text);
    }
}

fn main() {
    hostcommon::main_with::<Vfs>();
}
